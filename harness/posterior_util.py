"""Shared helpers of the C01 / C04 / C05 checks: model registry (the seven mixture models of pb_bss behind one
calling convention), structured generators (regular + degenerate streams), an independent Bayes-rule
evaluation, validity checks of affiliation arrays and canonical (gauge-free) views of fitted parameters.

Everything random is drawn from the `rng` passed in (ctx.rng); the real code's own use of the global NumPy
RNG (`num_classes=` starts, iid initialisers) is seeded explicitly through `np.random.seed(seed)`."""
import itertools

import numpy as np

from pb_bss.distribution import (
    CACGMMTrainer, CWMMTrainer, CBMMTrainer, GMMTrainer, VMFMMTrainer, GCACGMMTrainer, VMFCACGMMTrainer,
)
from pb_bss.distribution import complex_angular_central_gaussian as cacg_mod
from pb_bss import permutation_alignment as pa

TINY = float(np.finfo(np.float64).tiny)

MODELS = ['cacgmm', 'cwmm', 'cbmm', 'gmm', 'vmfmm', 'gcacgmm', 'vmfcacgmm']
COMPLEX_OBS = {'cacgmm', 'cwmm', 'cbmm', 'gcacgmm', 'vmfcacgmm'}
INTEGRATION = {'gcacgmm', 'vmfcacgmm'}
DIRECTIONAL = ['cacgmm', 'cwmm', 'cbmm', 'gcacgmm', 'vmfcacgmm', 'vmfmm']     # C04
# weight_constant_axis options (DESIGN.md C01); the integration models document tuples only
WCA_PLAIN = [(-1,), (-3,), (-3, -1), -2, (-2,), (-3, -2, -1)]
WCA_INTEGRATION = [(-1,), (-3,), (-3, -1), (-3, -2, -1)]
# exception types that are never a deliberate rejection of an input
IMPLICIT_EXC = (TypeError, IndexError, AttributeError, KeyError, NameError, UnboundLocalError, ZeroDivisionError)


def implicit_exception(e):
    """exceptions that are never a deliberate rejection of an input: programming-error types and NumPy's own
    shape / broadcasting complaints"""
    if isinstance(e, IMPLICIT_EXC):
        return True
    return isinstance(e, ValueError) and any(t in str(e) for t in (
        'could not be broadcast', 'shape mismatch', 'cannot reshape', 'einstein sum', 'operands', 'dimension mismatch'))


def numerical_rejection(e):
    """explicit rejections whose trigger is a threshold on a (near-)singular quantity: a Cholesky / eigen-solver failure,
    sklearn's "ill-defined empirical covariance", the finite-ness / sign assertions of the trainers"""
    return isinstance(e, (np.linalg.LinAlgError, AssertionError, FloatingPointError)) or (
        isinstance(e, ValueError) and not isinstance(e, (TypeError,)) and any(
            t in str(e) for t in ('ill-defined empirical covariance', 'infs or NaNs', 'Residuals are not finite', 'x0',
                                  'array(')))


def wca_options(name, ndim):
    """tying options applicable to affiliations with `ndim` axes"""
    opts = WCA_INTEGRATION if name in INTEGRATION else WCA_PLAIN
    out = []
    for w in opts:
        axes = (w,) if isinstance(w, int) else w
        if all(-ndim <= a for a in axes):
            out.append(w)
    return out


def as_wca(w):
    """JSON round trip turns tuples into lists / '__tuple__'; normalise"""
    if isinstance(w, (list, tuple)):
        return tuple(int(a) for a in w)
    return int(w)


# ----------------------------------------------------------------------------- aligners (inline option)
def make_aligner(cfg):
    if cfg is None:
        return None
    if cfg['kind'] == 'greedy':
        return pa.GreedyPermutationAlignment(cfg.get('metric', 'cos'))
    d = dict(cfg)
    d.pop('kind')
    metric = d.pop('metric', 'cos')
    return pa.DHTVPermutationAlignment(**d, similarity_metric=metric)


def aligner_cfg(rng, F):
    if rng.random() < 0.5:
        return {'kind': 'greedy', 'metric': str(rng.choice(['cos', 'multiply', 'euclidean']))}
    width = int(rng.integers(1, F + 1))
    start = int(rng.integers(0, F - width + 1))
    return {'kind': 'dhtv', 'metric': str(rng.choice(['cos', 'multiply'])), 'stft_size': 2 * (F - 1),
            'segment_start': start, 'segment_width': width, 'segment_shift': int(rng.integers(1, width + 2)),
            'main_iterations': int(rng.integers(1, 4)), 'sub_iterations': int(rng.integers(1, 3))}


# ----------------------------------------------------------------------------- calling convention
def _kw(name, opts):
    kw = dict(opts or {})
    if 'weight_constant_axis' in kw:
        kw['weight_constant_axis'] = as_wca(kw['weight_constant_axis'])
    if 'inline_permutation_aligner' in kw:
        kw['inline_permutation_aligner'] = make_aligner(kw['inline_permutation_aligner'])
    return kw


def trainer(name):
    return {'cacgmm': CACGMMTrainer, 'cwmm': CWMMTrainer, 'cbmm': CBMMTrainer, 'gmm': GMMTrainer,
            'vmfmm': VMFMMTrainer, 'gcacgmm': GCACGMMTrainer, 'vmfcacgmm': VMFCACGMMTrainer}[name]()


def fit(name, obs, emb, init, iterations, opts=None, num_classes=None, seed=None, predict=False):
    """Trainer.fit / fit_predict with either an initial affiliation or num_classes (+ global RNG seed)"""
    kw = _kw(name, opts)
    if num_classes is not None:
        np.random.seed(seed)
        start = dict(num_classes=int(num_classes))
    else:
        start = dict(initialization=init)
    if kw.get('fixed_covariance') is not None:
        # symbolic option (a scale): the same scale * identity for every class, in the shape of the Gaussian class
        from .em_util import fixed_covariance
        K = int(num_classes) if num_classes is not None else np.shape(init)[-2]
        kw['fixed_covariance'] = fixed_covariance(kw['fixed_covariance'], kw.get('covariance_type', 'full'),
                                                  emb.shape[:-2] if name == 'gmm' else (), K, emb.shape[-1])
    tr = trainer(name)
    f = tr.fit_predict if predict else tr.fit
    if name in INTEGRATION:
        return f(obs, emb, iterations=int(iterations), **start, **kw)
    y = obs if name in COMPLEX_OBS else emb
    return f(y, iterations=int(iterations), **start, **kw)


def predict(name, model, obs, emb, mask=None):
    if name in INTEGRATION:
        return model.predict(obs, emb)
    y = obs if name in COMPLEX_OBS else emb
    if name == 'cacgmm' and mask is not None:
        return model.predict(y, source_activity_mask=mask)
    return model.predict(y)


def _unit(y):
    return y / np.maximum(np.linalg.norm(y, axis=-1, keepdims=True), np.finfo(y.dtype).tiny)


def own_log_pdf(name, model, obs, emb):
    """log p_k(y_n) as reported by the component distribution's own `log_pdf` -> (..., K, N)
    (integration models: exponent-weighted sum of the two streams)"""
    if name == 'cacgmm':
        return model.cacg.log_pdf(obs[..., None, :, :])
    if name == 'cwmm':
        return model.complex_watson.log_pdf(_unit(obs)[..., None, :, :])
    if name == 'cbmm':
        return model.complex_bingham.log_pdf(_unit(obs)[..., None, :, :])
    if name == 'gmm':
        return model.gaussian.log_pdf(emb[..., None, :, :])
    if name == 'vmfmm':
        return model.vmf.log_pdf(emb[..., None, :, :])
    F, T, _ = obs.shape
    spatial = model.cacg.log_pdf(_unit(obs)[..., None, :, :])                    # (F, K, T)
    comp = model.gaussian if name == 'gcacgmm' else model.vmf
    e = emb if name == 'gcacgmm' else _unit(emb)
    spectral = comp.log_pdf(e.reshape(1, F * T, -1))                              # (K, F*T)
    K = spectral.shape[0]
    spectral = spectral.reshape(K, F, T).transpose(1, 0, 2)
    return model.spatial_weight * spatial + model.spectral_weight * spectral


def stream_log_pdfs(name, model, obs, emb):
    """(spatial, spectral) log-pdfs (F, K, T) of an integration model, unweighted"""
    F, T, _ = obs.shape
    spatial = model.cacg.log_pdf(_unit(obs)[..., None, :, :])
    comp = model.gaussian if name == 'gcacgmm' else model.vmf
    e = emb if name == 'gcacgmm' else _unit(emb)
    spectral = comp.log_pdf(e.reshape(1, F * T, -1))
    K = spectral.shape[0]
    return spatial, spectral.reshape(K, F, T).transpose(1, 0, 2)


def stream_log_pdfs_as_predict(name, model, obs, emb):
    """the two stream log-pdfs evaluated on bit-identical inputs to `predict` (observation normalised once by
    max(norm, tiny); the public cacg.log_pdf would normalise a second time, which the ill-conditioned quadratic form of a
    class at the eigenvalue floor amplifies to ~1e-7) - used by the correspondence, where only the posterior / weight
    bookkeeping is compared"""
    F, T, _ = obs.shape
    spatial = model.cacg._log_pdf(np.swapaxes(_unit(obs)[..., None, :, :], -1, -2))[0]
    comp = model.gaussian if name == 'gcacgmm' else model.vmf
    e = emb if name == 'gcacgmm' else _unit(emb)
    spectral = comp.log_pdf(e.reshape(1, F * T, -1))
    K = spectral.shape[0]
    return spatial, spectral.reshape(K, F, T).transpose(1, 0, 2)


def own_weight(name, model):
    """stored mixture weights in a shape that broadcasts against (..., K, N)"""
    w = np.asarray(model.weight)
    if name in INTEGRATION:
        axes = tuple(model.weight_constant_axis)
        return np.expand_dims(w, axes) if axes else w      # independent of pb_bss.utils.unsqueeze
    return w


def bayes_posterior(weight, log_pdf, mask=None):
    """Bayes rule gamma_k = pi_k p_k / sum_j pi_j p_j evaluated independently (log domain, float64/longdouble);
    columns without any active positive-mass class are all-zero"""
    lp = np.asarray(log_pdf, dtype=np.longdouble)
    w = np.broadcast_to(np.asarray(weight, dtype=np.longdouble), lp.shape)
    with np.errstate(all='ignore'):
        a = lp + np.log(w)
    if mask is not None:
        a = np.where(np.broadcast_to(mask, lp.shape), a, -np.inf)
    m = np.max(a, axis=-2, keepdims=True)
    m = np.where(np.isfinite(m), m, 0)
    e = np.exp(a - m)
    s = np.sum(e, axis=-2, keepdims=True)
    with np.errstate(all='ignore'):
        out = np.where(s > 0, e / np.where(s > 0, s, 1), 0)
    return out.astype(np.float64)


def mixture_log_likelihood(weight, log_pdf):
    """sum_n log sum_k pi_k p_k(y_n)"""
    lp = np.asarray(log_pdf, dtype=np.float64)
    with np.errstate(all='ignore'):
        a = lp + np.log(np.broadcast_to(np.asarray(weight, dtype=np.float64), lp.shape))
    m = np.max(a, axis=-2, keepdims=True)
    return float(np.sum(m[..., 0, :] + np.log(np.sum(np.exp(a - m), axis=-2))))


# ----------------------------------------------------------------------------- validity of an affiliation array
def sum_tol(dtype):
    return 1e-12 if np.dtype(dtype).itemsize >= 8 else 2e-5


def check_distribution(g, shape, mask=None, eps=0.0, single=False):
    """None if `g` is a valid class-affiliation array of shape `shape` (..., K, N); else (tag, description)"""
    g = np.asarray(g)
    if tuple(g.shape) != tuple(shape):
        return 'shape', f'shape {g.shape} != documented {tuple(shape)}'
    if not np.issubdtype(g.dtype, np.floating):
        return 'dtype', f'dtype {g.dtype} is not a real floating type'
    if not np.isfinite(g).all():
        bad = np.argwhere(~np.isfinite(g))[0].tolist()
        return 'non-finite', f'value {g[tuple(bad)]} at index {bad}'
    if g.min() < 0 or g.max() > 1:
        return 'out-of-range', f'min {g.min()!r} max {g.max()!r} outside [0, 1]'
    K = g.shape[-2]
    s = g.sum(axis=-2)
    tol = 2e-5 if (single or g.dtype.itemsize < 8) else 1e-12
    if eps:
        tol = tol + K * eps
    if mask is None:
        dev = np.abs(s - 1)
        if dev.max() > tol:
            i = np.unravel_index(np.argmax(dev), dev.shape)
            return 'not-normalised', f'class sum {s[i]!r} at {list(i)} (|sum-1| = {dev[i]:.3g} > {tol:.3g})'
    else:
        mask = np.broadcast_to(mask, g.shape)
        if not eps:
            if np.any(g[~mask] != 0):
                return 'mask-not-zero', 'a source declared inactive has a non-zero posterior'
        active = mask.any(axis=-2)
        dev = np.where(active, np.abs(s - 1), np.abs(s) if not eps else 0)
        if dev.max() > tol:
            i = np.unravel_index(np.argmax(dev), dev.shape)
            what = 'active column' if active[i] else 'all-inactive column'
            return ('not-normalised' if active[i] else 'all-inactive-not-zero',
                    f'{what}: class sum {s[i]!r} at {list(i)}')
    return None


# ----------------------------------------------------------------------------- generators
OBS_KINDS_REGULAR = ['normal', 'normal', 'clustered']
OBS_KINDS_DEGENERATE = ['zero', 'dup', 'rank1', 'rankdef', 'fewer', 'big', 'small', 'mixedscale', 'halfzero', 'onezero']


def cnormal(rng, shape):
    return rng.normal(size=shape) + 1j * rng.normal(size=shape)


def gen_pair(rng, lead, N, D, E, kind, K=2):
    """(obs complex (*lead, N, D), emb real (*lead, N, E)) of the given kind"""
    sh = tuple(lead)
    Y = cnormal(rng, sh + (N, D))
    Em = rng.normal(size=sh + (N, E))
    if kind == 'clustered':
        lab = rng.integers(0, K, size=sh + (N,))
        cy = cnormal(rng, (K, D)) * 3
        ce = rng.normal(size=(K, E)) * 3
        Y = 0.4 * Y + cy[lab] * np.exp(2j * np.pi * rng.random(sh + (N, 1)))
        Em = 0.4 * Em + ce[lab]
    elif kind == 'zero':
        Y[:] = 0
        Em[:] = 0
    elif kind == 'dup':
        Y[:] = Y[..., :1, :]
        Em[:] = Em[..., :1, :]
    elif kind == 'rank1':
        Y = cnormal(rng, sh + (N, 1)) * cnormal(rng, sh + (1, D))
        Em = rng.normal(size=sh + (N, 1)) * rng.normal(size=sh + (1, E))
    elif kind == 'rankdef':
        r = max(1, D - 1 - int(rng.integers(0, max(1, D - 1))))
        Y = cnormal(rng, sh + (N, r)) @ cnormal(rng, (r, D))
        r = max(1, E - 1)
        Em = rng.normal(size=sh + (N, r)) @ rng.normal(size=(r, E))
    elif kind == 'big':
        Y *= 1e150
        Em *= 1e150
    elif kind == 'small':
        Y *= 1e-150
        Em *= 1e-150
    elif kind == 'mixedscale':
        s = 10.0 ** rng.uniform(-150, 150, size=sh + (N, 1))
        Y = Y * s
        Em = Em * s
    elif kind == 'halfzero':
        Y[..., : N // 2, :] = 0
        Em[..., : N // 2, :] = 0
    elif kind == 'onezero':
        Y[..., 0, :] = 0
        Em[..., 0, :] = 0
    return Y, Em


def to_single(Y, Em, kind):
    """float32 version inside float32's finite range (DESIGN.md 5c)"""
    if kind == 'big':
        Y, Em = Y * 1e-135, Em * 1e-135
    elif kind == 'small':
        Y, Em = Y * 1e135, Em * 1e135
    elif kind == 'mixedscale':
        with np.errstate(all='ignore'):
            Y = Y / np.maximum(np.abs(Y), 1e-300) * np.abs(Y) ** 0.1
            Em = np.sign(Em) * np.abs(Em) ** 0.1
    Yc, Ec = Y.astype(np.complex64), Em.astype(np.float32)
    if not (np.isfinite(Yc).all() and np.isfinite(Ec).all()):
        return None
    return Yc, Ec


def gen_init(rng, lead, K, N, kind):
    """initial affiliation (*lead, K, N) with positive mass for every class (where N allows it)"""
    sh = tuple(lead)
    if kind == 'soft':
        a = rng.dirichlet(np.ones(K), size=sh + (N,))
        a = np.maximum(a, 1e-6)
        a /= a.sum(-1, keepdims=True)
        return np.ascontiguousarray(np.swapaxes(a, -1, -2))
    if kind == 'uniform':
        a = rng.random(sh + (K, N)) + 1e-3
        return a / a.sum(-2, keepdims=True)
    if kind == 'hard':
        lab = rng.integers(0, K, size=sh + (N,))
        if N >= K:      # every class gets at least one frame in every leading index
            first = np.stack([rng.permutation(N)[:K] for _ in range(int(np.prod(sh, dtype=int)))]).reshape(sh + (K,))
            for k in range(K):
                np.put_along_axis(lab, first[..., k:k + 1], k, axis=-1)
        return np.ascontiguousarray(np.swapaxes(np.eye(K)[lab], -1, -2))
    if kind == 'flag':
        lab = np.linspace(0, K, N, dtype=int, endpoint=False)
        m = float(rng.uniform(0.01, 0.9)) / K
        a = np.eye(K)[lab].T
        a = np.where(a > 0, 1 - (K - 1) * m, m)
        return np.broadcast_to(a, sh + (K, N)).copy(order='K')
    raise ValueError(kind)


def class_mass_positive(init):
    return bool(np.all(np.sum(init, axis=-1) > 0))


def gen_mask(rng, shape, kind):
    """boolean source-activity mask (..., K, N)"""
    if kind == 'random':
        m = rng.random(shape) < 0.7
    elif kind == 'all':
        m = np.ones(shape, dtype=bool)
    elif kind == 'some-columns-off':
        m = rng.random(shape) < 0.8
        off = rng.random(shape[:-2] + (1, shape[-1])) < 0.25
        m = m & ~off
    elif kind == 'one-class-each':
        lab = rng.integers(0, shape[-2], size=shape[:-2] + (shape[-1],))
        m = np.swapaxes(np.eye(shape[-2], dtype=bool)[lab], -1, -2)
    else:
        raise ValueError(kind)
    return np.ascontiguousarray(m)


def gen_options(rng, name, ndim, F=None, allow_aligner=True, K=2):
    """random documented keyword options of the trainer of `name`"""
    o = {'weight_constant_axis': wca_options(name, ndim)[int(rng.integers(len(wca_options(name, ndim))))]}
    if name in ('cacgmm', 'gcacgmm', 'vmfcacgmm'):
        o['covariance_norm'] = [('eigenvalue'), 'trace', False][int(rng.integers(3))]
        o['affiliation_eps'] = float(rng.choice([0.0, 1e-10, 1e-3]))
        o['hermitize'] = bool(rng.random() < 0.8)
    if name == 'cbmm':
        o['affiliation_eps'] = float(rng.choice([0.0, 1e-10, 1e-3]))
    if name in ('gmm', 'gcacgmm'):
        o['covariance_type'] = str(rng.choice(['full', 'diagonal', 'spherical']))
        if rng.random() < 0.15:
            o['fixed_covariance'] = float(rng.choice([0.5, 1.0, 2.0]))
    if name in INTEGRATION:
        o['spatial_weight'] = float(rng.choice([1.0, 0.5, 2.0, 0.0]))
        o['spectral_weight'] = float(rng.choice([1.0, 0.3, 1.7]))
        o['inline_permutation_alignment'] = bool(allow_aligner and K <= 4 and rng.random() < 0.3)
    if (allow_aligner and name in ('cacgmm', 'cwmm', 'cbmm') and ndim == 3 and F is not None and F >= 3 and F % 2 == 1
            and as_wca(o['weight_constant_axis']) in ((-3,), (-3, -1)) and rng.random() < 0.5):
        o['inline_permutation_aligner'] = aligner_cfg(rng, F)
    return o


def gen_saliency(rng, shape_ln, kind):
    if kind == 'none':
        return None
    if kind == 'random':
        return rng.random(shape_ln) + 0.05
    if kind == 'binary':
        s = (rng.random(shape_ln) < 0.8).astype(np.float64)
        s[..., 0] = 1
        return s
    raise ValueError(kind)


# ----------------------------------------------------------------------------- canonical views of fitted parameters
def _proj(v):
    """rank-one projector of a (unit) vector: removes the phase gauge of modes"""
    return v[..., :, None] * np.conj(v[..., None, :])


def fitted_params(name, model, shape):
    """list of (label, array, class_axis or None, kind); gauge freedoms removed (eigenvector phases -> covariance
    matrices, modes -> projectors); weights broadcast to the full affiliation shape"""
    out = [('weight', np.broadcast_to(own_weight(name, model), shape).astype(np.float64), -2, 'prob')]
    if name in ('cacgmm', 'gcacgmm', 'vmfcacgmm'):
        out.append(('cacg.covariance', model.cacg.covariance, -3, 'matrix'))
        out.append(('cacg.eigenvalues(sorted)', np.sort(model.cacg.covariance_eigenvalues, axis=-1), -2, 'eig'))
    if name == 'cwmm':
        out.append(('watson.mode-projector', _proj(model.complex_watson.mode), -3, 'matrix'))
        out.append(('watson.concentration', np.asarray(model.complex_watson.concentration), -1, 'scale'))
    if name == 'cbmm':
        out.append(('bingham.parameter-matrix', model.complex_bingham.covariance, -3, 'solver'))
    if name in ('gmm', 'gcacgmm'):
        g = model.gaussian
        out.append(('gaussian.mean', g.mean, -2, 'vector'))
        cov = np.asarray(g.covariance)
        ax = {g.mean.ndim + 1: -3, g.mean.ndim: -2, g.mean.ndim - 1: -1}[cov.ndim]
        out.append(('gaussian.covariance', cov, ax, 'matrix'))
    if name in ('vmfmm', 'vmfcacgmm'):
        out.append(('vmf.mean', model.vmf.mean, -2, 'vector'))
        out.append(('vmf.concentration', np.asarray(model.vmf.concentration), -1, 'scale'))
    return out


def rel_close(a, b, rtol, atol=0.0):
    """max |a-b| <= atol + rtol * max(|a|,|b|) over the whole array (norm-wise: parameters are compared as objects)"""
    a, b = np.asarray(a), np.asarray(b)
    if a.shape != b.shape:
        return False, np.inf
    if a.size == 0:
        return True, 0.0
    if not (np.isfinite(a).all() and np.isfinite(b).all()):
        return bool(np.array_equal(np.isfinite(a), np.isfinite(b))
                    and np.allclose(a[np.isfinite(a)], b[np.isfinite(b)], rtol=rtol, atol=atol)), np.inf
    scale = max(float(np.max(np.abs(a))), float(np.max(np.abs(b))))
    err = float(np.max(np.abs(a - b)))
    return err <= atol + rtol * scale, (err / scale if scale > 0 else err)


def conditioning(name, model):
    """eigenvalue spread of the fitted cACG covariances (1 for the other models): EM on a class that collapsed onto the
    eigenvalue floor (spread 1e10) amplifies rounding differences accordingly"""
    if hasattr(model, 'cacg'):
        ev = np.asarray(model.cacg.covariance_eigenvalues, dtype=np.float64)
        with np.errstate(all='ignore'):
            c = float(np.nanmax(ev.max(-1) / ev.min(-1)))
        return c if np.isfinite(c) else 1e16
    return 1.0


def tolerances(name, *models):
    """comparison tolerances "up to rounding" for two runs of an EM that agree in exact arithmetic"""
    if name == 'cbmm':          # solver values replayed (BinghamSolverTape); parameters -1/lambda are ill-conditioned
        # (rounding differences of the scatter eigenvalues, 1e-16, reach the Bingham parameters amplified by the
        # concentration, ~1e8 for clustered data, and the posteriors of the next iterations from there)
        return dict(post=1e-5, param=1e-4, lp=1e-4)
    c = max(conditioning(name, m) for m in models)
    return dict(post=min(1e-3, 1e-8 + 1e-14 * c), param=min(1e-2, 1e-6 + 1e-13 * c), lp=min(1e-2, 1e-6 + 1e-13 * c))


class TapeMismatch(Exception):
    pass


class BinghamSolverTape:
    """Record / replay of the external inside the cBMM M-step (`ComplexBinghamTrainer.find_eigenvalues_v3`, a bounded
    scipy.optimize.least_squares whose result reacts chaotically to 1-ulp changes of ill-conditioned inputs).
    DESIGN.md 2.1: externals are parameters.  A second run that must agree with a recorded run "up to rounding" gets
    the recorded solver VALUES for inputs that agree with the recorded INPUTS (matched within the same M-step, so a
    relabelling of the classes is allowed); an input without a recorded counterpart is a mismatch of the scatter
    eigenvalues themselves and is reported."""

    def __init__(self, tol=1e-7):
        self.calls = []
        self.tol = tol
        self.worst = 0.0

    def _patch(self, fn):
        from pb_bss.distribution.complex_bingham import ComplexBinghamTrainer
        tape = self

        class _Ctx:
            def __enter__(self_):
                self_.orig = ComplexBinghamTrainer.__dict__['find_eigenvalues_v3']
                ComplexBinghamTrainer.find_eigenvalues_v3 = classmethod(fn(self_.orig.__func__))
                return tape

            def __exit__(self_, *a):
                ComplexBinghamTrainer.find_eigenvalues_v3 = self_.orig
        return _Ctx()

    def record(self):
        def make(orig):
            def f(cls, scatter_eigenvalues, **kw):
                out = orig(cls, scatter_eigenvalues, **kw)
                self.calls.append((np.array(scatter_eigenvalues, dtype=np.float64), np.array(out)))
                return out
            return f
        self.calls = []
        return self._patch(make)

    def replay(self, steps):
        per = max(1, len(self.calls) // max(1, int(steps)))
        state = {'n': 0}

        def make(orig):
            def f(cls, scatter_eigenvalues, **kw):
                step = state['n'] // per
                state['n'] += 1
                cands = self.calls[step * per:(step + 1) * per]
                x = np.asarray(scatter_eigenvalues, dtype=np.float64)
                best, dist = None, np.inf
                for inp, out in cands:
                    if inp.shape == x.shape:
                        d = float(np.max(np.abs(inp - x)))
                        if d < dist:
                            best, dist = out, d
                if best is None or not dist <= self.tol:
                    raise TapeMismatch(f'M-step {step}: scatter eigenvalues {x.tolist()} have no counterpart in the '
                                       f'reference run (closest differs by {dist:.3g})')
                self.worst = max(self.worst, dist)
                return np.array(best)
            return f
        return self._patch(make)


def inline_aligner_ties(name, obs, init, iterations, opts, mask=None):
    """Does a score matrix seen by the inline permutation aligner during this fit contain two equal entries?
    ('exact' / 'rounding' (within 1e-12 relative) / None).  The flat arg-max of the greedy assignment breaks such ties
    by class index.  Posteriors clipped by affiliation_eps are bit-identical in many places, so exact ties are common."""
    cfg = (opts or {}).get('inline_permutation_aligner')
    if cfg is None or name not in ('cacgmm', 'cwmm', 'cbmm'):
        return None
    score = pa._ScoreMatrix.from_name(cfg.get('metric', 'cos'))
    eps = float((opts or {}).get('affiliation_eps', 1e-10 if name == 'cacgmm' else 0.0) or 0.0)
    o = dict(opts)
    if mask is not None:
        o['source_activity_mask'] = mask
    worst = None
    for it in range(1, int(iterations)):
        try:
            m = fit(name, obs, None, init, it, o)
            if name == 'cacgmm':
                aff = m._predict(normalize_cacg(obs), source_activity_mask=mask, affiliation_eps=eps)[0]
            elif name == 'cbmm':
                aff = m.predict(obs, affiliation_eps=eps)
            else:
                aff = m.predict(obs)
        except Exception:  # noqa
            return worst
        mk = np.transpose(aff, (1, 0, 2))
        for f in range(1, mk.shape[1]):
            sc = np.sort(np.asarray(score(mk[:, f, :], mk[:, f - 1, :])).ravel())
            gaps = np.diff(sc)
            if gaps.size and np.any(gaps == 0):
                return 'exact'
            if gaps.size and np.any(gaps <= 1e-12 * max(1.0, float(np.max(np.abs(sc))))):
                worst = 'rounding'
    return worst


def integration_search_gap(name, obs, emb, init, iterations, opts):
    """smallest relative gap between the best and the second best candidate permutation that the built-in alignment of an
    integration model (`inline_permutation_alignment=True`) compares during this fit (None if it never runs).  Candidates
    within rounding of each other are decided by rounding and then by enumeration order."""
    from pb_bss.distribution import gcacgmm as _g, vmfcacgmm as _v, mixture_model_utils as _m
    fname = 'log_pdf_to_affiliation_for_integration_models_with_inline_pa'
    orig = getattr(_m, fname)
    gaps = []

    def spy(weight, spatial_log_pdf, spectral_log_pdf, source_activity_mask=None, affiliation_eps=0.):
        F, K, T = spatial_log_pdf.shape
        for f in range(F):
            vals = []
            for p_ in itertools.permutations(range(K)):
                lp = spatial_log_pdf[f, list(p_), :] + spectral_log_pdf[f]
                c = np.exp(lp - lp.max(-2, keepdims=True))
                c /= np.maximum(c.sum(-2, keepdims=True), np.finfo(float).tiny)
                vals.append(float(np.sum(c * lp)))
            v = np.sort(vals)[::-1]
            if len(v) > 1 and np.isfinite(v[0]):
                gaps.append((v[0] - v[1]) / max(1.0, abs(v[0])))
        return orig(weight, spatial_log_pdf, spectral_log_pdf, source_activity_mask, affiliation_eps)

    saved = [(mod, getattr(mod, fname)) for mod in (_g, _v)]
    try:
        for mod, _ in saved:
            setattr(mod, fname, spy)
        try:
            fit(name, obs, emb, init, iterations, opts)
        except Exception:  # noqa
            pass
    finally:
        for mod, f_ in saved:
            setattr(mod, fname, f_)
    return min(gaps) if gaps else None


def rounding_sensitivity(name, obs, emb, init, iterations, opts, mask=None):
    """'up to rounding' for an iterated map: EM can amplify rounding differences transiently by orders of magnitude (a class
    passing through a near-collapse).  Returns max |posterior(run) - posterior(run on data perturbed by 1e-15 relative)|
    (fixed PRNG), i.e. how much rounding itself makes this trajectory differ from itself; None if it cannot be measured."""
    if name == 'cbmm':
        return None
    try:
        prng = np.random.default_rng(12345)
        o3 = None if obs is None else obs * (1 + 1e-15 * prng.standard_normal(obs.shape))
        e3 = None if emb is None else emb * (1 + 1e-15 * prng.standard_normal(emb.shape))
        a = fit(name, obs, emb, init, iterations, opts)
        c = fit(name, o3, e3, init, iterations, opts)
        d = float(np.max(np.abs(predict(name, a, obs, emb, mask=mask) - predict(name, c, o3, e3, mask=mask))))
    except Exception as e:  # noqa
        # the perturbed run is rejected as numerically singular where the original is not: rounding decides everything
        return np.inf if numerical_rejection(e) else None
    return d if np.isfinite(d) else None


def all_perms(K):
    return [list(p) for p in itertools.permutations(range(K))]


# ----------------------------------------------------------------------------- single-distribution entry points (C04)
def normalize_cacg(y):
    return cacg_mod.normalize_observation(y)

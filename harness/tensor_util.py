"""Helpers of the C06 check (leading axes are independent problems): stacks, slices, comparisons and the
tensor line protocol of `driver_tensor` (shape + row-major data)."""
import itertools

import numpy as np

from .lean import fbits, cbits, parse_floats, parse_complex


# ----------------------------------------------------------------------------- stacks of leading axes
def lead_shape(rng, max_total=125, force_singleton=None):
    """1..3 leading axes with sizes 1..5 each (the quantifier of C06); singleton axes are over-represented."""
    n = int(rng.integers(1, 4))
    sizes = [int(rng.integers(1, 6)) for _ in range(n)]
    if force_singleton is None:
        force_singleton = rng.random() < 0.3
    if force_singleton:
        sizes[int(rng.integers(0, n))] = 1
    while int(np.prod(sizes)) > max_total:
        i = int(np.argmax(sizes))
        sizes[i] -= 1
    return tuple(sizes)


def lead_indices(lead):
    return list(np.ndindex(*lead))


def slice_contents(rng, lead, core, complex_=False, spread=True):
    """array of shape lead+core whose slices have different content, scale and offset"""
    shape = tuple(lead) + tuple(core)
    a = rng.normal(size=shape)
    if complex_:
        a = a + 1j * rng.normal(size=shape)
    if spread:
        ones = (1,) * len(core)
        scale = np.exp(rng.normal(size=tuple(lead) + ones) * 0.7)
        a = a * scale
        if not complex_:
            a = a + rng.normal(size=tuple(lead) + ones[:-1] + (core[-1],)) * 2
    return a


def spd(rng, lead, D, complex_=False):
    """stack of well conditioned symmetric / Hermitian positive definite matrices, different per slice"""
    a = rng.normal(size=tuple(lead) + (D, D + 2))
    if complex_:
        a = a + 1j * rng.normal(size=a.shape)
    m = a @ np.swapaxes(a.conj(), -1, -2) / (D + 2)
    m = m + 0.3 * np.eye(D)
    m = m * np.exp(rng.normal(size=tuple(lead) + (1, 1)) * 0.5)
    return (m + np.swapaxes(m.conj(), -1, -2)) / 2


def unitary(rng, lead, D):
    a = rng.normal(size=tuple(lead) + (D, D)) + 1j * rng.normal(size=tuple(lead) + (D, D))
    q, _ = np.linalg.qr(a)
    return q


# ----------------------------------------------------------------------------- comparisons
def rel_err(a, b):
    """max |a-b| relative to the magnitude of the larger operand (0 for two empty arrays)"""
    a = np.asarray(a)
    b = np.asarray(b)
    if a.size == 0:
        return 0.0
    with np.errstate(all='ignore'):
        d = np.abs(a - b)
        same = (a == b) | (np.isnan(a) & np.isnan(b))
        d = np.where(same, 0.0, d)
        scale = max(float(np.max(np.abs(np.where(np.isfinite(a), a, 0)))),
                    float(np.max(np.abs(np.where(np.isfinite(b), b, 0)))), 1e-300)
    m = float(np.max(d))
    if np.isnan(m):
        return float('inf')
    return m / scale


def close(a, b, rtol, atol=0.0):
    a = np.asarray(a)
    b = np.asarray(b)
    if a.shape != b.shape:
        return False, float('inf')
    if a.size == 0:
        return True, 0.0
    with np.errstate(all='ignore'):
        same = (a == b) | (np.isnan(a) & np.isnan(b))
        d = np.where(same, 0.0, np.abs(a - b))
        scale = max(float(np.max(np.abs(np.where(np.isfinite(a), a, 0)))),
                    float(np.max(np.abs(np.where(np.isfinite(b), b, 0)))))
    m = float(np.max(d))
    if np.isnan(m):
        return False, float('inf')
    return m <= atol + rtol * scale, m / max(scale, 1e-300)


def projector(v):
    """rank-one projector of the vectors on the last axis (removes the phase gauge)"""
    v = np.asarray(v)
    return v[..., :, None] * v[..., None, :].conj()


def eig_projectors(vecs, vals, gap=1e-6):
    """projectors of the eigenvectors (columns of `vecs`) whose eigenvalue is separated from every other one by more
    than `gap` relative to the largest |eigenvalue|; returns (list of (column, projector))."""
    vecs = np.asarray(vecs)
    vals = np.asarray(vals)
    D = vals.shape[-1]
    out = []
    scale = max(float(np.max(np.abs(vals))), 1e-300)
    for i in range(D):
        others = np.delete(vals, i, axis=-1)
        if others.size and float(np.min(np.abs(others - vals[..., i:i + 1]))) <= gap * scale:
            continue
        out.append((i, projector(vecs[..., :, i])))
    return out


def reconstruct(vecs, vals):
    """U diag(vals) U^H (gauge-free also for repeated eigenvalues)"""
    return np.einsum('...wx,...x,...zx->...wz', vecs, vals, np.conj(vecs))


# ----------------------------------------------------------------------------- tensor line protocol
def ttok(a, complex_=False):
    """tensor -> 'ndim d0 .. d(ndim-1) data...' (row-major, floats as IEEE-754 bit patterns)"""
    a = np.asarray(a)
    head = f'{a.ndim} ' + ' '.join(str(int(s)) for s in a.shape)
    body = cbits(a) if complex_ else fbits(a)
    return (head + ' ' + body).strip()


def parse_tensor(line, complex_=False):
    """inverse of ttok for one driver output line that holds exactly one tensor"""
    toks = line.split()
    nd = int(toks[0])
    shape = tuple(int(x) for x in toks[1:1 + nd])
    rest = ' '.join(toks[1 + nd:])
    data = parse_complex(rest) if complex_ else parse_floats(rest)
    return data.reshape(shape)


def parse_tensors(line, complex_flags):
    """several tensors separated by ' | ' on one output line"""
    parts = [p.strip() for p in line.split('|')]
    return [parse_tensor(p, c) for p, c in zip(parts, complex_flags)]


def all_axis_layouts(n):
    return list(itertools.permutations(range(n)))

"""Independent loop-level reference transcriptions used by search oracles (plain Python/NumPy,
written from the documented procedure, not by calling the library routine under test)."""
import itertools

import numpy as np


def is_perm_columns(mapping, K):
    """mapping (K, *F): every column is a permutation of 0..K-1"""
    m = np.asarray(mapping)
    if m.shape[0] != K:
        return False
    flat = m.reshape(K, -1)
    return bool(np.all(np.sort(flat, axis=0) == np.arange(K)[:, None]))


def vec_norm(a):
    n = np.sqrt(np.sum(a * a, axis=-1, keepdims=True))
    return a / np.maximum(n, np.finfo(np.float64).tiny)


def score_matrix(metric, mask, ref):
    """mask, ref: (K, T) -> (K, K) with [k, k'] = similarity(ref[k], mask[k'])"""
    if metric == 'cos':
        mask, ref = vec_norm(mask), vec_norm(ref)
    if metric in ('cos', 'multiply'):
        return np.array([[np.sum(mask[kk] * ref[k]) for kk in range(len(mask))] for k in range(len(ref))])
    return np.array([[-np.sqrt(np.sum(np.abs(mask[kk] - ref[k]) ** 2)) for kk in range(len(mask))]
                     for k in range(len(ref))])


def assign_with_margin(s, algorithm):
    """per-bin assignment + decision margin (gap between the winner and the runner-up of every arg-max)"""
    s = np.array(s, dtype=np.float64)
    K = s.shape[0]
    margin = np.inf
    scale = max(1.0, float(np.max(np.abs(s)))) if s.size else 1.0
    if algorithm == 'greedy':
        s = s.copy()
        rp = np.zeros(K, dtype=int)
        for _ in range(K):
            flat = s.ravel()
            idx = int(np.argmax(flat))
            rest = np.delete(flat, idx)
            rest = rest[np.isfinite(rest)]
            if rest.size:
                margin = min(margin, (flat[idx] - rest.max()) / scale)
            i, j = divmod(idx, K)
            s[i, :] = -np.inf
            s[:, j] = -np.inf
            rp[i] = j
        return rp, margin
    best, bestp, second = -np.inf, None, -np.inf
    for p in itertools.permutations(range(K)):
        sc = sum(s[range(K), p])
        if sc > best:
            second = best
            best, bestp = sc, p
        elif sc > second:
            second = sc
    if np.isfinite(second):
        margin = (best - second) / (scale * max(K, 1))
    return np.array(bestp, dtype=int), margin


def ref_plan(F, start, width, shift, main_it=20, sub_it=2):
    """alignment plan from the documented construction: first segment, then alternately one step up and one step
    down in hops of `shift`; the outermost segments are stretched to F and 0."""
    if start + width > F:
        raise ValueError
    ups = [[sub_it, s, s + width] for s in range(start + shift, F - width, shift)]
    downs = [[sub_it, s, s + width] for s in range(start - shift, 0, -shift)]
    first = [main_it, start, start + width]
    if ups:
        ups[-1][2] = F
    else:
        first[2] = F
    if downs:
        downs[-1][1] = 0
    else:
        first[1] = 0
    out = [first]
    for i in range(max(len(ups), len(downs))):
        if i < len(ups):
            out.append(ups[i])
        if i < len(downs):
            out.append(downs[i])
    return out


def ref_dhtv(mask, plan, metric, algorithm):
    """loop-level transcription of the DHTV procedure. Returns mapping, final features, min decision margin."""
    K, F, T = mask.shape
    feats = vec_norm(mask) if metric == 'cos' else np.array(mask, dtype=np.float64)
    m2 = 'multiply' if metric == 'cos' else metric
    mapping = np.repeat(np.arange(K)[:, None], F, axis=1)
    margin = np.inf
    for iters, lo, hi in plan:
        for _ in range(iters):
            cent = np.mean(feats[:, lo:hi, :], axis=1)
            if metric == 'cos':
                cent = vec_norm(cent)
            changed = False
            for f in range(lo, min(hi, F)):
                rp, mg = assign_with_margin(score_matrix(m2, feats[:, f, :], cent), algorithm)
                margin = min(margin, mg)
                if not np.array_equal(rp, np.arange(K)):
                    changed = True
                    feats[:, f, :] = feats[rp, f, :]
                    mapping[:, f] = mapping[rp, f]
            if not changed:
                break
    return mapping, feats, margin


def ref_greedy_aligner(mask, metric):
    K, F, T = mask.shape
    mapping = np.zeros((K, F), dtype=int)
    mapping[:, 0] = np.arange(K)
    margin = np.inf
    for f in range(1, F):
        rp, mg = assign_with_margin(score_matrix(metric, mask[:, f, :], mask[:, f - 1, :]), 'greedy')
        margin = min(margin, mg)
        mapping[:, f] = rp[mapping[:, f - 1]]
    return mapping, margin


def ref_oracle_aligner(mask, ref, metric, algorithm):
    K, F, T = mask.shape
    mapping = np.zeros((K, F), dtype=int)
    margin = np.inf
    for f in range(F):
        rp, mg = assign_with_margin(score_matrix(metric, mask[:, f, :], ref[:, f, :]), algorithm)
        mapping[:, f] = rp
        margin = min(margin, mg)
    return mapping, margin

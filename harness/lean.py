"""Lean side of a check: build, axiom audit, forbidden-token grep, driver process."""
import fcntl
import hashlib
import json
import os
import re
import subprocess
import time

import numpy as np

from .core import VERIF, OUT

LEAN = os.path.join(VERIF, 'lean')
BIN = os.path.join(LEAN, '.lake', 'build', 'bin')
ALLOWED_AXIOMS = {'propext', 'Classical.choice', 'Quot.sound'}
FORBIDDEN = re.compile(r'\b(sorry|admit|native_decide|bv_decide|implemented_by|unsafe)\b|^axiom\s|maxHeartbeats\s+0\b', re.M)


class Lock:
    def __enter__(self):
        os.makedirs(OUT, exist_ok=True)
        self.f = open(os.path.join(OUT, 'lake.lock'), 'w')
        fcntl.flock(self.f, fcntl.LOCK_EX)
        return self

    def __exit__(self, *a):
        fcntl.flock(self.f, fcntl.LOCK_UN)
        self.f.close()


def _strip_comments(src):
    src = re.sub(r'/-.*?-/', '', src, flags=re.S)
    src = re.sub(r'--.*', '', src)
    return src


def _sources_hash():
    h = hashlib.sha1()
    for root, dirs, files in os.walk(LEAN):
        dirs[:] = sorted(d for d in dirs if d not in ('.lake', 'Audit'))
        for fn in sorted(files):
            if fn.endswith(('.lean', '.toml')):
                p = os.path.join(root, fn)
                h.update(p.encode())
                h.update(open(p, 'rb').read())
    return h.hexdigest()


def lake_build(targets, timeout=3000):
    with Lock():
        r = subprocess.run(['lake', 'build'] + targets, cwd=LEAN, capture_output=True, text=True, timeout=timeout)
    return r.returncode == 0, (r.stdout + r.stderr)[-4000:]


def _imports_closure(module, seen=None):
    """PbBss.* modules transitively imported by `module` (for the forbidden-token grep)."""
    seen = seen if seen is not None else set()
    if module in seen:
        return seen
    seen.add(module)
    path = os.path.join(LEAN, *module.split('.')) + '.lean'
    if not os.path.exists(path):
        return seen
    for m in re.findall(r'^import\s+(PbBss\.\S+|Driver\.\S+)', open(path).read(), flags=re.M):
        _imports_closure(m, seen)
    return seen


def audit(prop, theorems, tier='quick', extra_modules=(), drivers=('driver',)):
    """Build Props/<prop>, check that every theorem in `theorems` exists with allowed axioms.

    Returns dict(ok, obligations, discharged, theorems, problems, checker_cmd)."""
    t0 = time.time()
    module = f'PbBss.Props.{prop}'
    res = {'ok': False, 'obligations': len(theorems), 'discharged': 0, 'theorems': {}, 'problems': [],
           'checker_cmd': f'cd lean && lake build {module} && lake env lean Audit/{prop}.lean  (#print axioms of each theorem)'}
    ok, log = lake_build([module] + list(extra_modules) + list(drivers))
    if not ok:
        res['problems'].append({'build': log[-1500:]})
        return res
    # forbidden tokens
    for m in sorted(_imports_closure(module)):
        path = os.path.join(LEAN, *m.split('.')) + '.lean'
        if os.path.exists(path):
            hit = FORBIDDEN.search(_strip_comments(open(path).read()))
            if hit:
                res['problems'].append({'forbidden-token': hit.group(0).strip(), 'file': path})
    cache_p = os.path.join(OUT, f'audit_{prop}.json')
    key = _sources_hash() + '|' + ','.join(theorems)
    axioms = None
    if tier == 'quick' and os.path.exists(cache_p):
        try:
            c = json.load(open(cache_p))
            if c['key'] == key:
                axioms = c['axioms']
                res['checker_cmd'] += '  [axiom listing cached: Lean sources unchanged since last audit]'
        except Exception:
            pass
    if axioms is None:
        os.makedirs(os.path.join(LEAN, 'Audit'), exist_ok=True)
        ap = os.path.join(LEAN, 'Audit', f'{prop}.lean')
        with open(ap, 'w') as f:
            f.write(f'import {module}\n' + ''.join(f'#print axioms {t}\n' for t in theorems))
        r = subprocess.run(['lake', 'env', 'lean', ap], cwd=LEAN, capture_output=True, text=True, timeout=1800)
        out = r.stdout + r.stderr
        axioms = {}
        for t in theorems:
            m = re.search(r"'" + re.escape(t) + r"' depends on axioms: \[([^\]]*)\]", out, flags=re.S)
            if m:
                axioms[t] = [a.strip() for a in m.group(1).replace('\n', ' ').split(',') if a.strip()]
            elif re.search(r"'" + re.escape(t) + r"' does not depend on any axioms", out):
                axioms[t] = []
            else:
                axioms[t] = None
        if r.returncode == 0 or all(v is not None for v in axioms.values()):
            os.makedirs(OUT, exist_ok=True)
            json.dump({'key': key, 'axioms': axioms}, open(cache_p, 'w'))
        else:
            res['problems'].append({'audit-output': out[-1500:]})
    for t in theorems:
        ax = axioms.get(t)
        if ax is None:
            res['problems'].append({'missing-theorem': t})
            res['theorems'][t] = 'MISSING'
        elif not set(ax) <= ALLOWED_AXIOMS:
            res['problems'].append({'axioms': ax, 'theorem': t})
            res['theorems'][t] = ax
        else:
            res['theorems'][t] = ax
            res['discharged'] += 1
    if tier == 'thorough':
        mods = sorted(m for m in _imports_closure(module) if m.startswith('PbBss.'))
        r = subprocess.run(['lake', 'env', 'leanchecker'] + mods, cwd=LEAN, capture_output=True, text=True, timeout=3000)
        res['leanchecker'] = {'modules': mods, 'rc': r.returncode, 'tail': (r.stdout + r.stderr)[-300:]}
        if r.returncode != 0:
            res['problems'].append({'leanchecker': (r.stdout + r.stderr)[-800:]})
    res['ok'] = not res['problems'] and res['discharged'] == res['obligations']
    res['audit_s'] = round(time.time() - t0, 1)
    return res


# ----------------------------------------------------------------------------- driver (line protocol)
def fbits(a):
    """float64 array -> space separated uint64 decimal strings."""
    a = np.ascontiguousarray(np.asarray(a, dtype=np.float64)).ravel()
    return ' '.join(map(str, a.view(np.uint64).tolist()))


def cbits(a):
    """complex128 array -> re im re im ... as uint64 decimal strings."""
    a = np.ascontiguousarray(np.asarray(a, dtype=np.complex128)).ravel()
    return ' '.join(map(str, a.view(np.uint64).tolist()))


def ints(a):
    return ' '.join(str(int(x)) for x in np.asarray(a).ravel())


def parse_floats(line):
    if line.strip() == '':
        return np.zeros(0)
    return np.array([int(x) for x in line.split()], dtype=np.uint64).view(np.float64)


def parse_complex(line):
    return parse_floats(line).view(np.complex128)


def parse_ints(line):
    return np.array([int(x) for x in line.split()], dtype=np.int64)


def run_driver(lines, exe='driver', timeout=600):
    """Send operation lines to the Lean model driver `exe`; returns one output line per input line."""
    if not lines:
        return []
    r = subprocess.run([os.path.join(BIN, exe)], input='\n'.join(lines) + '\n', capture_output=True, text=True, timeout=timeout)
    out = r.stdout.split('\n')
    if out and out[-1] == '':
        out.pop()
    if r.returncode != 0 or len(out) != len(lines):
        raise RuntimeError(f'driver failed rc={r.returncode} lines_in={len(lines)} lines_out={len(out)} '
                           f'stderr={r.stderr[-500:]}')
    return out

"""Seeded structured generators shared by the property modules (one PRNG per run: ctx.rng)."""
import numpy as np


def odd(rng, lo, hi):
    f = int(rng.integers(lo, hi + 1))
    return f if f % 2 == 1 else (f + 1 if f + 1 <= hi else f - 1)


def real_mask(rng, K, F, T, kind=None):
    """(K, F, T) real mask; kinds include the degenerate ones the quantifier of C14 names."""
    kind = kind or rng.choice(['uniform', 'uniform', 'normalised', 'integer', 'tied', 'zero-row', 'constant', 'dyadic'])
    if kind == 'uniform':
        m = rng.random((K, F, T))
    elif kind == 'normalised':
        m = rng.random((K, F, T)) + 1e-3
        m /= m.sum(0, keepdims=True)
    elif kind == 'integer':
        m = rng.integers(0, 4, size=(K, F, T)).astype(np.float64)
    elif kind == 'dyadic':
        m = rng.integers(0, 9, size=(K, F, T)).astype(np.float64) / 8
    elif kind == 'tied':
        m = rng.random((K, F, T))
        if K > 1:
            m[1] = m[0]
    elif kind == 'zero-row':
        m = rng.random((K, F, T))
        m[rng.integers(K), rng.integers(F)] = 0
    elif kind == 'constant':
        m = np.full((K, F, T), float(rng.integers(0, 3)))
    else:
        raise ValueError(kind)
    return m, str(kind)


def dhtv_cfg(rng, F):
    """random valid DHTV segment configuration for F bins (start + width <= F, shift >= 1)"""
    width = int(rng.integers(1, F + 1))
    start = int(rng.integers(0, F - width + 1))
    shift = int(rng.integers(1, max(2, width + 3)))
    return dict(stft_size=2 * (F - 1), segment_start=start, segment_width=width, segment_shift=shift,
                main_iterations=int(rng.integers(1, 6)), sub_iterations=int(rng.integers(1, 4)))


def random_perm_field(rng, K, F):
    return np.stack([rng.permutation(K) for _ in range(F)], axis=1)


def hpd(rng, D, cond=10.0, complex_=True):
    """Hermitian positive definite matrix with prescribed condition number"""
    if complex_:
        a = rng.normal(size=(D, D)) + 1j * rng.normal(size=(D, D))
    else:
        a = rng.normal(size=(D, D))
    q, _ = np.linalg.qr(a)
    ev = np.exp(np.linspace(0, np.log(cond), D)) if D > 1 else np.ones(1)
    ev = ev * np.exp(rng.normal() * 0.5)
    m = (q * ev) @ q.conj().T
    return (m + m.conj().T) / 2


def cnormal(rng, shape):
    return rng.normal(size=shape) + 1j * rng.normal(size=shape)


# ----------------------------------------------------------------------------- memory layouts of caller arrays
MEMORY_KINDS = ('c', 'f', 'lead-permuted', 'last2-transposed', 'strided', 'readonly', 'reversed')


def relayout(a, how):
    """the same VALUES as `a` in another memory layout (what a caller may legitimately pass: a transposed view, a slice of
    a larger buffer, a Fortran-ordered or read-only array).  Deterministic, so a replay file only has to name `how`."""
    a = np.asarray(a)
    if how in (None, 'c') or a.ndim == 0:
        return np.ascontiguousarray(a)
    if how == 'f':
        return np.asfortranarray(a)
    if how == 'lead-permuted':
        if a.ndim < 2:
            return np.ascontiguousarray(a)
        # stored with the first two axes exchanged, presented in the original axis order (a transposed view)
        return np.swapaxes(np.ascontiguousarray(np.swapaxes(a, 0, 1)), 0, 1)
    if how == 'last2-transposed':
        if a.ndim < 2:
            return np.ascontiguousarray(a)
        # every trailing matrix stored column-major (e.g. what `x.conj().swapaxes(-1, -2)` hands on): Fortran-contiguous
        # per-matrix slices, which LAPACK wrappers use without a copy
        return np.swapaxes(np.ascontiguousarray(np.swapaxes(a, -1, -2)), -1, -2)
    if how == 'strided':
        big = np.zeros(a.shape[:-1] + (2 * a.shape[-1] + 1,), dtype=a.dtype)
        big[..., 1::2] = a
        return big[..., 1::2]
    if how == 'reversed':
        b = np.ascontiguousarray(a[..., ::-1])
        return b[..., ::-1]
    if how == 'readonly':
        b = np.ascontiguousarray(a).copy()
        b.setflags(write=False)
        return b
    raise ValueError(how)

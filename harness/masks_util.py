"""Helpers shared by the C18 (oracle masks) and C19 (SI-SDR / SXR) property modules.

Everything here is plain loop-level Python/NumPy written from the documented procedures (no call into
pb_bss), so that the search oracles are independent of the code under test."""
import itertools
import math

import numpy as np


# ----------------------------------------------------------------------------- axes
def norm_axis(ax, ndim):
    return None if ax is None else (ax + ndim if ax < 0 else ax)


def axis_spelling(rng, ax, ndim):
    """randomly spell a non-negative axis as negative"""
    if ax is None:
        return None
    return int(ax - ndim) if rng.random() < 0.5 else int(ax)


def fibers(x, axes):
    """yield (idx, sub): idx = full index tuple with 0 at `axes`; sub = x restricted to that fibre, its axes
    are `axes` in increasing position order"""
    axes = sorted(axes)
    shp = [1 if a in axes else n for a, n in enumerate(x.shape)]
    for idx in np.ndindex(*shp):
        sl = tuple(slice(None) if a in axes else i for a, i in enumerate(idx))
        yield idx, x[sl]


def put(idx, repl):
    """index tuple with positions replaced according to dict repl"""
    return tuple(repl.get(a, i) for a, i in enumerate(idx))


def drop(idx, ax):
    return tuple(i for a, i in enumerate(idx) if a != ax)


# ----------------------------------------------------------------------------- generators
KINDS = ['normal', 'normal', 'gauss-int', 'silent', 'dup-source', 'tiny-int', 'zero']


def gen_tensor(rng, shape, kind, source_axis=None):
    """complex tensor of the given shape; kinds produce the ties / silent points the quantifier names"""
    shape = tuple(int(s) for s in shape)
    if kind == 'normal':
        x = rng.normal(size=shape) + 1j * rng.normal(size=shape)
    elif kind == 'gauss-int':      # exact ties of the power (|a+ib|^2 small integers), exact arithmetic
        x = rng.integers(-2, 3, size=shape) + 1j * rng.integers(-2, 3, size=shape)
    elif kind == 'tiny-int':       # many exact zeros and ties
        x = rng.integers(0, 2, size=shape) + 1j * rng.integers(0, 2, size=shape)
    elif kind == 'silent':         # silent time-frequency points: every source zero at some points
        x = rng.normal(size=shape) + 1j * rng.normal(size=shape)
        if source_axis is not None:
            shp = list(shape)
            shp[source_axis] = 1
            x = x * (rng.random(shp) > 0.35)
        else:
            x = x * (rng.random(shape) > 0.35)
    elif kind == 'dup-source':     # two sources identical -> tied powers
        x = rng.normal(size=shape) + 1j * rng.normal(size=shape)
        if source_axis is not None and shape[source_axis] > 1:
            sl_a = [slice(None)] * len(shape)
            sl_b = [slice(None)] * len(shape)
            a, b = rng.choice(shape[source_axis], size=2, replace=False)
            sl_a[source_axis], sl_b[source_axis] = int(a), int(b)
            x[tuple(sl_b)] = x[tuple(sl_a)]
    elif kind == 'zero':
        x = np.zeros(shape)
    else:
        raise ValueError(kind)
    return np.ascontiguousarray(x, dtype=np.complex128)


def gen_shape(rng, ndim=None, big_last=False, same=0.4):
    """1..4 axes, sizes 1..6; with probability `same` all sizes equal (so that a reduction over the wrong axis
    of equal length is visible); big_last: the last two axes (F, T) may be larger"""
    ndim = int(rng.integers(1, 5)) if ndim is None else ndim
    if rng.random() < same:
        shape = [int(rng.integers(2, 5))] * ndim
    else:
        shape = [int(rng.integers(1, 7)) for _ in range(ndim)]
    if big_last and rng.random() < 0.5:
        for a in range(max(0, ndim - 2), ndim):
            shape[a] = int(rng.integers(3, 17))
    return shape


def exact_kind(kind):
    return kind in ('gauss-int', 'tiny-int', 'zero')


# ----------------------------------------------------------------------------- reference thresholds
def ref_percentile(row, frac):
    """np.percentile(row, 100*frac) with the default 'linear' method, from its documentation:
    virtual index (n-1)*frac into the ascending order, linear interpolation between the neighbours.
    Returns (threshold, lo, hi, gamma)."""
    a = sorted(float(v) for v in row)
    n = len(a)
    vi = (n - 1) * frac
    lo = int(math.floor(vi))
    lo = min(max(lo, 0), n - 1)
    hi = min(lo + 1, n - 1)
    g = vi - lo
    if g >= 0.5:
        thr = a[hi] - (a[hi] - a[lo]) * (1 - g)
    else:
        thr = a[lo] + (a[hi] - a[lo]) * g
    return thr, a[lo], a[hi], g


def ref_lorenz(row, fraction):
    """Lorenz threshold of one row of powers: sort descending, cumulative share of the total; the threshold is
    the weakest among the points whose cumulative share stays below `fraction`.
    Returns (threshold or None, margin) where margin = min |share - fraction| (decision margin)."""
    d = sorted((float(v) for v in row), reverse=True)
    tot = math.fsum(d)
    if not tot > 0:
        return None, 0.0
    acc, thr, margin = 0.0, None, math.inf
    run = []
    for v in d:
        run.append(v)
        share = math.fsum(run) / tot
        margin = min(margin, abs(share - fraction))
        if share < fraction:
            thr = v if thr is None else min(thr, v)
    return thr, margin


# ----------------------------------------------------------------------------- C19 helpers
def db(x):
    return 10 * math.log10(x) if x > 0 else (-math.inf if x == 0 else math.nan)


def mean_power(v):
    v = np.asarray(v)
    return math.fsum((abs(complex(t)) ** 2 for t in v.ravel())) / v.size


def injective_selections(k_target, k_source):
    return list(itertools.permutations(range(k_target), k_source))


def close_db(a, b, tol):
    a, b = np.asarray(a, dtype=float), np.asarray(b, dtype=float)
    if a.shape != b.shape:
        return False
    both_inf = np.isinf(a) & np.isinf(b) & (np.sign(a) == np.sign(b))
    return bool(np.all(both_inf | (np.abs(a - b) <= tol * (1 + np.abs(b)))))

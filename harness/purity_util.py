"""C20 helpers: registry of public entry points of pb_bss with generators of valid arguments, read-only /
byte-comparison machinery, bit-wise result comparison, trainer and split-fit drivers.

An *entry* is  name -> (variants, gen(rng, variant) -> args, call(args) -> result, exempt argument names).
`args` is a JSON-encodable dict (numpy arrays, numbers, strings, tuples, dicts, None); `call` builds the objects
(models, trainers, aligners) from it and invokes the real function.  Keys starting with '_' are meta data
(`_seed`: NumPy seed set before every call).
"""
import dataclasses
import inspect
import itertools

import numpy as np

from . import gen as G

# ----------------------------------------------------------------------------- structure walking
def clone(x, readonly=False):
    """deep copy of an argument structure; every ndarray is a fresh buffer in the SAME memory layout (order='K': a Fortran-ordered or
    transposed argument stays one, DESIGN.md 8.5), optionally read-only"""
    if isinstance(x, np.ndarray):
        a = np.array(x, copy=True, order='K')
        if readonly:
            a.setflags(write=False)
        return a
    if isinstance(x, dict):
        return {k: clone(v, readonly) for k, v in x.items()}
    if isinstance(x, tuple):
        return tuple(clone(v, readonly) for v in x)
    if isinstance(x, list):
        return [clone(v, readonly) for v in x]
    return x


def arrays(x, path=''):
    if isinstance(x, np.ndarray):
        yield path, x
    elif isinstance(x, dict):
        for k, v in x.items():
            yield from arrays(v, f'{path}.{k}' if path else str(k))
    elif isinstance(x, (tuple, list)):
        for i, v in enumerate(x):
            yield from arrays(v, f'{path}[{i}]')


def snapshot(x):
    return {p: (a.dtype.str, a.shape, a.tobytes()) for p, a in arrays(x)}


def changed(before, x):
    """paths of arrays whose dtype/shape/bytes differ from the snapshot"""
    out = []
    for p, a in arrays(x):
        if before[p] != (a.dtype.str, a.shape, a.tobytes()):
            out.append(p)
    return out


def flatten(obj, path='', out=None, depth=0):
    """canonical flat description of a result for BIT-WISE comparison"""
    out = [] if out is None else out
    if depth > 8:
        out.append((path, 'deep'))
    elif isinstance(obj, np.ndarray):
        if obj.dtype == object:
            for i, v in enumerate(obj.ravel().tolist()):
                flatten(v, f'{path}[{i}]', out, depth + 1)
        else:
            out.append((path, obj.dtype.str, obj.shape, np.ascontiguousarray(obj).tobytes()))
    elif isinstance(obj, (np.generic,)):
        out.append((path, obj.dtype.str, (), obj.tobytes()))
    elif isinstance(obj, (bool, int, str, type(None))):
        out.append((path, repr(obj)))
    elif isinstance(obj, float):
        out.append((path, 'f', np.float64(obj).tobytes()))
    elif isinstance(obj, complex):
        out.append((path, 'c', np.complex128(obj).tobytes()))
    elif isinstance(obj, dict):
        for k in sorted(obj, key=str):
            flatten(obj[k], f'{path}.{k}', out, depth + 1)
    elif isinstance(obj, (tuple, list)):
        out.append((path, type(obj).__name__, len(obj)))
        for i, v in enumerate(obj):
            flatten(v, f'{path}[{i}]', out, depth + 1)
    elif dataclasses.is_dataclass(obj) and not isinstance(obj, type):
        out.append((path, type(obj).__name__))
        for k in sorted(vars(obj)):
            flatten(vars(obj)[k], f'{path}.{k}', out, depth + 1)
    elif inspect.isgenerator(obj):
        flatten(list(obj), path, out, depth + 1)
    elif callable(obj) and hasattr(obj, '__name__'):
        out.append((path, 'callable', getattr(obj, '__qualname__', obj.__name__)))
    elif hasattr(obj, '__dict__'):
        out.append((path, type(obj).__name__))
        for k in sorted(vars(obj)):
            if not k.startswith('__'):
                flatten(vars(obj)[k], f'{path}.{k}', out, depth + 1)
    else:
        out.append((path, type(obj).__name__))
    return out


def first_difference(a, b):
    fa, fb = flatten(a), flatten(b)
    if fa == fb:
        return None
    for x, y in itertools.zip_longest(fa, fb):
        if x != y:
            px = x[0] if x else '<missing>'
            return f'at result{px}: {_short(x)} vs {_short(y)}'
    return 'different'


def _short(t):
    if t is None:
        return 'missing'
    if len(t) == 4 and isinstance(t[3], bytes):
        a = np.frombuffer(t[3], dtype=np.dtype(t[1]))
        return f'{t[1]}{t[2]} ' + np.array2string(a[:4], precision=17).replace('\n', ' ')
    return repr(t[1:])[:80]


# ----------------------------------------------------------------------------- registry
class Entry:
    def __init__(self, name, variants, gen, call, exempt, anchored):
        self.name, self.variants, self.gen, self.call = name, tuple(variants), gen, call
        self.exempt, self.anchored = exempt, anchored


REG = {}


def add(name, gen, call, variants=('default',), exempt=None, anchored=True):
    """exempt: None or function(args) -> set of top-level argument names the call may modify"""
    assert name not in REG, name
    REG[name] = Entry(name, variants, gen, call, exempt, anchored)


def make_args(name, rng, variant):
    e = REG[name]
    a = e.gen(rng, variant)
    a['_variant'] = variant
    a.setdefault('_seed', int(rng.integers(0, 2 ** 31 - 1)))
    return a


def invoke(name, args, readonly=False):
    """clone the arguments (fresh buffers), seed NumPy, call. Returns (result, exception, cloned args)"""
    e = REG[name]
    a = clone(args, readonly=readonly)
    np.random.seed(int(args.get('_seed', 0)) % (2 ** 32))
    try:
        return e.call(a), None, a
    except Exception as ex:  # noqa
        return None, ex, a


def same_exception(e1, e2):
    return type(e1) is type(e2)


# ----------------------------------------------------------------------------- generators
def cn(rng, *shape):
    return rng.normal(size=shape) + 1j * rng.normal(size=shape)


def rn(rng, *shape):
    return rng.normal(size=shape)


def simplex(rng, *shape):
    """random affiliations, normalised over axis -2"""
    a = rng.random(shape) + 1e-2
    return a / a.sum(-2, keepdims=True)


def hpd(rng, lead, D, cond=10.0):
    out = np.empty(tuple(lead) + (D, D), dtype=np.complex128)
    for i in np.ndindex(*lead):
        out[i] = G.hpd(rng, D, cond=cond)
    return out


def sizes(rng, Dmin=2, Dmax=4, Kmax=3, lead_choices=((), (2,), (1,), (2, 1))):
    lead = lead_choices[int(rng.integers(len(lead_choices)))]
    D = int(rng.integers(Dmin, Dmax + 1))
    K = int(rng.integers(2, Kmax + 1))
    T = int(rng.integers(D + 3, D + 9))
    return tuple(lead), T, D, K


def pick(rng, xs):
    return xs[int(rng.integers(len(xs)))]


def aligner_spec(rng, F):
    kind = pick(rng, ['greedy', 'dhtv'])
    spec = {'kind': kind, 'metric': pick(rng, ['cos', 'multiply', 'euclidean'])}
    if kind == 'dhtv':
        spec['cfg'] = G.dhtv_cfg(rng, F)
    return spec


def build_aligner(spec):
    from pb_bss import permutation_alignment as pa
    if spec is None:
        return None
    if spec['kind'] == 'greedy':
        return pa.GreedyPermutationAlignment(spec['metric'], 'greedy')
    if spec['kind'] == 'oracle':
        return pa.OraclePermutationAlignment(spec['metric'], spec.get('algorithm', 'optimal'))
    return pa.DHTVPermutationAlignment(**spec['cfg'], similarity_metric=spec['metric'],
                                       algorithm=spec.get('algorithm', 'greedy'))


def kw(a, *names):
    return {n: a[n] for n in names if n in a}


# ============================================================================= entries: complex angular central Gaussian
def _imp():
    import pb_bss.distribution as d
    return d


def _cacg_params(rng, lead, D):
    from pb_bss.distribution import ComplexAngularCentralGaussian
    m = ComplexAngularCentralGaussian.from_covariance(hpd(rng, lead, D), eigenvalue_floor=1e-10)
    return {'covariance_eigenvectors': m.covariance_eigenvectors, 'covariance_eigenvalues': m.covariance_eigenvalues}


def _cacg(p):
    from pb_bss.distribution import ComplexAngularCentralGaussian
    return ComplexAngularCentralGaussian(**p)


def _unit(y):
    return y / np.linalg.norm(y, axis=-1, keepdims=True)


def _g_obs(rng, v):
    lead, T, D, K = sizes(rng)
    y = cn(rng, *lead, T, D)
    if v == 'zero-frame':
        y[..., 0, :] = 0
    if v == 'real':
        y = y.real.copy()
    return {'observation': y}


import pb_bss.distribution.complex_angular_central_gaussian as _m_cacg  # noqa: E402
import pb_bss.distribution.complex_watson as _m_cw  # noqa: E402
import pb_bss.distribution.complex_bingham as _m_cb  # noqa: E402
import pb_bss.distribution.cacgmm as _m_cacgmm  # noqa: E402
import pb_bss.distribution.cwmm as _m_cwmm  # noqa: E402
import pb_bss.distribution.cbmm as _m_cbmm  # noqa: E402

add('complex_angular_central_gaussian.normalize_observation', _g_obs,
    lambda a: _m_cacg.normalize_observation(a['observation']), variants=('default', 'zero-frame'))


def _g_size_cov(rng, v):
    D = int(rng.integers(2, 5))
    return {'size': (int(rng.integers(1, 6)),), 'covariance': hpd(rng, (), D)}


add('complex_angular_central_gaussian.sample_complex_angular_central_gaussian', _g_size_cov,
    lambda a: _m_cacg.sample_complex_angular_central_gaussian(a['size'], a['covariance']))


def _g_from_cov(rng, v):
    lead, T, D, K = sizes(rng)
    norm = {'trace': 'trace', 'eigenvalue': 'eigenvalue', 'none': False, 'trace-floor0': 'trace'}[v]
    return {'covariance': hpd(rng, lead, D), 'eigenvalue_floor': 0. if v == 'trace-floor0' else pick(rng, [0., 1e-10, 1e-3]),
            'covariance_norm': norm}


add('complex_angular_central_gaussian.ComplexAngularCentralGaussian.from_covariance', _g_from_cov,
    lambda a: _m_cacg.ComplexAngularCentralGaussian.from_covariance(
        a['covariance'], eigenvalue_floor=a['eigenvalue_floor'], covariance_norm=a['covariance_norm']),
    variants=('trace', 'eigenvalue', 'none', 'trace-floor0'))


def _g_cacg_model(rng, v):
    lead, T, D, K = sizes(rng)
    if v == 'sample':
        return {'model': _cacg_params(rng, (), D), 'size': (int(rng.integers(1, 5)),)}
    a = {'model': _cacg_params(rng, lead, D)}
    if v == 'log_pdf':
        a['y'] = cn(rng, *lead, T, D)
    if v == '_log_pdf':
        a['y'] = np.ascontiguousarray(np.swapaxes(_unit(cn(rng, *lead, T, D)), -1, -2))
    return a


add('complex_angular_central_gaussian.ComplexAngularCentralGaussian.sample', _g_cacg_model,
    lambda a: _cacg(a['model']).sample(a['size']), variants=('sample',))
add('complex_angular_central_gaussian.ComplexAngularCentralGaussian.covariance', _g_cacg_model,
    lambda a: _cacg(a['model']).covariance)
add('complex_angular_central_gaussian.ComplexAngularCentralGaussian.log_determinant', _g_cacg_model,
    lambda a: _cacg(a['model']).log_determinant)
add('complex_angular_central_gaussian.ComplexAngularCentralGaussian.log_pdf', _g_cacg_model,
    lambda a: _cacg(a['model']).log_pdf(a['y']), variants=('log_pdf',))
add('complex_angular_central_gaussian.ComplexAngularCentralGaussian._log_pdf', _g_cacg_model,
    lambda a: _cacg(a['model'])._log_pdf(a['y']), variants=('_log_pdf',))


def _g_cacg_fit(rng, v):
    lead, T, D, K = sizes(rng)
    return {'y': cn(rng, *lead, T, D), 'hermitize': bool(rng.integers(2)),
            'covariance_norm': pick(rng, ['eigenvalue', 'trace', False]),
            'eigenvalue_floor': pick(rng, [1e-10, 1e-3]), 'iterations': int(rng.integers(1, 4))}


add('complex_angular_central_gaussian.ComplexAngularCentralGaussianTrainer.fit', _g_cacg_fit,
    lambda a: _m_cacg.ComplexAngularCentralGaussianTrainer().fit(
        a['y'], **kw(a, 'hermitize', 'covariance_norm', 'eigenvalue_floor', 'iterations')))


def _g_cacg__fit(rng, v):
    lead, T, D, K = sizes(rng)
    y = np.ascontiguousarray(np.swapaxes(_unit(cn(rng, *lead, 1, T, D)), -1, -2))
    a = {'y': y, 'quadratic_form': rng.random((*lead, K, T)) + 0.1, 'hermitize': bool(rng.integers(2)),
         'covariance_norm': pick(rng, ['eigenvalue', 'trace', False]), 'eigenvalue_floor': 1e-10}
    a['saliency'] = None if v == 'no-saliency' else simplex(rng, *lead, K, T)
    if v == 'no-saliency':
        a['y'] = np.ascontiguousarray(y[..., 0, :, :])
        a['quadratic_form'] = rng.random((*lead, T)) + 0.1
    return a


add('complex_angular_central_gaussian.ComplexAngularCentralGaussianTrainer._fit', _g_cacg__fit,
    lambda a: _m_cacg.ComplexAngularCentralGaussianTrainer()._fit(
        a['y'], a['saliency'], a['quadratic_form'], **kw(a, 'hermitize', 'covariance_norm', 'eigenvalue_floor')),
    variants=('saliency', 'no-saliency'))


# ============================================================================= entries: cACGMM
def cacgmm_to_args(m):
    return {'weight': np.asarray(m.weight), 'covariance_eigenvectors': m.cacg.covariance_eigenvectors,
            'covariance_eigenvalues': m.cacg.covariance_eigenvalues}


def cacgmm_from_args(p):
    return _m_cacgmm.CACGMM(weight=p['weight'], cacg=_cacg({k: p[k] for k in ('covariance_eigenvectors', 'covariance_eigenvalues')}))


CACGMM_FIT_VARIANTS = ('num_classes', 'affiliation', 'model', 'saliency', 'source-activity', 'wca-3', 'wca-list',
                       'wca-3-1', 'aligner', 'trace', 'no-norm', 'no-hermitize', 'wca-2')


def g_cacgmm_fit(rng, v, iterations=None):
    if v in ('wca-3', 'wca-3-1', 'aligner'):
        lead = (pick(rng, [1, 3, 5]),)
        _, T, D, K = sizes(rng)
    else:
        lead, T, D, K = sizes(rng)
    a = {'y': cn(rng, *lead, T, D), 'iterations': int(rng.integers(1, 4)) if iterations is None else iterations}
    if v == 'num_classes':
        a['num_classes'] = K
    elif v == 'model':
        m = _m_cacgmm.CACGMMTrainer().fit(a['y'].copy(), initialization=simplex(rng, *lead, K, T), iterations=1)
        a['model'] = cacgmm_to_args(m)
    else:
        a['initialization'] = simplex(rng, *lead, K, T)
    if v == 'saliency':
        a['saliency'] = rng.random((*lead, T)) + 0.05
    if v == 'source-activity':
        sam = rng.random((*lead, K, T)) < 0.8
        sam[..., 0, :] = True
        a['source_activity_mask'] = sam
    a['weight_constant_axis'] = {'wca-3': (-3,), 'wca-list': [-1], 'wca-3-1': (-3, -1), 'aligner': (-3,),
                                 'wca-2': -2}.get(v, (-1,))
    if v == 'aligner':
        a['aligner'] = aligner_spec(rng, lead[0])
    a['covariance_norm'] = {'trace': 'trace', 'no-norm': False}.get(v, 'eigenvalue')
    a['hermitize'] = v != 'no-hermitize'
    a['affiliation_eps'] = pick(rng, [1e-10, 0., 1e-3])
    a['eigenvalue_floor'] = pick(rng, [1e-10, 1e-6])
    return a


def cacgmm_fit_kwargs(a):
    k = kw(a, 'saliency', 'source_activity_mask', 'weight_constant_axis', 'hermitize', 'covariance_norm',
           'affiliation_eps', 'eigenvalue_floor')
    if a.get('aligner') is not None:
        k['inline_permutation_aligner'] = build_aligner(a['aligner'])
    return k


def cacgmm_init(a):
    if 'model' in a:
        return {'initialization': cacgmm_from_args(a['model'])}
    if 'initialization' in a:
        return {'initialization': a['initialization']}
    return {'num_classes': a['num_classes']}


add('cacgmm.CACGMMTrainer.fit', g_cacgmm_fit,
    lambda a: _m_cacgmm.CACGMMTrainer().fit(a['y'], iterations=a['iterations'], **cacgmm_init(a), **cacgmm_fit_kwargs(a)),
    variants=CACGMM_FIT_VARIANTS)
add('cacgmm.CACGMMTrainer.fit_predict', g_cacgmm_fit,
    lambda a: _m_cacgmm.CACGMMTrainer().fit_predict(a['y'], iterations=a['iterations'], **cacgmm_init(a), **cacgmm_fit_kwargs(a)),
    variants=('num_classes', 'affiliation', 'model', 'saliency', 'wca-3', 'aligner'))


def _g_cacgmm_mstep(rng, v):
    lead, T, D, K = sizes(rng)
    x = np.ascontiguousarray(np.swapaxes(_unit(cn(rng, *lead, T, D)), -1, -2))
    return {'x': x, 'quadratic_form': rng.random((*lead, K, T)) + 0.1, 'affiliation': simplex(rng, *lead, K, T),
            'saliency': None if v == 'no-saliency' else rng.random((*lead, T)) + 0.05, 'hermitize': True,
            'covariance_norm': pick(rng, ['eigenvalue', 'trace', False]), 'eigenvalue_floor': 1e-10,
            'weight_constant_axis': (-1,)}


add('cacgmm.CACGMMTrainer._m_step', _g_cacgmm_mstep,
    lambda a: _m_cacgmm.CACGMMTrainer()._m_step(**{k: v for k, v in a.items() if not k.startswith('_')}),
    variants=('saliency', 'no-saliency'))


def _g_cacgmm_model(rng, v):
    lead, T, D, K = sizes(rng)
    y = cn(rng, *lead, T, D)
    m = _m_cacgmm.CACGMMTrainer().fit(y.copy(), initialization=simplex(rng, *lead, K, T), iterations=2)
    a = {'model': cacgmm_to_args(m), 'y': y}
    if v == 'quadratic-form':
        a['return_quadratic_form'] = True
    if v == 'source-activity':
        sam = rng.random((*lead, K, T)) < 0.8
        sam[..., 0, :] = True
        a['source_activity_mask'] = sam
    if v in ('_predict', '_log_likelihood'):
        a['y'] = _m_cacg.normalize_observation(y)
    if v == '_log_likelihood':
        a['log_pdf'] = rn(rng, *lead, K, T)
    return a


add('cacgmm.CACGMM.predict', _g_cacgmm_model,
    lambda a: cacgmm_from_args(a['model']).predict(a['y'], **kw(a, 'return_quadratic_form', 'source_activity_mask')),
    variants=('default', 'quadratic-form', 'source-activity'))
add('cacgmm.CACGMM._predict', _g_cacgmm_model,
    lambda a: cacgmm_from_args(a['model'])._predict(a['y']), variants=('_predict',))
add('cacgmm.CACGMM.log_likelihood', _g_cacgmm_model, lambda a: cacgmm_from_args(a['model']).log_likelihood(a['y']))
add('cacgmm.CACGMM._log_likelihood', _g_cacgmm_model,
    lambda a: cacgmm_from_args(a['model'])._log_likelihood(a['y'], a['log_pdf']), variants=('_log_likelihood',))


def _g_sample_cacgmm(rng, v):
    D, K = int(rng.integers(2, 4)), int(rng.integers(1, 4))
    w = rng.random(K) + 0.1
    return {'size': int(rng.integers(1, 8)), 'weight': w / w.sum(), 'covariance': hpd(rng, (K,), D),
            'return_label': v == 'label'}


add('cacgmm.sample_cacgmm', _g_sample_cacgmm,
    lambda a: _m_cacgmm.sample_cacgmm(a['size'], a['weight'], a['covariance'], return_label=a['return_label']),
    variants=('default', 'label'))


# ============================================================================= entries: complex Watson / cWMM
add('complex_watson.normalize_observation', _g_obs, lambda a: _m_cw.normalize_observation(a['observation']),
    variants=('default', 'zero-frame'))


def _cw_params(rng, lead, D):
    return {'mode': _unit(cn(rng, *lead, D)), 'concentration': rng.random(lead) * 20 + 0.1}


def _cw(p):
    return _m_cw.ComplexWatson(mode=p['mode'], concentration=p['concentration'])


def _g_cw_model(rng, v):
    lead, T, D, K = sizes(rng, lead_choices=((2,), (1,), (2, 3)))
    return {'model': _cw_params(rng, lead, D), 'y': _unit(cn(rng, *lead, T, D))}


add('complex_watson.ComplexWatson.pdf', _g_cw_model, lambda a: _cw(a['model']).pdf(a['y']))
add('complex_watson.ComplexWatson.log_pdf', _g_cw_model, lambda a: _cw(a['model']).log_pdf(a['y']))
add('complex_watson.ComplexWatson.log_norm', _g_cw_model, lambda a: _cw(a['model']).log_norm())


def _g_scale_dim(rng, v):
    return {'scale': rng.random(tuple(rng.integers(1, 4, size=int(rng.integers(1, 3))))) * 30 + 0.05,
            'dimension': int(rng.integers(2, 7))}


for _n in ('log_norm_low_concentration', 'log_norm_medium_concentration', 'log_norm_high_concentration',
           'log_norm_1f1', 'log_norm_tran_vu'):
    add(f'complex_watson.ComplexWatson.{_n}', _g_scale_dim,
        (lambda n: lambda a: getattr(_m_cw.ComplexWatson, n)(a['scale'], a['dimension']))(_n))


def _cw_trainer(a):
    return _m_cw.ComplexWatsonTrainer(**a.get('ctor', {}))


def _g_cw_trainer(rng, v):
    lead, T, D, K = sizes(rng)
    a = {'ctor': {'dimension': D, 'max_concentration': pick(rng, [500, 100]), 'spline_markers': pick(rng, [1000, 100])}}
    if v == 'ratio':
        a['concentration'] = rng.random(5) * 100
    elif v == 'inverse':
        a['eigenvalues'] = rng.random((*lead, K))
    elif v in ('fit', 'fit-saliency', 'fit-infer-dimension'):
        a['y'] = cn(rng, *lead, T, D)
        a['saliency'] = rng.random((*lead, T)) + 0.05 if v == 'fit-saliency' else None
        if v == 'fit-infer-dimension':
            a['ctor'] = {}
    elif v in ('_fit', '_fit-no-saliency'):
        a['y'] = _unit(cn(rng, *lead, T, D))
        a['saliency'] = None if v == '_fit-no-saliency' else rng.random((*lead, T)) + 0.05
    return a


def _spline_tables(tr):
    s = tr.spline
    return {'x': np.asarray(s.x), 'y': np.asarray(s.y)}


add('complex_watson.ComplexWatsonTrainer.spline', _g_cw_trainer, lambda a: _spline_tables(_cw_trainer(a)))
add('complex_watson.ComplexWatsonTrainer.hypergeometric_ratio', _g_cw_trainer,
    lambda a: _cw_trainer(a).hypergeometric_ratio(a['concentration']), variants=('ratio',))
add('complex_watson.ComplexWatsonTrainer.hypergeometric_ratio_inverse', _g_cw_trainer,
    lambda a: _cw_trainer(a).hypergeometric_ratio_inverse(a['eigenvalues']), variants=('inverse',))
add('complex_watson.ComplexWatsonTrainer.fit', _g_cw_trainer,
    lambda a: _cw_trainer(a).fit(a['y'], saliency=a['saliency']), variants=('fit', 'fit-saliency', 'fit-infer-dimension'))
add('complex_watson.ComplexWatsonTrainer._fit', _g_cw_trainer,
    lambda a: _cw_trainer(a)._fit(a['y'], saliency=a['saliency']), variants=('_fit', '_fit-no-saliency'))

MM_FIT_VARIANTS = ('num_classes', 'affiliation', 'saliency', 'wca-3', 'wca-list', 'aligner', 'ctor-dimension', 'wca-2')


def g_mm_fit(rng, v, iterations=None, Dmax=4, D=None):
    """arguments of CWMMTrainer.fit / CBMMTrainer.fit (same signature)"""
    if v in ('wca-3', 'aligner'):
        lead = (pick(rng, [1, 3]),)
        _, T, D_, K = sizes(rng, Dmax=Dmax)
    else:
        lead, T, D_, K = sizes(rng, Dmax=Dmax)
    if D is not None:
        D_, T = D, max(T, D + 3)
    a = {'y': cn(rng, *lead, T, D_), 'iterations': int(rng.integers(1, 4)) if iterations is None else iterations,
         'ctor': {}}
    if v == 'num_classes':
        a['num_classes'] = K
    else:
        a['initialization'] = simplex(rng, *lead, K, T)
    if v == 'saliency':
        a['saliency'] = rng.random((*lead, T)) + 0.05
    a['weight_constant_axis'] = {'wca-3': (-3,), 'wca-list': [-1], 'aligner': (-3,), 'wca-2': -2}.get(v, (-1,))
    if v == 'aligner':
        a['aligner'] = aligner_spec(rng, lead[0])
    if v == 'ctor-dimension':
        a['ctor'] = {'dimension': D_}
    return a


def mm_fit_kwargs(a):
    k = kw(a, 'saliency', 'weight_constant_axis', 'affiliation_eps')
    if a.get('aligner') is not None:
        k['inline_permutation_aligner'] = build_aligner(a['aligner'])
    if 'initialization' in a:
        k['initialization'] = a['initialization']
    else:
        k['num_classes'] = a['num_classes']
    return k


add('cwmm.CWMMTrainer.fit', g_mm_fit,
    lambda a: _m_cwmm.CWMMTrainer(**a['ctor']).fit(a['y'], iterations=a['iterations'], **mm_fit_kwargs(a)),
    variants=MM_FIT_VARIANTS)
add('cwmm.CWMMTrainer.fit_predict', g_mm_fit,
    lambda a: _m_cwmm.CWMMTrainer(**a['ctor']).fit_predict(a['y'], iterations=a['iterations'], **mm_fit_kwargs(a)),
    variants=('num_classes', 'affiliation', 'saliency', 'aligner'))


def _g_mm__fit(rng, v):
    lead, T, D, K = sizes(rng) if v != 'aligner' else ((3,),) + sizes(rng)[1:]
    return {'y': _unit(cn(rng, *lead, T, D)), 'initialization': simplex(rng, *lead, K, T), 'iterations': 2,
            'saliency': rng.random((*lead, T)) + 0.05, 'weight_constant_axis': (-3,) if v == 'aligner' else (-1,),
            'affiliation_eps': 0, 'aligner': aligner_spec(rng, 3) if v == 'aligner' else None, 'ctor': {'dimension': D}}


def _call__fit(cls):
    def f(a):
        return cls(**a['ctor'])._fit(a['y'], initialization=a['initialization'], iterations=a['iterations'],
                                     saliency=a['saliency'], weight_constant_axis=a['weight_constant_axis'],
                                     affiliation_eps=a['affiliation_eps'],
                                     inline_permutation_aligner=build_aligner(a['aligner']))
    return f


def _g_mm_mstep(rng, v):
    lead, T, D, K = sizes(rng)
    return {'y': _unit(cn(rng, *lead, T, D)), 'affiliation': simplex(rng, *lead, K, T),
            'saliency': None if v == 'no-saliency' else rng.random((*lead, T)) + 0.05,
            'weight_constant_axis': (-1,), 'ctor': {'dimension': D}}


def _call_mstep(cls):
    return lambda a: cls(**a['ctor'])._m_step(a['y'], affiliation=a['affiliation'], saliency=a['saliency'],
                                             weight_constant_axis=a['weight_constant_axis'])


add('cwmm.CWMMTrainer._fit', _g_mm__fit, _call__fit(_m_cwmm.CWMMTrainer), variants=('default', 'aligner'))
add('cwmm.CWMMTrainer._m_step', _g_mm_mstep, _call_mstep(_m_cwmm.CWMMTrainer), variants=('saliency', 'no-saliency'))
add('cwmm.CWMMTrainer.complex_watson_trainer', _g_mm_mstep,
    lambda a: vars(_m_cwmm.CWMMTrainer(**a['ctor']).complex_watson_trainer))


def cwmm_to_args(m):
    return {'weight': np.asarray(m.weight), 'mode': m.complex_watson.mode, 'concentration': m.complex_watson.concentration}


def _cwmm(p):
    return _m_cwmm.CWMM(weight=p['weight'], complex_watson=_cw(p))


def _g_cwmm_model(rng, v):
    lead, T, D, K = sizes(rng)
    y = cn(rng, *lead, T, D)
    m = _m_cwmm.CWMMTrainer().fit(y.copy(), initialization=simplex(rng, *lead, K, T), iterations=2)
    return {'model': cwmm_to_args(m), 'y': _unit(y) if v == '_predict' else y}


add('cwmm.CWMM.predict', _g_cwmm_model, lambda a: _cwmm(a['model']).predict(a['y']))
add('cwmm.CWMM._predict', _g_cwmm_model, lambda a: _cwmm(a['model'])._predict(a['y']), variants=('_predict',))


# ============================================================================= entries: complex Bingham / cBMM
add('complex_bingham.normalize_observation', _g_obs, lambda a: _m_cb.normalize_observation(a['observation']),
    variants=('default', 'zero-frame'))
add('complex_bingham.force_hermitian', lambda rng, v: {'matrix': cn(rng, *sizes(rng)[0], 3, 3)},
    lambda a: _m_cb.force_hermitian(a['matrix']))


def _cb_params(rng, lead, D):
    cov = hpd(rng, lead, D)
    w, U = np.linalg.eigh(cov)
    ev = -np.sort(rng.random((*lead, D)) * 10, axis=-1)[..., ::-1]
    ev = ev - ev[..., -1:]
    return {'covariance_eigenvectors': U, 'covariance_eigenvalues': np.ascontiguousarray(ev)}


def _cb(p):
    return _m_cb.ComplexBingham(covariance_eigenvectors=p['covariance_eigenvectors'],
                                covariance_eigenvalues=p['covariance_eigenvalues'])


def _g_cb_model(rng, v):
    lead, T, D, K = sizes(rng, lead_choices=((2,), (1,), (2, 3)))
    a = {'model': _cb_params(rng, lead, D), 'y': _unit(cn(rng, *lead, T, D))}
    if v == 'duplicates':
        a['model']['covariance_eigenvalues'][..., 1] = a['model']['covariance_eigenvalues'][..., 0]
    if v == 'keep-duplicates':
        a['remove_duplicate_eigenvalues'] = False
    return a


add('complex_bingham.ComplexBingham.__init__', _g_cb_model, lambda a: _cb(a['model']))
add('complex_bingham.ComplexBingham.covariance', _g_cb_model, lambda a: _cb(a['model']).covariance)
add('complex_bingham.ComplexBingham.pdf', _g_cb_model, lambda a: _cb(a['model']).pdf(a['y']))
add('complex_bingham.ComplexBingham.log_pdf', _g_cb_model, lambda a: _cb(a['model']).log_pdf(a['y']),
    variants=('default', 'duplicates'))
add('complex_bingham.ComplexBingham.log_norm', _g_cb_model,
    lambda a: _cb(a['model']).log_norm(**kw(a, 'remove_duplicate_eigenvalues')),
    variants=('default', 'duplicates', 'keep-duplicates'))
add('complex_bingham.ComplexBingham.norm', _g_cb_model,
    lambda a: _cb(a['model']).norm(**kw(a, 'remove_duplicate_eigenvalues')),
    variants=('default', 'duplicates', 'keep-duplicates'))


def _g_cb_eigs(rng, v):
    D = int(rng.integers(2, 5))
    if v == 'batched':
        e = rng.random((int(rng.integers(1, 4)), D))
    else:
        e = rng.random(D)
    if v == 'duplicates':
        e[1] = e[0]
    if v == 'sorted':
        e = np.sort(e)
    e = e / e.sum(-1, keepdims=True)
    a = {'eigenvalues': e, 'eps': pick(rng, [1e-8, 1e-4])}
    if v == 'max-concentration':
        a['max_concentration'] = 50.
    return a


add('complex_bingham.ComplexBingham._remove_duplicate_eigenvalues', _g_cb_eigs,
    lambda a: _m_cb.ComplexBingham._remove_duplicate_eigenvalues(a['eigenvalues'], eps=a['eps']),
    variants=('default', 'duplicates', 'sorted', 'batched'))
add('complex_bingham.ComplexBinghamTrainer.find_eigenvalues_v2', _g_cb_eigs,
    lambda a: _m_cb.ComplexBinghamTrainer.find_eigenvalues_v2(a['eigenvalues'], eps=a['eps'], **kw(a, 'max_concentration')),
    variants=('default', 'duplicates', 'sorted', 'max-concentration'))
add('complex_bingham.ComplexBinghamTrainer.find_eigenvalues_v3', _g_cb_eigs,
    lambda a: _m_cb.ComplexBinghamTrainer.find_eigenvalues_v3(a['eigenvalues'], eps=a['eps'], **kw(a, 'max_concentration')),
    variants=('default', 'duplicates', 'sorted', 'max-concentration'))


def _g_cb_trainer(rng, v):
    lead, T, D, K = sizes(rng, lead_choices=((), (2,), (1,)))
    a = {'ctor': {'dimension': D, 'max_concentration': pick(rng, [np.inf, 500.])}}
    if v in ('fit', 'fit-saliency', 'fit-infer-dimension'):
        a['y'] = cn(rng, *lead, T, D)
        a['saliency'] = rng.random((*lead, T)) + 0.05 if v == 'fit-saliency' else None
        if v == 'fit-infer-dimension':
            a['ctor'] = {}
    else:
        a['y'] = _unit(cn(rng, *lead, T, D))
        a['saliency'] = None if v == '_fit-no-saliency' else rng.random((*lead, T)) + 0.05
    return a


add('complex_bingham.ComplexBinghamTrainer.fit', _g_cb_trainer,
    lambda a: _m_cb.ComplexBinghamTrainer(**a['ctor']).fit(a['y'], saliency=a['saliency']),
    variants=('fit', 'fit-saliency', 'fit-infer-dimension'))
add('complex_bingham.ComplexBinghamTrainer._fit', _g_cb_trainer,
    lambda a: _m_cb.ComplexBinghamTrainer(**a['ctor'])._fit(a['y'], saliency=a['saliency']),
    variants=('_fit', '_fit-no-saliency'))

add('cbmm.CBMMTrainer.fit', lambda rng, v: g_mm_fit(rng, v, Dmax=3),
    lambda a: _m_cbmm.CBMMTrainer(**a['ctor']).fit(a['y'], iterations=a['iterations'], **mm_fit_kwargs(a)),
    variants=MM_FIT_VARIANTS)
add('cbmm.CBMMTrainer.fit_predict', lambda rng, v: g_mm_fit(rng, v, Dmax=3),
    lambda a: _m_cbmm.CBMMTrainer(**a['ctor']).fit_predict(a['y'], iterations=a['iterations'], **mm_fit_kwargs(a)),
    variants=('num_classes', 'affiliation', 'saliency', 'aligner'))
add('cbmm.CBMMTrainer._fit', _g_mm__fit, _call__fit(_m_cbmm.CBMMTrainer), variants=('default', 'aligner'))
add('cbmm.CBMMTrainer._m_step', _g_mm_mstep, _call_mstep(_m_cbmm.CBMMTrainer), variants=('saliency', 'no-saliency'))
add('cbmm.CBMMTrainer.complex_bingham_trainer', _g_mm_mstep,
    lambda a: vars(_m_cbmm.CBMMTrainer(**a['ctor']).complex_bingham_trainer))


def cbmm_to_args(m):
    return {'weight': np.asarray(m.weight), 'covariance_eigenvectors': m.complex_bingham.covariance_eigenvectors,
            'covariance_eigenvalues': m.complex_bingham.covariance_eigenvalues}


def _cbmm(p):
    return _m_cbmm.CBMM(weight=p['weight'], complex_bingham=_cb(p))


def _g_cbmm_model(rng, v):
    lead, T, D, K = sizes(rng, Dmax=3)
    y = cn(rng, *lead, T, D)
    m = _m_cbmm.CBMMTrainer().fit(y.copy(), initialization=simplex(rng, *lead, K, T), iterations=1)
    return {'model': cbmm_to_args(m), 'y': _unit(y) if v == '_predict' else y, 'affiliation_eps': pick(rng, [0, 1e-6])}


add('cbmm.CBMM.predict', _g_cbmm_model, lambda a: _cbmm(a['model']).predict(a['y'], affiliation_eps=a['affiliation_eps']))
add('cbmm.CBMM._predict', _g_cbmm_model, lambda a: _cbmm(a['model'])._predict(a['y'], a['affiliation_eps']),
    variants=('_predict',))


# ============================================================================= entries: beamformer
import pb_bss.extraction.beamformer as _m_bf  # noqa: E402
import pb_bss.extraction.mask_module as _m_mask  # noqa: E402
import pb_bss.permutation_alignment as _m_pa  # noqa: E402
import pb_bss.evaluation.sxr_module as _m_sxr  # noqa: E402


def _g_psd(rng, v):
    F, D, T, K = int(rng.integers(1, 4)), int(rng.integers(2, 5)), int(rng.integers(4, 10)), int(rng.integers(1, 4))
    a = {'observation': cn(rng, F, D, T), 'normalize': bool(rng.integers(2))}
    if v == 'mask':
        a['mask'] = rng.random((F, T))
    elif v == 'bool-mask':
        a['mask'] = rng.random((F, T)) < 0.6
    elif v == 'source-mask':
        a['mask'] = rng.random((F, K, T))
    elif v == 'source-dim':
        a['mask'] = rng.random((K, F, T))
        a['source_dim'] = -3
    elif v == 'axes':
        a['observation'] = cn(rng, D, F, T)
        a['mask'] = rng.random((F, T))
        a['sensor_dim'] = 0
    elif v == 'int-mask':
        a['mask'] = (rng.random((F, T)) < 0.6).astype(np.float32)
    return a


add('beamformer.get_power_spectral_density_matrix', _g_psd,
    lambda a: _m_bf.get_power_spectral_density_matrix(
        a['observation'], **kw(a, 'mask', 'normalize', 'source_dim', 'sensor_dim')),
    variants=('no-mask', 'mask', 'bool-mask', 'source-mask', 'source-dim', 'axes', 'int-mask'))


def _g_bf(rng, v):
    lead = pick(rng, [(2,), (1,), (3,)]) if v != 'lead2' else (2, 2)
    D = int(rng.integers(2, 5))
    T = int(rng.integers(4, 9))
    F = lead[-1]
    return {'target_psd_matrix': hpd(rng, lead, D), 'noise_psd_matrix': hpd(rng, lead, D, cond=5.),
            'atf_vector': cn(rng, *lead, D), 'vector': cn(rng, *lead, D), 'mix': cn(rng, *lead, D, T),
            'w_mat': cn(rng, F, D, D), 'online_vector': cn(rng, T, F, D), 'online_mix': cn(rng, F, D, T), '_D': D, '_F': F}


add('beamformer.get_pca', _g_bf, lambda a: _m_bf.get_pca(a['target_psd_matrix'], return_all_vecs=a['_variant'] == 'all'),
    variants=('default', 'all', 'lead2'))
add('beamformer.get_pca_vector', _g_bf,
    lambda a: _m_bf.get_pca_vector(a['target_psd_matrix'], scaling={'trace': 'trace', 'eigenvalue': 'eigenvalue'}.get(a['_variant'])),
    variants=('default', 'trace', 'eigenvalue'))
add('beamformer.get_mvdr_vector', _g_bf, lambda a: _m_bf.get_mvdr_vector(a['atf_vector'], a['noise_psd_matrix']),
    variants=('default', 'lead2'))
add('beamformer.get_mvdr_vector_merl', _g_bf, lambda a: _m_bf.get_mvdr_vector_merl(a['target_psd_matrix'], a['noise_psd_matrix']))
add('beamformer.get_gev_vector', _g_bf,
    lambda a: _m_bf.get_gev_vector(a['target_psd_matrix'], a['noise_psd_matrix'], use_eig=a['_variant'] == 'eig'),
    variants=('default', 'eig', 'lead2'))
add('beamformer._get_gev_vector', _g_bf,
    lambda a: _m_bf._get_gev_vector(a['target_psd_matrix'], a['noise_psd_matrix'], use_eig=a['_variant'] == 'eig'),
    variants=('default', 'eig'))


def _g_lcmv(rng, v):
    K, F, D = 2, int(rng.integers(1, 4)), int(rng.integers(3, 5))
    return {'atf_vectors': cn(rng, K, F, D), 'response_vector': np.array([1., 0.]), 'noise_psd_matrix': hpd(rng, (F,), D)}


add('beamformer.get_lcmv_vector', _g_lcmv,
    lambda a: _m_bf.get_lcmv_vector(a['atf_vectors'], a['response_vector'], a['noise_psd_matrix']))
add('beamformer.blind_analytic_normalization', _g_bf,
    lambda a: _m_bf.blind_analytic_normalization(a['vector'], a['noise_psd_matrix']), variants=('default', 'lead2'))
add('beamformer.distortionless_normalization', _g_bf,
    lambda a: _m_bf.distortionless_normalization(a['vector'], a['atf_vector'], a['noise_psd_matrix']))
add('beamformer.mvdr_snr_postfilter', _g_bf,
    lambda a: _m_bf.mvdr_snr_postfilter(a['vector'], a['target_psd_matrix'], a['noise_psd_matrix']))
add('beamformer.zero_degree_normalization', _g_bf, lambda a: _m_bf.zero_degree_normalization(a['vector'], 0))
add('beamformer.phase_correction', _g_bf, lambda a: _m_bf.phase_correction(a['vector']), variants=('default', 'lead2'))
add('beamformer.condition_covariance', _g_bf, lambda a: _m_bf.condition_covariance(a['target_psd_matrix'], 1e-2),
    variants=('default', 'lead2'))
add('beamformer.apply_beamforming_vector', _g_bf, lambda a: _m_bf.apply_beamforming_vector(a['vector'], a['mix']))
add('beamformer.apply_online_beamforming_vector', _g_bf,
    lambda a: _m_bf.apply_online_beamforming_vector(a['online_vector'], a['online_mix']))
add('beamformer.get_optimal_reference_channel', _g_bf,
    lambda a: _m_bf.get_optimal_reference_channel(a['w_mat'], a['target_psd_matrix'], a['noise_psd_matrix']))
add('beamformer.get_mvdr_vector_souden', _g_bf,
    lambda a: _m_bf.get_mvdr_vector_souden(a['target_psd_matrix'], a['noise_psd_matrix'],
                                           ref_channel=0 if a['_variant'] == 'ref' else None,
                                           return_ref_channel=a['_variant'] == 'return-ref'),
    variants=('default', 'ref', 'return-ref'))


def _call_wmwf(a):
    v = a['_variant']
    k = {}
    if v == 'ref':
        k['reference_channel'] = 0
    if v == 'frequency-dependent':
        k['distortion_weight'] = 'frequency_dependent'
    if v == 'selection':
        k['channel_selection_vector'] = np.ones(a['_D']) / a['_D']
    return _m_bf.get_wmwf_vector(a['target_psd_matrix'], a['noise_psd_matrix'], **k)


add('beamformer.get_wmwf_vector', _g_bf, _call_wmwf, variants=('default', 'ref', 'frequency-dependent', 'selection'))
add('beamformer.get_lcmv_vector_souden', _g_bf,
    lambda a: _m_bf.get_lcmv_vector_souden(a['target_psd_matrix'], a['noise_psd_matrix'], a['noise_psd_matrix']))


# ============================================================================= entries: masks
def _g_sig(rng, v):
    K, F, T = int(rng.integers(2, 4)), int(rng.integers(2, 6)), int(rng.integers(2, 7))
    if v == 'sensor':
        D = int(rng.integers(2, 4))
        return {'signal': cn(rng, K, D, F, T), 'sensor_axis': 1}
    if v == 'real':
        return {'signal': rn(rng, K, F, T)}
    if v == 'source-axis':
        return {'signal': cn(rng, F, K, T), 'source_axis': 1}
    if v == 'biased':
        return {'signal': cn(rng, 2, T, 12)}
    return {'signal': cn(rng, K, F, T)}


add('mask_module.voiced_unvoiced_split_characteristic', lambda rng, v: {'frequency_bins': int(rng.integers(10, 40))},
    lambda a: _m_mask.voiced_unvoiced_split_characteristic(a['frequency_bins']))
add('mask_module.ideal_binary_mask', _g_sig,
    lambda a: _m_mask.ideal_binary_mask(a['signal'], **kw(a, 'source_axis', 'sensor_axis')),
    variants=('default', 'sensor', 'real', 'source-axis'))
add('mask_module.wiener_like_mask', _g_sig,
    lambda a: _m_mask.wiener_like_mask(a['signal'], **kw(a, 'source_axis', 'sensor_axis')),
    variants=('default', 'sensor', 'real', 'source-axis'))
for _n in ('ideal_ratio_mask', 'ideal_amplitude_mask', 'phase_sensitive_mask', 'ideal_complex_mask'):
    add(f'mask_module.{_n}', _g_sig,
        (lambda n: lambda a: getattr(_m_mask, n)(a['signal'], **kw(a, 'source_axis')))(_n),
        variants=('default', 'real', 'source-axis'))
add('mask_module.lorenz_mask', _g_sig, lambda a: _m_mask.lorenz_mask(a['signal'], **kw(a, 'sensor_axis')),
    variants=('default', 'sensor', 'real'))
add('mask_module.quantile_mask', _g_sig,
    lambda a: _m_mask.quantile_mask(a['signal'], **({'quantile': 0.3} if a['_variant'] == 'real' else {})),
    variants=('default', 'real'))
add('mask_module.biased_binary_mask', _g_sig, lambda a: _m_mask.biased_binary_mask(a['signal'], low_cut=2, high_cut=10),
    variants=('biased',))


# ============================================================================= entries: permutation alignment
def _g_pa(rng, v):
    K, F, T = int(rng.integers(1, 5)), G.odd(rng, 1, 9), int(rng.integers(1, 8))
    mask, kind = G.real_mask(rng, K, F, T)
    a = {'mask': mask, 'reference_mask': G.real_mask(rng, K, F, T)[0], 'mapping': G.random_perm_field(rng, K, F),
         'metric': pick(rng, ['cos', 'multiply', 'euclidean']), 'algorithm': pick(rng, ['greedy', 'optimal']),
         'cfg': G.dhtv_cfg(rng, F), 'score': rn(rng, *pick(rng, [(), (F,)]), K, K), '_K': K, '_F': F}
    if v == 'int-score':
        a['score'] = rng.integers(-5, 6, size=(K, K))
    if v.endswith('-permuted'):
        # class patterns that are consistent over frequency, permuted per bin: the aligners must reorder
        K, F, T = int(rng.integers(2, 5)), G.odd(rng, 3, 9), int(rng.integers(4, 9))
        proto = rng.random((K, 1, T)) ** 3 + 0.01
        m = proto + 0.05 * rng.random((K, F, T))
        perm = G.random_perm_field(rng, K, F)
        a.update(mask=m[perm, np.arange(F)], reference_mask=m, mapping=perm, metric=v.split('-')[0],
                 cfg=dict(G.dhtv_cfg(rng, F), segment_start=0, segment_width=F), _K=K, _F=F)
    return a


def _dhtv(a):
    return _m_pa.DHTVPermutationAlignment(**a['cfg'], similarity_metric=a['metric'], algorithm=a['algorithm'])


add('permutation_alignment.interleave', lambda rng, v: {'lists': [list(range(int(rng.integers(0, 4)))) for _ in range(3)]},
    lambda a: list(_m_pa.interleave(*a['lists'])))
add('permutation_alignment.sample_random_mapping', _g_pa, lambda a: _m_pa.sample_random_mapping(a['_K'], a['_F']))
add('permutation_alignment.apply_mapping', _g_pa, lambda a: _m_pa.apply_mapping(a['mask'], a['mapping']))
add('permutation_alignment._PermutationAlignment.apply_mapping', _g_pa,
    lambda a: _m_pa._PermutationAlignment.apply_mapping(a['mask'], a['mapping']))
add('permutation_alignment._PermutationAlignment.__call__', _g_pa,
    lambda a: {'dhtv': lambda: _dhtv(a)(a['mask']),
               'greedy': lambda: _m_pa.GreedyPermutationAlignment(a['metric'], a['algorithm'])(a['mask']),
               'oracle': lambda: _m_pa.OraclePermutationAlignment(a['metric'], a['algorithm'])(a['mask'], a['reference_mask'])
               }[a['_variant'].split(':')[0]](),
    variants=('dhtv', 'greedy', 'oracle'))
add('permutation_alignment._PermutationAlignment.__call__[permuted]', lambda rng, v: _g_pa(rng, v.split(':')[1]),
    lambda a: _dhtv(a)(a['mask']),
    variants=('dhtv:cos-permuted', 'dhtv:multiply-permuted', 'dhtv:euclidean-permuted'))
add('permutation_alignment.DHTVPermutationAlignment.__init__', _g_pa,
    lambda a: {k: v for k, v in vars(_dhtv(a)).items() if k != 'get_score_matrix'})
add('permutation_alignment.DHTVPermutationAlignment.from_stft_size',
    lambda rng, v: {'stft_size': pick(rng, [512, 1024]), 'metric': pick(rng, ['cos', 'multiply'])},
    lambda a: {k: v for k, v in vars(_m_pa.DHTVPermutationAlignment.from_stft_size(a['stft_size'], a['metric'])).items()
               if k != 'get_score_matrix'})
add('permutation_alignment.DHTVPermutationAlignment.alignment_plan', _g_pa, lambda a: _dhtv(a).alignment_plan)
add('permutation_alignment.DHTVPermutationAlignment._align_segment', _g_pa,
    lambda a: _dhtv(a)._align_segment(a['mask'][:, 0, :], a['reference_mask'][:, 0, :]))
add('permutation_alignment.DHTVPermutationAlignment.calculate_mapping', _g_pa, lambda a: _dhtv(a).calculate_mapping(a['mask']),
    variants=('default', 'cos-permuted', 'multiply-permuted', 'euclidean-permuted'))
add('permutation_alignment._parameterized_vector_norm', _g_pa, lambda a: _m_pa._parameterized_vector_norm(a['mask'], axis=-1))
for _n in ('cos', 'multiply', 'euclidean'):
    add(f'permutation_alignment._ScoreMatrix.{_n}', _g_pa,
        (lambda n: lambda a: getattr(_m_pa._ScoreMatrix, n)(a['mask'], a['reference_mask']))(_n))
add('permutation_alignment._ScoreMatrix.from_name', _g_pa, lambda a: _m_pa._ScoreMatrix.from_name(a['metric']).__name__)
add('permutation_alignment._calculate_score_matrix', _g_pa,
    lambda a: _m_pa._calculate_score_matrix(a['mask'], a['reference_mask'], a['metric']))
add('permutation_alignment._mapping_from_score_matrix', _g_pa,
    lambda a: _m_pa._mapping_from_score_matrix(a['score'], a['algorithm']), variants=('default', 'int-score'))
add('permutation_alignment.GreedyPermutationAlignment.calculate_mapping', _g_pa,
    lambda a: _m_pa.GreedyPermutationAlignment(a['metric'], a['algorithm']).calculate_mapping(a['mask']))
add('permutation_alignment.OraclePermutationAlignment.calculate_mapping', _g_pa,
    lambda a: _m_pa.OraclePermutationAlignment(a['metric'], a['algorithm']).calculate_mapping(a['mask'], a['reference_mask']))


# ============================================================================= entries: SXR metrics
def _g_sxr(rng, v):
    K, D, T = int(rng.integers(1, 4)), int(rng.integers(1, 4)), int(rng.integers(8, 30))
    cplx = v == 'complex'
    mk = (lambda *s: cn(rng, *s)) if cplx else (lambda *s: rn(rng, *s))
    a = {'X': mk(D, T), 'N': mk(D, T), 'images': mk(K, D, T), 'noise': mk(D, T), 'snr': float(rng.normal() * 10),
         'image_contribution': mk(K, K + int(rng.integers(0, 2)), T)}
    a['noise_contribution'] = mk(a['image_contribution'].shape[1], T)
    a['axis'] = pick(rng, [None, -1])
    return a


add('sxr_module.get_energy', _g_sxr, lambda a: _m_sxr.get_energy(a['X'], axis=a['axis']), variants=('real', 'complex'))
add('sxr_module.get_variance_for_zero_mean_signal', _g_sxr,
    lambda a: _m_sxr.get_variance_for_zero_mean_signal(a['X'], axis=a['axis']), variants=('real', 'complex'))
add('sxr_module.get_snr', _g_sxr, lambda a: _m_sxr.get_snr(a['X'], a['N'], axis=a['axis']), variants=('real', 'complex'))
add('sxr_module.set_snr[inplace=True]', _g_sxr,
    lambda a: _m_sxr.set_snr(a['X'], a['N'], a['snr'], axis=a['axis'], inplace=True), variants=('real', 'complex'),
    exempt=lambda a: {'N'})
add('sxr_module.set_snr[inplace=False]', _g_sxr,
    lambda a: _m_sxr.set_snr(a['X'], a['N'], a['snr'], axis=a['axis'], inplace=False), variants=('real', 'complex'))
add('sxr_module._sxr', _g_sxr, lambda a: _m_sxr._sxr(np.abs(a['X']), np.abs(a['N'])), variants=('real',))
add('sxr_module.input_sxr', _g_sxr,
    lambda a: _m_sxr.input_sxr(a['images'], a['noise'], average_sources=a['_variant'] != 'no-average',
                               average_channels=a['_variant'] != 'no-average',
                               return_dict={'dict': True, 'prefix': 'in_'}.get(a['_variant'], False)),
    variants=('real', 'dict', 'prefix', 'no-average'))
add('sxr_module.output_sxr', _g_sxr,
    lambda a: _m_sxr.output_sxr(a['image_contribution'], a['noise_contribution'],
                                average_sources=a['_variant'] != 'no-average',
                                return_dict={'dict': True, 'prefix': 'out_'}.get(a['_variant'], False)),
    variants=('real', 'dict', 'prefix', 'no-average'))


# ============================================================================= entries outside the anchor list (cheap ones)
import pb_bss.distribution.mixture_model_utils as _m_mmu  # noqa: E402
import pb_bss.distribution.utils as _m_du  # noqa: E402
import pb_bss.utils as _m_u  # noqa: E402
import pb_bss.math.solve as _m_solve  # noqa: E402
import pb_bss.distribution.gmm as _m_gmm  # noqa: E402
import pb_bss.distribution.gaussian as _m_gauss  # noqa: E402
import pb_bss.distribution.vmfmm as _m_vmfmm  # noqa: E402
import pb_bss.distribution.von_mises_fisher as _m_vmf  # noqa: E402
import pb_bss.distribution.gcacgmm as _m_gcacgmm  # noqa: E402
import pb_bss.distribution.vmfcacgmm as _m_vmfcacgmm  # noqa: E402
import pb_bss.distribution.complex_circular_symmetric_gaussian as _m_ccsg  # noqa: E402
import pb_bss.extraction.beamformer_wrapper as _m_bfw  # noqa: E402


def _g_lp(rng, v):
    lead, T, D, K = sizes(rng)
    w = simplex(rng, *lead, K, 1)
    a = {'weight': w, 'log_pdf': rn(rng, *lead, K, T) * 5, 'affiliation_eps': pick(rng, [0., 1e-6])}
    if v == 'source-activity':
        sam = rng.random((*lead, K, T)) < 0.8
        sam[..., 0, :] = True
        a['source_activity_mask'] = sam
    return a


add('mixture_model_utils.log_pdf_to_affiliation', _g_lp,
    lambda a: _m_mmu.log_pdf_to_affiliation(a['weight'], a['log_pdf'], **kw(a, 'source_activity_mask', 'affiliation_eps')),
    variants=('default', 'source-activity'), anchored=False)


def _g_lp_int(rng, v):
    F, K, T = int(rng.integers(1, 4)), int(rng.integers(2, 4)), int(rng.integers(2, 7))
    a = {'weight': simplex(rng, K, 1), 'spatial': rn(rng, F, K, T) * 3, 'spectral': rn(rng, F, K, T) * 3}
    if v == 'source-activity':
        sam = rng.random((F, K, T)) < 0.8
        sam[..., 0, :] = True
        a['source_activity_mask'] = sam
    return a


add('mixture_model_utils.log_pdf_to_affiliation_for_integration_models_with_inline_pa', _g_lp_int,
    lambda a: _m_mmu.log_pdf_to_affiliation_for_integration_models_with_inline_pa(
        a['weight'], a['spatial'], a['spectral'], **kw(a, 'source_activity_mask')),
    variants=('default', 'source-activity'), anchored=False)


def _g_emw(rng, v):
    lead, T, D, K = sizes(rng)
    return {'affiliation': simplex(rng, *lead, K, T), 'saliency': rng.random((*lead, T)) + 0.05 if v == 'saliency' else None,
            'weight_constant_axis': pick(rng, [-1, (-1,), [-1], -2]) if v != 'wca-3' else (-3,)}


add('mixture_model_utils.estimate_mixture_weight',
    lambda rng, v: _g_emw(rng, v) if v != 'wca-3' else dict(_g_emw(rng, v), affiliation=simplex(rng, 3, 2, 5), saliency=None),
    lambda a: _m_mmu.estimate_mixture_weight(a['affiliation'], a['saliency'], a['weight_constant_axis']),
    variants=('default', 'saliency', 'wca-3'), anchored=False)
add('mixture_model_utils._estimate_mixture_weight_with_dirichlet_prior_concentration', _g_emw,
    lambda a: _m_mmu._estimate_mixture_weight_with_dirichlet_prior_concentration(
        a['affiliation'], a['saliency'], (-1,), 1 if a['saliency'] is not None else 2.),
    variants=('default', 'saliency'), anchored=False)


def _g_inline(rng, v):
    F, K, T = G.odd(rng, 1, 7), int(rng.integers(2, 4)), int(rng.integers(2, 7))
    a = {'affiliation': simplex(rng, F, K, T), 'aligner': aligner_spec(rng, F)}
    if v.startswith('permuted'):
        b = _g_pa(rng, v.split(':')[1])
        aff = np.ascontiguousarray(np.transpose(b['mask'], (1, 0, 2)))
        a = {'affiliation': aff / aff.sum(1, keepdims=True),
             'aligner': {'kind': 'dhtv', 'metric': b['metric'], 'cfg': b['cfg']}}
        if rng.random() < 0.5:
            a['quadratic_form'] = rng.random(aff.shape) + 0.1
    if v == 'quadratic-form':
        a['quadratic_form'] = rng.random((F, K, T)) + 0.1
    return a


add('mixture_model_utils.apply_inline_permutation_alignment', _g_inline,
    lambda a: _m_mmu.apply_inline_permutation_alignment(
        a['affiliation'], quadratic_form=a.get('quadratic_form'), weight_constant_axis=(-3,), aligner=build_aligner(a['aligner'])),
    variants=('default', 'quadratic-form', 'permuted:multiply-permuted', 'permuted:euclidean-permuted'), anchored=False)

# ---- distribution.utils / pb_bss.utils / math.solve
add('distribution.utils._unit_norm', _g_obs,
    lambda a: _m_du._unit_norm(a['observation'], eps_style={'default': 'plus', 'zero-frame': 'where', 'real': 'max'}[a['_variant']]),
    variants=('default', 'zero-frame', 'real'), anchored=False)
add('distribution.utils._phase_norm', _g_obs, lambda a: _m_du._phase_norm(a['observation']), anchored=False)
add('distribution.utils.force_hermitian', lambda rng, v: {'matrix': cn(rng, *sizes(rng)[0], 3, 3)},
    lambda a: _m_du.force_hermitian(a['matrix']), anchored=False)
add('distribution.utils.stack_parameters',
    lambda rng, v: {'models': [_cacg_params(rng, (), 3) for _ in range(2)]},
    lambda a: _m_du.stack_parameters([_cacg(p) for p in a['models']]), anchored=False)
add('distribution.utils._ProbabilisticModel.to_dict', lambda rng, v: {'model': _cacg_params(rng, (2,), 3)},
    lambda a: _cacg(a['model']).to_dict(), anchored=False)
add('utils.get_pca', lambda rng, v: {'psd': hpd(rng, sizes(rng)[0], int(rng.integers(2, 5)))},
    lambda a: _m_u.get_pca(a['psd']), anchored=False)
add('utils.labels_to_one_hot', lambda rng, v: {'labels': rng.integers(0, 3, size=(2, 4))},
    lambda a: _m_u.labels_to_one_hot(a['labels'], 3, axis=-2), anchored=False)
add('utils.abs_square', _g_obs, lambda a: _m_u.abs_square(a['observation']), variants=('default', 'real'), anchored=False)
add('utils.unsqueeze', lambda rng, v: {'array': rn(rng, 2, 3)}, lambda a: _m_u.unsqueeze(a['array'], (-1,)), anchored=False)
add('utils.is_broadcast_compatible', lambda rng, v: {'s': [2, 1, 3]},
    lambda a: _m_u.is_broadcast_compatible(a['s'], [1, 4, 3]), anchored=False)


def _g_solve(rng, v):
    lead = pick(rng, [(), (2,), (2, 2)])
    D = int(rng.integers(2, 5))
    A = hpd(rng, lead, D)
    if v == 'singular' and lead:
        A[(0,) * len(lead)] = 0
    return {'A': A, 'B': cn(rng, *lead, D, D)}


add('math.solve.stable_solve', _g_solve, lambda a: _m_solve.stable_solve(a['A'], a['B']),
    variants=('default', 'singular'), anchored=False)


# ---- Gaussians / GMM
def _g_gauss(rng, v):
    lead, T, D, K = sizes(rng)
    y = rn(rng, *lead, T, D)
    return {'y': y, 'saliency': rng.random((*lead, T)) + 0.05 if v != 'no-saliency' else None,
            'covariance_type': pick(rng, ['full', 'diagonal', 'spherical'])}


add('gaussian.GaussianTrainer.fit', _g_gauss,
    lambda a: _m_gauss.GaussianTrainer().fit(a['y'], a['saliency'], a['covariance_type']),
    variants=('saliency', 'no-saliency'), anchored=False)


def _gauss_to_args(g):
    return {'cls': type(g).__name__, 'mean': g.mean, 'covariance': g.covariance}


def _gauss(p):
    return getattr(_m_gauss, p['cls'])(mean=p['mean'], covariance=p['covariance'])


def _g_gauss_model(rng, v):
    a = _g_gauss(rng, 'saliency')
    g = _m_gauss.GaussianTrainer().fit(a['y'].copy(), a['saliency'].copy(), a['covariance_type'])
    return {'model': _gauss_to_args(g), 'y': a['y']}


add('gaussian.Gaussian.log_pdf', _g_gauss_model, lambda a: _gauss(a['model']).log_pdf(a['y']), anchored=False)
add('gaussian.Gaussian.__post_init__', _g_gauss_model, lambda a: vars(_gauss(a['model'])), anchored=False)


def _g_gmm_fit(rng, v):
    lead, T, D, K = sizes(rng, Dmax=3)
    T += 6
    a = {'y': rn(rng, *lead, T, D), 'iterations': int(rng.integers(1, 4)),
         'covariance_type': pick(rng, ['full', 'diagonal', 'spherical'])}
    if v == 'num_classes':
        a['num_classes'] = K
    else:
        a['initialization'] = simplex(rng, *lead, K, T)
    if v == 'saliency':
        a['saliency'] = rng.random((*lead, T)) + 0.05
    if v == 'fixed-covariance':
        a['covariance_type'] = 'spherical'
        a['fixed_covariance'] = rng.random((*lead, K)) + 0.5
    return a


def _gmm_kwargs(a):
    k = kw(a, 'saliency', 'covariance_type', 'fixed_covariance', 'iterations')
    k.update(kw(a, 'initialization', 'num_classes'))
    return k


add('gmm.GMMTrainer.fit', _g_gmm_fit, lambda a: _m_gmm.GMMTrainer().fit(a['y'], **_gmm_kwargs(a)),
    variants=('num_classes', 'affiliation', 'saliency', 'fixed-covariance'), anchored=False)
add('gmm.GMMTrainer.fit_predict', _g_gmm_fit,
    lambda a: _m_gmm.GMMTrainer().fit_predict(a['y'], weight_constant_axis=(-1,), **_gmm_kwargs(a)),
    variants=('num_classes', 'affiliation'), anchored=False)


def _g_gmm_model(rng, v):
    a = _g_gmm_fit(rng, 'affiliation')
    m = _m_gmm.GMMTrainer().fit(a['y'].copy(), **_gmm_kwargs(clone(a)))
    return {'weight': np.asarray(m.weight), 'gaussian': _gauss_to_args(m.gaussian), 'x': a['y']}


add('gmm.GMM.predict', _g_gmm_model,
    lambda a: _m_gmm.GMM(weight=a['weight'], gaussian=_gauss(a['gaussian'])).predict(a['x']), anchored=False)


# ---- von Mises-Fisher / VMFMM
def _g_vmf(rng, v):
    lead, T, D, K = sizes(rng)
    return {'y': rn(rng, *lead, T, D), 'saliency': rng.random((*lead, T)) + 0.05 if v != 'no-saliency' else None}


add('von_mises_fisher.VonMisesFisherTrainer.fit', _g_vmf,
    lambda a: _m_vmf.VonMisesFisherTrainer().fit(a['y'], a['saliency']), variants=('saliency', 'no-saliency'), anchored=False)


def _vmf(p):
    return _m_vmf.VonMisesFisher(mean=p['mean'], concentration=p['concentration'])


def _g_vmf_model(rng, v):
    lead, T, D, K = sizes(rng, lead_choices=((2,), (1,)))
    return {'model': {'mean': _unit(rn(rng, *lead, D)), 'concentration': rng.random(lead) * 20 + 0.1}, 'y': rn(rng, *lead, T, D)}


add('von_mises_fisher.VonMisesFisher.log_pdf', _g_vmf_model, lambda a: _vmf(a['model']).log_pdf(a['y']), anchored=False)
add('von_mises_fisher.VonMisesFisher.pdf', _g_vmf_model, lambda a: _vmf(a['model']).pdf(a['y']), anchored=False)
add('von_mises_fisher.VonMisesFisher.log_norm', _g_vmf_model, lambda a: _vmf(a['model']).log_norm(), anchored=False)


def _g_vmfmm_fit(rng, v):
    lead, T, D, K = sizes(rng)
    a = {'y': rn(rng, *lead, T, D), 'iterations': int(rng.integers(1, 4))}
    if v == 'num_classes':
        a['num_classes'] = K
    else:
        a['initialization'] = simplex(rng, *lead, K, T)
    if v == 'saliency':
        a['saliency'] = rng.random((*lead, T)) + 0.05
    return a


add('vmfmm.VMFMMTrainer.fit', _g_vmfmm_fit,
    lambda a: _m_vmfmm.VMFMMTrainer().fit(a['y'], **kw(a, 'initialization', 'num_classes', 'iterations', 'saliency')),
    variants=('num_classes', 'affiliation', 'saliency'), anchored=False)
add('vmfmm.VMFMMTrainer.fit_predict', _g_vmfmm_fit,
    lambda a: _m_vmfmm.VMFMMTrainer().fit_predict(a['y'], **kw(a, 'initialization', 'num_classes', 'iterations', 'saliency')),
    variants=('num_classes', 'affiliation'), anchored=False)


def _g_vmfmm_model(rng, v):
    a = _g_vmfmm_fit(rng, 'affiliation')
    m = _m_vmfmm.VMFMMTrainer().fit(a['y'].copy(), initialization=a['initialization'].copy(), iterations=2)
    return {'weight': np.asarray(m.weight), 'vmf': {'mean': m.vmf.mean, 'concentration': m.vmf.concentration}, 'y': a['y']}


add('vmfmm.VMFMM.predict', _g_vmfmm_model,
    lambda a: _m_vmfmm.VMFMM(vmf=_vmf(a['vmf']), weight=a['weight']).predict(a['y']), anchored=False)


# ---- integration models
def _g_int_fit(rng, v):
    F, T, D, E, K = G.odd(rng, 1, 3), int(rng.integers(6, 10)), int(rng.integers(2, 4)), int(rng.integers(2, 4)), 2
    a = {'observation': cn(rng, F, T, D), 'embedding': rn(rng, F, T, E), 'iterations': int(rng.integers(1, 3))}
    if v == 'num_classes':
        a['num_classes'] = K
    else:
        a['initialization'] = simplex(rng, F, K, T)
    if v == 'saliency':
        a['saliency'] = rng.random((F, T)) + 0.05
    if v == 'inline-pa':
        a['inline_permutation_alignment'] = True
    if v == 'wca-3':
        a['weight_constant_axis'] = (-3,)
    return a


def _int_kwargs(a):
    return kw(a, 'initialization', 'num_classes', 'iterations', 'saliency', 'inline_permutation_alignment', 'weight_constant_axis')


add('gcacgmm.GCACGMMTrainer.fit', _g_int_fit,
    lambda a: _m_gcacgmm.GCACGMMTrainer().fit(a['observation'], a['embedding'], **_int_kwargs(a)),
    variants=('num_classes', 'affiliation', 'saliency', 'inline-pa', 'wca-3'), anchored=False)
add('gcacgmm.GCACGMMTrainer.fit_predict', _g_int_fit,
    lambda a: _m_gcacgmm.GCACGMMTrainer().fit_predict(a['observation'], a['embedding'], **_int_kwargs(a)),
    variants=('num_classes', 'affiliation'), anchored=False)
add('vmfcacgmm.VMFCACGMMTrainer.fit', _g_int_fit,
    lambda a: _m_vmfcacgmm.VMFCACGMMTrainer().fit(a['observation'], a['embedding'], **_int_kwargs(a)),
    variants=('num_classes', 'affiliation', 'saliency', 'inline-pa', 'wca-3'), anchored=False)
add('vmfcacgmm.VMFCACGMMTrainer.fit_predict', _g_int_fit,
    lambda a: _m_vmfcacgmm.VMFCACGMMTrainer().fit_predict(a['observation'], a['embedding'], **_int_kwargs(a)),
    variants=('num_classes', 'affiliation'), anchored=False)


# ---- complex circular symmetric Gaussian
def _g_ccsg(rng, v):
    lead, T, D, K = sizes(rng)
    return {'y': cn(rng, *lead, T, D), 'saliency': rng.random((*lead, T)) + 0.05 if v == 'saliency' else None,
            'covariance': hpd(rng, lead if v != 'sample' else (), D), 'size': (3,)}


add('complex_circular_symmetric_gaussian.ComplexCircularSymmetricGaussianTrainer.fit', _g_ccsg,
    lambda a: _m_ccsg.ComplexCircularSymmetricGaussianTrainer().fit(a['y'], a['saliency']),
    variants=('default', 'saliency'), anchored=False)
add('complex_circular_symmetric_gaussian.ComplexCircularSymmetricGaussian.log_pdf', _g_ccsg,
    lambda a: _m_ccsg.ComplexCircularSymmetricGaussian(covariance=a['covariance']).log_pdf(a['y']), anchored=False)
add('complex_circular_symmetric_gaussian.ComplexCircularSymmetricGaussian.sample', _g_ccsg,
    lambda a: _m_ccsg.ComplexCircularSymmetricGaussian(covariance=a['covariance']).sample(a['size']),
    variants=('sample',), anchored=False)

# ---- beamformer wrapper
BF_NAMES = ('pca', 'pca+ban', 'pca+mvdr', 'scaled_gev_atf+mvdr', 'mvdr_souden', 'rank1_pca+mvdr_souden',
            'rank1_gev+mvdr_souden', 'gev', 'gev+ban', 'rank1_pca+gev', 'rank1_gev+gev', 'wmwf', 'rank1_pca+wmwf',
            'rank1_gev+wmwf', 'ch0')
add('beamformer_wrapper.get_bf_vector', lambda rng, v: _g_bf(rng, 'default'),
    lambda a: _m_bfw.get_bf_vector(a['_variant'], a['target_psd_matrix'], a['noise_psd_matrix']),
    variants=BF_NAMES, anchored=False)
add('beamformer_wrapper.get_pca_rank_one_estimate', _g_bf,
    lambda a: _m_bfw.get_pca_rank_one_estimate(a['target_psd_matrix']), anchored=False)
add('beamformer_wrapper.get_gev_rank_one_estimate', _g_bf,
    lambda a: _m_bfw.get_gev_rank_one_estimate(a['target_psd_matrix'], a['noise_psd_matrix']), anchored=False)
add('beamformer_wrapper._get_response_vector', lambda rng, v: {'source_index': 1},
    lambda a: _m_bfw._get_response_vector(a['source_index'], 3), anchored=False)


# ============================================================================= coverage of the public surface
ANCHOR_MODULES = ('cacgmm', 'cwmm', 'cbmm', 'complex_watson', 'complex_bingham', 'complex_angular_central_gaussian',
                  'beamformer', 'mask_module', 'permutation_alignment', 'sxr_module')
_ANCHOR_OBJS = {'cacgmm': _m_cacgmm, 'cwmm': _m_cwmm, 'cbmm': _m_cbmm, 'complex_watson': _m_cw, 'complex_bingham': _m_cb,
                'complex_angular_central_gaussian': _m_cacg, 'beamformer': _m_bf, 'mask_module': _m_mask,
                'permutation_alignment': _m_pa, 'sxr_module': _m_sxr}
EXCLUDED = {
    'complex_bingham.ComplexBinghamTrainer.find_eigenvalues_sympy': 'needs sympy (not installed); documented as unusable for D >= 5',
    'complex_bingham.ComplexBinghamTrainer.grad_log_norm': 'needs sympy (not installed)',
    'complex_bingham.ComplexBinghamTrainer.eigenvalues_symbol': 'needs sympy (not installed)',
    'complex_bingham.ComplexBinghamTrainer.grad_log_norm_symbolic': 'needs sympy (not installed)',
    'complex_bingham.ComplexBinghamTrainer._doctest_grad_log_norm_symbolic': 'doctest holder, no body',
    'permutation_alignment._PermutationAlignment.calculate_mapping': 'abstract (raises NotImplementedError)',
    'cwmm.CWMMTrainer.__init__': 'stores scalars only; exercised by every CWMMTrainer entry',
    'cbmm.CBMMTrainer.__init__': 'stores scalars only; exercised by every CBMMTrainer entry',
    'complex_watson.ComplexWatsonTrainer.__init__': 'stores scalars only; exercised by every ComplexWatsonTrainer entry',
    'complex_bingham.ComplexBinghamTrainer.__init__': 'stores scalars only; exercised by every ComplexBinghamTrainer entry',
    'complex_bingham.ComplexBingham.__post_init__': 'exercised as complex_bingham.ComplexBingham.__init__',
    'permutation_alignment.GreedyPermutationAlignment.__init__': 'stores names only; exercised by calculate_mapping',
    'permutation_alignment.OraclePermutationAlignment.__init__': 'stores names only; exercised by calculate_mapping',
}


def public_surface():
    """qualified names of functions / methods / properties defined in the anchored modules (current working tree)"""
    out = []
    for short, mod in _ANCHOR_OBJS.items():
        for n, o in vars(mod).items():
            if getattr(o, '__module__', None) != mod.__name__:
                continue
            if inspect.isfunction(o):
                out.append(f'{short}.{n}')
            elif inspect.isclass(o):
                if issubclass(o, tuple):
                    continue  # namedtuple result type
                gen_by_dataclass = {'__init__', '__repr__', '__eq__'} if dataclasses.is_dataclass(o) else set()
                for mn, mo in vars(o).items():
                    f = mo.__func__ if isinstance(mo, (classmethod, staticmethod)) else mo
                    isprop = isinstance(mo, property) or type(mo).__name__ == 'cached_property'
                    if not (inspect.isfunction(f) or isprop):
                        continue
                    if mn in gen_by_dataclass:
                        continue
                    if mn.startswith('__') and mn not in ('__init__', '__call__', '__post_init__'):
                        continue
                    out.append(f'{short}.{n}.{mn}')
    return out


def uncovered():
    have = {k.split('[')[0] for k in REG}
    return [q for q in public_surface() if q not in have and q not in EXCLUDED]


# ============================================================================= trainer reuse (history) driver
TRAINERS = {'CWMMTrainer': _m_cwmm.CWMMTrainer, 'CBMMTrainer': _m_cbmm.CBMMTrainer,
            'ComplexWatsonTrainer': _m_cw.ComplexWatsonTrainer, 'ComplexBinghamTrainer': _m_cb.ComplexBinghamTrainer}


def g_trainer_fit(rng, kind, D, base=None):
    """one fit specification for trainer `kind` with feature dimension D (optionally the same data as `base`)"""
    if base is not None and base['y'].shape[-1] == D:
        r = rng.random()
        if r < 0.4:
            return clone(base)
        if r < 0.65:
            # nearly, but not exactly, the statistics of an earlier fit (the same recording after a single-precision round
            # trip, or a second take): whatever a trainer memoises must not be keyed by rounded statistics
            b = clone(base)
            y = b['y']
            b['y'] = y.astype(np.complex64).astype(np.complex128) if rng.random() < 0.5 \
                else y * (1 + 10.0 ** rng.uniform(-9, -6) * rng.standard_normal(y.shape))
            return b
    if kind in ('CWMMTrainer', 'CBMMTrainer'):
        v = pick(rng, ['num_classes', 'affiliation', 'saliency', 'wca-3', 'wca-list', 'aligner', 'wca-2'])
        a = g_mm_fit(rng, v, D=D)
        a.pop('ctor')
        a['_seed'] = int(rng.integers(0, 2 ** 31 - 1))
        a['_variant'] = v
        return a
    lead, T, _, K = sizes(rng, lead_choices=((), (2,), (1,)))
    T = max(T, D + 3)
    return {'y': cn(rng, *lead, T, D), 'saliency': rng.random((*lead, T)) + 0.05 if rng.random() < 0.5 else None,
            '_seed': 0, '_variant': 'fit'}


def trainer_fit(trainer, kind, spec):
    """run one fit on `trainer` (fresh argument buffers, seeded). Returns ('ok', model) / ('reject', msg) / ('error', exc)"""
    a = clone(spec)
    np.random.seed(int(spec.get('_seed', 0)) % (2 ** 32))
    try:
        if kind in ('CWMMTrainer', 'CBMMTrainer'):
            return 'ok', trainer.fit(a['y'], iterations=a['iterations'], **mm_fit_kwargs(a))
        return 'ok', trainer.fit(a['y'], saliency=a['saliency'])
    except AssertionError as e:
        if 'different dimension' in str(e):
            return 'reject', str(e)[:60]
        return 'error', e
    except Exception as e:  # noqa
        return 'error', e


def trainer_state(trainer, kind):
    """(dimension, dimension the cached table was built for or None, cached table object)"""
    d = vars(trainer)
    if kind == 'CWMMTrainer':
        inner = d.get('complex_watson_trainer')
    elif kind == 'CBMMTrainer':
        inner = d.get('complex_bingham_trainer')
    else:
        inner = trainer if ('spline' in d or kind == 'ComplexBinghamTrainer') else None
        if kind == 'ComplexBinghamTrainer':
            inner = None      # no cached table of its own (symbolic tables need sympy)
    return trainer.dimension, (inner.dimension if inner is not None else None), inner


# ============================================================================= split fits
def compositions(n):
    """all compositions (ordered sums of positive integers) of n"""
    if n == 0:
        yield ()
        return
    for first in range(1, n + 1):
        for rest in compositions(n - first):
            yield (first,) + rest


def cacgmm_fit_from(a, init, iterations):
    """CACGMMTrainer().fit on fresh copies of the data/options of `a`, started from `init` (affiliation array, model or
    {'num_classes': K})"""
    b = clone({k: v for k, v in a.items() if k not in ('model', 'initialization', 'num_classes')})
    if isinstance(init, dict):
        np.random.seed(int(a.get('_seed', 0)) % (2 ** 32))
        ini = {'num_classes': init['num_classes']}
    elif isinstance(init, np.ndarray):
        ini = {'initialization': init.copy()}
    else:
        ini = {'initialization': init}
    return _m_cacgmm.CACGMMTrainer().fit(b['y'], iterations=iterations, **ini, **cacgmm_fit_kwargs(b))


# ============================================================================= translator soundness corpus
# Small functions that DO (m_*) or do NOT (p_*) modify their arguments through the routes the translator has to follow.
# c20.corr runs each one on real arrays and requires: bytes of argument X changed  =>  the translator reports X.
SYNTH_SRC = '''
import numpy as np
import operator
from dataclasses import dataclass


def m_aug(a, b):
    a *= 2
    return a


def m_view_chain(a, b):
    x = a.T
    y = x[1:]
    z = np.reshape(y[0], (-1,))
    z[0] = 7
    return b


def m_loop_rotate(a, b):
    x = np.zeros(3)
    y = np.zeros(3)
    z = a[0]
    for i in range(4):
        x, y, z = z, x, y
    x += 1
    return b


def m_loop_break(a, b):
    x = np.zeros(3)
    for i in range(3):
        x = a[i]
        if i == 1:
            break
        x = np.zeros(3)
    x[...] = 5
    return x


def m_while_continue(a, b):
    i = 0
    x = np.ones(3)
    while i < 2:
        i += 1
        if i == 2:
            x = b[0]
            continue
        x = x * 1
    x -= 1
    return None


def m_try(a, b):
    x = np.zeros(3)
    try:
        x = a[1]
        raise ValueError()
    except ValueError:
        x += 1
    return x


def m_out_kw(a, b):
    np.exp(b, out=b)
    return b


def m_out_pos_callee(a, b):
    _helper_fill(b[1])
    return a


def _helper_fill(v):
    v.fill(3.)


def m_list_element(a, b):
    xs = [a, np.zeros(2)]
    xs[0][0, 0] = 9
    return xs


def m_list_append(a, b):
    xs = []
    xs.append(b)
    for x in xs:
        x[0] = 1
    return None


def m_dict_value(a, b):
    d = {'k': a}
    v = d['k']
    v /= 2
    return d


def m_tuple_unpack(a, b):
    t = (a, b)
    x, y = t
    y[0, 0] = -1
    return x


def m_comprehension(a, b):
    rows = [r for r in a]
    rows[1] *= 0
    return rows


def m_nested_function(a, b):
    def inner(v):
        v[0] = 4
    inner(a)
    return b


def m_closure(a, b):
    def inner():
        b[1, 1] = 4
    inner()
    return a


def m_lambda(a, b):
    f = lambda v: v.fill(0.)
    f(a[0])
    return b


def m_ifexp(a, b):
    x = a if a.sum() > -1e300 else np.zeros(3)
    x[0, 0] = 1
    return x


def m_boolop(a, b):
    x = None or b
    x[0] = 2
    return x


def m_ufunc_at(a, b):
    np.add.at(a, [0], 1.)
    return a


def m_fill_diagonal(a, b):
    sq = a[:3, :3]
    np.fill_diagonal(sq, 0)
    return sq


def m_copyto(a, b):
    np.copyto(b, 0.)


def m_real_assign(a, b):
    a.real = 3.


def m_shape_assign(a, b):
    b.shape = (3, 4)


def m_asarray(a, b):
    x = np.asarray(a)
    x = np.ascontiguousarray(x)
    x = np.squeeze(np.expand_dims(x, 0), 0)
    x += 1
    return x


def m_einsum_view(a, b):
    x = np.einsum('ij->ji', a)
    x[0, 0] = 11
    return x


def m_setitem_dunder(a, b):
    a.__setitem__(0, 1.)
    b.__imul__(2)


def m_operator_iadd(a, b):
    operator.iadd(a, 1)


def m_with(a, b):
    with np.errstate(all='ignore'):
        v = b[0]
        v /= 2
    return v


def m_walrus(a, b):
    if (x := a[0]) is not None:
        x[0] = 1
    return x


def m_star_args(a, b):
    _helper_star(*[a, b])


def _helper_star(x, y):
    y += 1


def m_kwargs(a, b):
    _helper_star(x=a, y=b)


@dataclass
class Box:
    arr: np.ndarray = None

    def scale(self):
        self.arr *= 2

    @property
    def view(self):
        return self.arr[0]


def m_method(a, b):
    Box(arr=a).scale()


def m_property(a, b):
    v = Box(arr=b).view
    v[0] = 1


def m_attribute_store(a, b):
    box = Box()
    box.arr = a
    box.arr[0] = 1


def m_generator(a, b):
    for v in _gen(a):
        v[0] = 3


def _gen(a):
    for r in a:
        yield r


def m_swap_through_loop_head(a, b):
    x = np.zeros((4, 3))
    for i in range(2):
        x[0] = 1
        x = a
    return x


def m_del_item(a, b):
    xs = [a, b]
    ys = xs
    ys[0][0] = 1
    return ys


def p_copy(a, b):
    x = np.copy(a)
    x *= 2
    return x


def p_arith(a, b):
    x = a * 2
    x -= b
    return x


def p_fresh_list(a, b):
    xs = [a, b]
    xs[0] = None
    return len(xs)


def p_array_copy(a, b):
    x = np.array(a, copy=True)
    x[1:] *= 2
    y = b.copy()
    y.sort()
    return x, y


def p_loop_fresh(a, b):
    acc = np.zeros(3)
    for r in a:
        acc += r
    return acc
'''

"""Option / dtype coverage of the harness (development aid, VERIF_RECORD=1): which keyword options of the anchored pb_bss
functions were ever called with a non-default value, and which array dtypes / ranks each function saw.  Implemented with
sys.setprofile on the code objects of pb_bss (no wrapping, so `from x import f` aliases are covered).  Never part of a verdict."""
import atexit
import inspect
import json
import os
import sys
import threading

import numpy as np

_T = {}      # code object -> (qualname, {param: default})
_R = {}      # qualname -> {'calls': n, 'nondefault': {param: {repr,...}}, 'dtypes': {param: set}, 'ndims': {param: set}}


def _register(fn, qual):
    try:
        sig = inspect.signature(fn)
    except (TypeError, ValueError):
        return
    code = getattr(fn, '__code__', None)
    if code is None:
        return
    _T[code] = (qual, {k: p.default for k, p in sig.parameters.items() if p.default is not inspect.Parameter.empty},
                [k for k, p in sig.parameters.items() if p.kind in (p.POSITIONAL_OR_KEYWORD, p.KEYWORD_ONLY)])


def _short(v):
    if v is None or isinstance(v, (bool, int, float, str)):
        return repr(v)[:40]
    if isinstance(v, (tuple, list)) and len(v) <= 4 and all(isinstance(x, (int, float, str, bool)) for x in v):
        return repr(v)[:40]
    if isinstance(v, np.ndarray):
        return f'ndarray[{v.dtype},{v.ndim}d]'
    return type(v).__name__


def _prof(frame, event, arg):
    if event != 'call':
        return
    t = _T.get(frame.f_code)
    if t is None:
        return
    qual, defaults, params = t
    r = _R.setdefault(qual, {'calls': 0, 'nondefault': {}, 'dtypes': {}, 'ndims': {}, 'flags': {}})
    r['calls'] += 1
    loc = frame.f_locals
    for k in params:
        if k not in loc:
            continue
        v = loc[k]
        if k in defaults:
            d = defaults[k]
            same = (v is d) or (type(v) is type(d) and not isinstance(v, np.ndarray) and v == d)
            if not same:
                s = r['nondefault'].setdefault(k, set())
                if len(s) < 12:
                    s.add(_short(v))
        if isinstance(v, np.ndarray):
            r['dtypes'].setdefault(k, set()).add(str(v.dtype))
            r['ndims'].setdefault(k, set()).add(v.ndim)
            f = r['flags'].setdefault(k, set())
            if not v.flags.c_contiguous and v.ndim > 1:
                f.add('non-contiguous')
            if not v.flags.writeable:
                f.add('read-only')


def install(repo, out_path):
    import importlib
    import pkgutil
    import pb_bss
    for m in pkgutil.walk_packages(pb_bss.__path__, 'pb_bss.'):
        if any(x in m.name for x in ('.testing', 'cythonized', '.transform')):
            continue
        try:
            mod = importlib.import_module(m.name)
        except Exception:  # noqa
            continue
        for name, obj in vars(mod).items():
            if inspect.isfunction(obj) and obj.__module__ == mod.__name__:
                _register(obj, f'{mod.__name__}.{name}')
            elif inspect.isclass(obj) and obj.__module__ == mod.__name__:
                for n2, o2 in vars(obj).items():
                    f = o2.__func__ if isinstance(o2, (classmethod, staticmethod)) else o2
                    if inspect.isfunction(f):
                        _register(f, f'{mod.__name__}.{name}.{n2}')
    sys.setprofile(_prof)
    threading.setprofile(_prof)

    def dump():
        sys.setprofile(None)
        out = {'functions': {q: {'defaults': {k: _short(v) for k, v in d.items()}} for _, (q, d, _p) in _T.items()},
               'seen': {q: {'calls': r['calls'],
                            'nondefault': {k: sorted(v) for k, v in r['nondefault'].items()},
                            'dtypes': {k: sorted(v) for k, v in r['dtypes'].items()},
                            'ndims': {k: sorted(v) for k, v in r['ndims'].items()},
                            'flags': {k: sorted(v) for k, v in r['flags'].items()}} for q, r in _R.items()}}
        os.makedirs(os.path.dirname(out_path), exist_ok=True)
        json.dump(out, open(out_path, 'w'), indent=0)
    atexit.register(dump)

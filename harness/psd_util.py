"""Generators and loop-level references shared by the C10 (PSD) and C13 (beamforming helpers) checks.

Everything here is written from the *definitions* in the property texts (explicit sums over frames / sensors, explicit
per-index loops), never by calling the library routine under test.
"""
import itertools

import numpy as np

FLOOR = 1e-10          # literal in pb_bss/extraction/beamformer.py: np.maximum(np.sum(mask, ...), 1e-10)


def cnormal(rng, shape):
    return rng.normal(size=shape) + 1j * rng.normal(size=shape)


# ----------------------------------------------------------------------------- axis layouts (C10)
def canon_to_layout(a, pos_axis, pos_time):
    """canonical array (*lead, A, T) -> the same data with axis A at position `pos_axis` and T at `pos_time`
    (non-negative positions); the leading axes keep their relative order in the remaining positions."""
    return np.moveaxis(a, [-2, -1], [pos_axis, pos_time])


def layout_to_canon(a, pos_axis, pos_time):
    return np.moveaxis(a, [pos_axis, pos_time], [-2, -1])


def all_obs_layouts(n):
    """all (sensor position, time position) pairs of an n-dimensional observation"""
    return list(itertools.permutations(range(n), 2))


def as_dim(rng, pos, n):
    """a position written the way a caller may write it: non-negative or negative"""
    return int(pos) if rng.random() < 0.5 else int(pos) - n


def ref_weights(mask_c, normalize):
    """mask (*lead, [K,] T) -> weights: float64 copy, divided by max(sum over frames, 1e-10) when normalize"""
    w = np.array(mask_c, dtype=np.float64)
    if normalize:
        s = np.zeros(w.shape[:-1])
        for t in range(w.shape[-1]):
            s = s + w[..., t]
        w = w / np.maximum(s, FLOOR)[..., None]
    return w


def ref_psd(obs_c, mask_c, normalize):
    """the defining sum. obs_c (*lead, D, T); mask_c None | (*lead, T) | (*lead, K, T)  (canonical layout).
    Returns (*lead, D, D) or (*lead, K, D, D):  sum_t w[t] x[d, t] conj(x[e, t])."""
    T = obs_c.shape[-1]
    x = obs_c.astype(np.complex128)
    if mask_c is None:
        out = np.zeros(x.shape[:-2] + (x.shape[-2],) * 2, dtype=np.complex128)
        for t in range(T):
            out = out + x[..., :, None, t] * np.conj(x[..., None, :, t])
        return out / T
    w = ref_weights(mask_c, normalize)
    if w.ndim == x.ndim - 1:
        out = np.zeros(x.shape[:-2] + (x.shape[-2],) * 2, dtype=np.complex128)
        for t in range(T):
            out = out + w[..., t][..., None, None] * (x[..., :, None, t] * np.conj(x[..., None, :, t]))
        return out
    out = np.zeros(w.shape[:-1] + (x.shape[-2],) * 2, dtype=np.complex128)
    for t in range(T):
        outer = x[..., :, None, t] * np.conj(x[..., None, :, t])           # (*lead, D, D)
        out = out + w[..., t][..., None, None] * outer[..., None, :, :]
    return out


OBS_KINDS = ['normal', 'normal', 'normal', 'scaled', 'integer', 'zero-frames', 'dup-frames', 'real', 'rank-one']


def gen_obs(rng, lead, D, T, kind=None):
    kind = str(kind or rng.choice(OBS_KINDS))
    shape = tuple(lead) + (D, T)
    if kind == 'normal':
        x = cnormal(rng, shape)
    elif kind == 'scaled':
        x = cnormal(rng, shape) * 10.0 ** float(rng.integers(-100, 101))
    elif kind == 'integer':
        x = rng.integers(-3, 4, size=shape) + 1j * rng.integers(-3, 4, size=shape)
    elif kind == 'zero-frames':
        x = cnormal(rng, shape)
        x[..., rng.random(T) < 0.5] = 0
    elif kind == 'dup-frames':
        x = cnormal(rng, shape)
        x[..., :] = x[..., :1]
    elif kind == 'real':
        x = rng.normal(size=shape) + 0j
    elif kind == 'rank-one':
        x = cnormal(rng, tuple(lead) + (D, 1)) * cnormal(rng, tuple(lead) + (1, T))
    else:
        raise ValueError(kind)
    return np.ascontiguousarray(x.astype(np.complex128)), kind


MASK_KINDS = ['uniform', 'uniform', 'normalised', 'boolean', 'boolean', 'all-zero', 'some-zero', 'tiny', 'integer',
              'one-hot', 'float32', 'large']


def gen_mask(rng, lead, K, T, kind=None):
    """mask in canonical layout (*lead, T) if K is None else (*lead, K, T); non-negative"""
    kind = str(kind or rng.choice(MASK_KINDS))
    shape = tuple(lead) + ((T,) if K is None else (K, T))
    if kind == 'uniform':
        m = rng.random(shape)
    elif kind == 'normalised':
        m = rng.random(shape) + 1e-3
        if K is not None:
            m = m / m.sum(-2, keepdims=True)
    elif kind == 'boolean':
        m = rng.random(shape) < rng.choice([0.2, 0.5, 0.9])
    elif kind == 'all-zero':
        m = np.zeros(shape) if rng.random() < 0.5 else np.zeros(shape, dtype=bool)
    elif kind == 'some-zero':
        m = rng.random(shape)
        m[rng.random(shape[:-1]) < 0.5] = 0
    elif kind == 'tiny':
        m = rng.random(shape) * 10.0 ** float(rng.integers(-14, -8))
    elif kind == 'integer':
        m = rng.integers(0, 4, size=shape).astype(np.float64)
    elif kind == 'one-hot':
        m = np.zeros(shape)
        idx = rng.integers(0, T, size=shape[:-1])
        np.put_along_axis(m, idx[..., None], 1.0, axis=-1)
    elif kind == 'float32':
        m = rng.random(shape).astype(np.float32)
    elif kind == 'large':
        m = rng.random(shape) * 10.0 ** float(rng.integers(3, 30))
    else:
        raise ValueError(kind)
    return np.ascontiguousarray(m), kind


def gen_lead(rng, nlead, small=True):
    hi = 4 if small else 5
    return tuple(int(rng.integers(1, hi)) for _ in range(nlead))


# ----------------------------------------------------------------------------- Hermitian matrices (C10 / C13)
def hpd(rng, D, cond=None):
    """Hermitian positive definite (D, D) with a moderate condition number"""
    cond = cond or 10.0 ** float(rng.uniform(0, 3))
    a = cnormal(rng, (D, D))
    q, _ = np.linalg.qr(a)
    ev = np.exp(np.linspace(0, np.log(cond), D)) if D > 1 else np.ones(1)
    ev = ev * np.exp(rng.normal() * 0.5)
    m = (q * ev) @ q.conj().T
    return (m + m.conj().T) / 2


def hpd_stack(rng, lead, D):
    out = np.zeros(tuple(lead) + (D, D), dtype=np.complex128)
    for idx in np.ndindex(*lead):
        out[idx] = hpd(rng, D)
    return out


SINGULAR_KINDS = ['zero', 'rank-one', 'rank-deficient', 'dead-channel', 'duplicate-channel', 'integer-rank-one']


def singular_psd(rng, D, kind):
    """a Hermitian positive SEMI-definite singular (D, D) matrix"""
    if kind == 'zero':
        return np.zeros((D, D), dtype=np.complex128)
    if kind == 'rank-one':
        a = cnormal(rng, (D,))
        return np.outer(a, a.conj())
    if kind == 'rank-deficient':
        r = int(rng.integers(1, D))
        a = cnormal(rng, (D, r))
        return a @ a.conj().T
    if kind == 'dead-channel':
        m = hpd(rng, D)
        i = int(rng.integers(D))
        m[i, :] = 0
        m[:, i] = 0
        return m
    if kind == 'duplicate-channel':
        a = cnormal(rng, (D, D + 2))
        a[1] = a[0]
        return a @ a.conj().T
    if kind == 'integer-rank-one':                 # exactly singular as a matrix of doubles
        a = rng.integers(1, 10, size=D) + 1j * rng.integers(-3, 4, size=D)
        return np.outer(a, a.conj())
    raise ValueError(kind)


def rel_err(a, b):
    """max |a-b| relative to max(|a|, |b|) (0 for two all-zero arrays)"""
    a = np.asarray(a)
    b = np.asarray(b)
    if a.shape != b.shape:
        return np.inf
    if a.size == 0:
        return 0.0
    s = max(float(np.max(np.abs(a))), float(np.max(np.abs(b))))
    if s == 0:
        return 0.0
    if not np.isfinite(s):
        return np.inf
    return float(np.max(np.abs(a - b))) / s

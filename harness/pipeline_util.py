"""Helpers of the C17 check (documented end-to-end pipeline on a synthetic separable scene).

Everything in here is either a *generator* (scene, permutation field, DHTV plan inside the quantifier domain
of C17 / C16) or a thin composition of PUBLIC pb_bss entry points in the order documented by
`examples/mixture_model_example.ipynb` and the docstrings of `pb_bss.extraction`:

    trainer.fit(Y (F,T,D), initialization=(F,K,T)) -> model.predict -> (F,K,T)
    -> transpose (K,F,T) -> DHTVPermutationAlignment -> OraclePermutationAlignment (global: F and T joined)
    -> transpose (F,K,T) -> get_power_spectral_density_matrix(Y (F,D,T), mask) -> (F,K,D,D)
    -> get_bf_vector(name, target (F,D,D), noise (F,D,D)) -> (F,D) -> apply_beamforming_vector -> output_sxr
"""
import numpy as np

# ----------------------------------------------------------------------------- beamformer names
# "each interference-cancelling beamformer (Souden MVDR, GEV with or without BAN, rank-one variants, WMWF)":
# every name get_bf_vector accepts except the two that do not look at the interference at all ('pca', 'ch<N>');
# 'pca+mvdr' / 'scaled_gev_atf+mvdr' are the MVDR built on a rank-one (ATF) model of the target.
BEAMFORMERS = (
    'mvdr_souden',
    'mvdr_souden+ban',
    'gev',
    'gev+ban',
    'wmwf',
    'rank1_pca+mvdr_souden',
    'rank1_gev+mvdr_souden',
    'rank1_pca+mvdr_souden+ban',
    'rank1_gev+mvdr_souden+ban',
    'rank1_pca+gev',
    'rank1_gev+gev',
    'rank1_pca+gev+ban',
    'rank1_gev+gev+ban',
    'rank1_pca+wmwf',
    'rank1_gev+wmwf',
    'pca+mvdr',
    'scaled_gev_atf+mvdr',
)
MODELS = ('cacgmm', 'cwmm')


def cnormal(rng, *shape):
    return (rng.normal(size=shape) + 1j * rng.normal(size=shape)) / np.sqrt(2)


# ----------------------------------------------------------------------------- DHTV plans inside C16's domain
def plan_overlaps(plan):
    """for every later segment: |segment ∩ union(earlier segments)| / |segment|  (list of fractions)"""
    done = set(range(plan[0][1], plan[0][2]))
    out = []
    for _, lo, hi in plan[1:]:
        seg = set(range(lo, hi))
        out.append(len(seg & done) / max(1, len(seg)))
        done |= seg
    return out


def plan_covers(plan, F):
    done = set()
    for _, lo, hi in plan:
        done |= set(range(lo, hi))
    return done >= set(range(F))


def plan_in_domain(plan, F):
    """C16 premise: the plan covers every bin and every later segment overlaps the already aligned band by >= 2/3"""
    return plan_covers(plan, F) and all(o >= 2 / 3 - 1e-12 for o in plan_overlaps(plan))


def dhtv_cfg(rng, F, shipped_ok=True):
    """DHTV configuration for F bins: the shipped default for F = 257 / 513, otherwise (or with probability 1/2)
    a custom plan with shift <= width/3 whose later segments overlap the aligned band by >= 2/3."""
    from pb_bss.permutation_alignment import DHTVPermutationAlignment
    stft = 2 * (F - 1)
    if shipped_ok and stft in (512, 1024) and rng.random() < 0.5:
        d = DHTVPermutationAlignment.from_stft_size(stft)
        return dict(stft_size=stft, segment_start=d.segment_start, segment_width=d.segment_width,
                    segment_shift=d.segment_shift, main_iterations=d.main_iterations,
                    sub_iterations=d.sub_iterations), 'shipped'
    for _ in range(1000):
        width = int(rng.integers(max(9, F // 5), max(10, F // 2) + 1))
        start = int(rng.integers(0, F - width + 1))
        shift = int(rng.integers(1, width // 3 + 1))
        cfg = dict(stft_size=stft, segment_start=start, segment_width=width, segment_shift=shift,
                   main_iterations=20, sub_iterations=2)
        # the documented plan construction (not the library's own alignment_plan: the configuration domain must
        # not depend on the code under test)
        from .pyref import ref_plan
        plan = ref_plan(F, start, width, shift, 20, 2)
        if plan_in_domain(plan, F):
            return cfg, 'custom'
    raise RuntimeError('no DHTV plan inside the domain found')


def perm_field(rng, K, F, plan, majority=None):
    """(K, F) per-frequency permutation field: >= 70 % of the bins of the first DHTV segment carry one common
    order (a random one), everything else is arbitrary (uniform random permutations)."""
    _, lo, hi = plan[0]
    perm = np.stack([rng.permutation(K) for _ in range(F)], axis=1)
    frac = float(rng.uniform(0.70, 1.0)) if majority is None else majority
    n = int(np.ceil(frac * (hi - lo) - 1e-9))
    keep = rng.permutation(np.arange(lo, hi))[:n]
    common = rng.permutation(K)
    perm[:, keep] = common[:, None]
    return perm


def majority_fraction(perm, plan):
    _, lo, hi = plan[0]
    cols = [tuple(perm[:, f]) for f in range(lo, hi)]
    return max(cols.count(c) for c in set(cols)) / len(cols)


# ----------------------------------------------------------------------------- scene
def activity(rng, K, T, min_frac=0.15):
    """random partition of the frames: owner[t] in 0..K-1, every source active in >= 15 % of the frames"""
    need = int(np.ceil(min_frac * T))
    kind = rng.choice(['iid', 'dirichlet', 'blocks'])
    for _ in range(1000):
        if kind == 'iid':
            owner = rng.integers(0, K, size=T)
        elif kind == 'dirichlet':
            p = rng.dirichlet(np.ones(K) * 2)
            owner = rng.choice(K, size=T, p=p)
        else:   # speech-like: runs of frames
            owner = np.zeros(T, dtype=np.int64)
            t = 0
            while t < T:
                n = int(rng.integers(1, 12))
                owner[t:t + n] = rng.integers(0, K)
                t += n
        if all(np.sum(owner == k) >= need for k in range(K)):
            return owner.astype(np.int64), str(kind)
        kind = 'iid' if _ > 50 else kind
    raise RuntimeError('no activity partition found')


ZF_GAIN_MAX = 10.0


def zf_gain(steering):
    """(..., K, D) steering vectors -> (...,) max_k ||v_ZF,k||^2 for unit-norm steering vectors, i.e. the largest
    diagonal entry of the inverse Gram matrix of the normalised vectors (K = 2: 1 / (1 - |cos|^2))."""
    A = steering / np.linalg.norm(steering, axis=-1, keepdims=True)
    G = np.einsum('...kd,...jd->...kj', A.conj(), A)
    Gi = np.linalg.inv(G)
    return np.max(np.real(np.einsum('...kk->...k', Gi)), axis=-1)


def steering_vectors(rng, F, K, D):
    """complex Gaussian steering vectors per bin, conditioned on the separability premise of `C17.sir_30dB`:
    a zero-forcing vector of squared norm <= 10 exists for every source (bins violating it are redrawn; for
    D = K + 1 = 3 that is about 1 % of the bins, far less for larger D)."""
    st = cnormal(rng, F, K, D)
    for _ in range(1000):
        bad = np.flatnonzero(zf_gain(st) > ZF_GAIN_MAX)
        if bad.size == 0:
            return st
        st[bad] = cnormal(rng, bad.size, K, D)
    raise RuntimeError('no separable steering vectors found')


def make_scene(rng, K, D, F, T, noise_db):
    """steering (F,K,D), owner (T,), source (F,T), noise (F,D,T): sources disjoint in time-frequency,
    sensor noise `noise_db` (<= -40) relative to the weakest source image (mean power per sensor)."""
    steering = steering_vectors(rng, F, K, D)
    owner, akind = activity(rng, K, T)
    gains = rng.uniform(0.7, 1.4, size=K)
    source = cnormal(rng, F, T) * rng.uniform(0.5, 1.5, size=(F, T)) * gains[owner][None, :]
    images = source_images(steering, owner, source)
    pk = [np.mean(np.abs(images[k][:, :, owner == k]) ** 2) for k in range(K)]
    noise = cnormal(rng, F, D, T) * np.sqrt(min(pk) * 10 ** (noise_db / 10))
    return steering, owner, source, noise, akind


def source_images(steering, owner, source):
    """(K, F, D, T) images: image_k[f,:,t] = steering[f,k,:] * source[f,t] * [owner[t] == k]"""
    F, K, D = steering.shape
    act = (owner[None, :] == np.arange(K)[:, None])          # K, T
    return steering.transpose(1, 0, 2)[:, :, :, None] * (source[None, :, None, :] * act[:, None, None, :])


def scene_in_domain(steering, owner, source, noise):
    """re-check the premises of the quantifier on the arrays the oracle receives"""
    F, K, D = steering.shape
    T = owner.shape[0]
    if not (2 <= K <= 3 and K + 1 <= D <= 8 and F in (33, 65, 257) and 60 <= T <= 200):
        return 'sizes outside K 2..3, D K+1..8, F in {33,65,257}, T 60..200'
    if any(np.sum(owner == k) < np.ceil(0.15 * T) for k in range(K)):
        return 'a source is active in < 15 % of the frames'
    if not np.all(zf_gain(steering) <= ZF_GAIN_MAX * (1 + 1e-9)):
        return 'a bin has nearly collinear steering vectors (no zero-forcing vector with squared norm <= 10)'
    images = source_images(steering, owner, source)
    pn = np.mean(np.abs(noise) ** 2)
    for k in range(K):
        pk = np.mean(np.abs(images[k][:, :, owner == k]) ** 2)
        if not pn <= pk * 10 ** (-40 / 10) * (1 + 0.05):     # sample noise power vs nominal level: 5 % slack on the estimate
            return 'noise is less than 40 dB below a source'
    return None


# ----------------------------------------------------------------------------- the documented chain
def start_masks(owner, perm, blur, K, F):
    """per-frequency permuted, blurred partition, shape (F, K, T): class c of bin f starts as source perm[c, f]"""
    truth = (owner[None, :] == np.arange(K)[:, None]).astype(np.float64)        # K, T
    soft = blur * truth + (1 - blur) / K
    return np.stack([soft[perm[:, f]] for f in range(F)])


def fit_predict(model, Y_ftd, init, iterations, entry='fit+predict'):
    from pb_bss.distribution import CACGMMTrainer, CWMMTrainer
    if model == 'cacgmm':
        tr = CACGMMTrainer()
    elif model == 'cwmm':
        tr = CWMMTrainer()
    else:
        raise ValueError(model)
    if entry == 'fit_predict':       # the trainer's own convenience entry point
        return tr.fit_predict(Y_ftd, initialization=init, iterations=iterations)
    m = tr.fit(Y_ftd, initialization=init, iterations=iterations)
    return m.predict(Y_ftd)          # (F, K, T)


def align(post_fkt, dhtv, truth_kft, Y_fdt, images, global_variant):
    """DHTV over frequency, then ONE global permutation from oracle information. Returns (K,F,T) masks,
    the DHTV mapping (K,F) and the global mapping (K,)."""
    from pb_bss.permutation_alignment import DHTVPermutationAlignment, OraclePermutationAlignment
    K, F, T = truth_kft.shape
    masks = post_fkt.transpose(1, 0, 2)                                       # 'f k t -> k f t'
    pa = DHTVPermutationAlignment(**dhtv)
    mapping = pa.calculate_mapping(masks)
    aligned = pa.apply_mapping(masks, mapping)
    if global_variant.startswith('masks-'):
        # docstring of OraclePermutationAlignment.calculate_mapping: join the frequency and frame axes
        metric = global_variant.split('-')[1]
        gmap = OraclePermutationAlignment(metric).calculate_mapping(
            aligned.reshape(K, F * T), truth_kft.reshape(K, F * T))
    elif global_variant == 'notebook':
        # examples/mixture_model_example.ipynb: mask * observation against the source images, default metric
        est = (aligned[:, :, None, :] * Y_fdt[None]).reshape(K, -1)
        ref = images.reshape(K, -1)
        gmap = OraclePermutationAlignment().calculate_mapping(est, ref)
    else:
        raise ValueError(global_variant)
    return aligned[gmap], mapping, gmap


def bf_kwargs(name, bf_options):
    """documented non-default options of get_bf_vector for `name`: 'use_eig' = the generalised eigenvalue problem is solved
    by scipy.linalg.eig (unordered eigenvalues) instead of eigh, in the GEV beamformer and/or the rank-one / ATF estimate"""
    if bf_options is None:
        return {}
    assert bf_options == 'use_eig', bf_options
    core = name[:-len('+ban')] if name.endswith('+ban') else name
    kw = {}
    if core in ('gev', 'rank1_pca+gev', 'rank1_gev+gev'):
        kw['use_eig'] = True
    if core.startswith('rank1_gev+') or core == 'scaled_gev_atf+mvdr':
        kw['atf_kwargs'] = {'use_eig': True}
    return kw


def design_beamformers(name, Y_fdt, masks_kft, noise_variant, bf_options=None):
    """(K, F, D) beamformers from mask-weighted PSDs"""
    from pb_bss.extraction import get_power_spectral_density_matrix, get_bf_vector
    K, F, T = masks_kft.shape
    m = masks_kft.transpose(1, 0, 2)                                          # 'k f t -> f k t'
    if noise_variant == 'map-bool-mask':
        # hard (boolean) maximum-posterior masks; noise = the other classes
        m = (m.argmax(axis=1)[:, None, :] == np.arange(K)[None, :, None])
    psd = get_power_spectral_density_matrix(Y_fdt, m)                         # F, K, D, D
    W = []
    for k in range(K):
        target = psd[:, k]
        if noise_variant in ('sum-of-others', 'map-bool-mask'):
            noise = psd[:, [j for j in range(K) if j != k]].sum(axis=1)
        elif noise_variant == 'complement-mask':
            noise = get_power_spectral_density_matrix(Y_fdt, np.clip(1 - m[:, k], 0, 1))     # (F, T) mask
        else:
            raise ValueError(noise_variant)
        W.append(get_bf_vector(name, target, noise, **bf_kwargs(name, bf_options)))
    return np.stack(W), psd


def sir_per_source(W, images, noise):
    """output_sxr of the beamformed source images: SIR per source (dB)"""
    from pb_bss.extraction import apply_beamforming_vector
    from pb_bss.evaluation.sxr_module import output_sxr
    K = images.shape[0]
    ic = np.stack([np.stack([apply_beamforming_vector(W[k], images[s]).reshape(-1) for k in range(K)])
                   for s in range(K)])                                        # source, target, samples
    nc = np.stack([apply_beamforming_vector(W[k], noise).reshape(-1) for k in range(K)])
    res = output_sxr(ic, nc, average_sources=False)
    return np.asarray(res.sir, dtype=np.float64)


# ----------------------------------------------------------------------------- ideal-mask quantities (corr)
def zero_forcing(Afk, k):
    """minimum-norm v with v^H a_k = 1, v^H a_j = 0 (j != k) for steering rows Afk (K, D): v = A^+H e_k"""
    A = Afk.T                                   # D, K (columns a_j)
    G = A.conj().T @ A                          # K, K Gram
    e = np.zeros(A.shape[1]); e[k] = 1
    return A @ np.linalg.solve(G, e)            # v = A G^{-1} e_k  ->  A^H v = e_k

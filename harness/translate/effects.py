"""C20 translator: Python AST of pb_bss (current working tree) -> effect IR + may-alias certificates + callee summaries,
emitted as lean/PbBss/Generated/Effects.lean and re-checked there by the Lean-proved-sound `Eff.checkCert`.

IR (lean/PbBss/Model/Effects.lean): per function a SET of statements over SSA-renamed variables
    alloc x | alias x ys | write x
executed in any order any number of times (so no CFG is needed; every construct below only has to make sure that each
possible data flow of a *reference* appears as some `alias`, and each possible in-place modification as some `write`).

The translation must OVER-approximate:
  * every value is abstracted by the set of variables it may share a buffer with; containers/objects are conflated with
    their elements/fields (a tuple, list, dict, dataclass or trainer "aliases" everything stored in it);
  * `self` is a parameter (the arrays held by a model are the caller's arrays);
  * loops: every variable assigned in the body gets a loop-head variable joined with ALL versions created in the body
    (covers break/continue); try: handlers start from all versions created in the try body;
  * nested functions / lambdas: their parameters may alias everything visible, free variables resolve to all versions;
  * calls: repo functions through their summaries (mutated parameters, parameters the result may alias), resolved through
    imports, the receiver's class (with subclasses for `self.`), dataclass field annotations, properties; NumPy/SciPy
    /builtin callees through the tables below; an unresolvable callee is treated as writing to and aliasing all arguments.
Trusted (probed dynamically by harness/props/c20.py): the primitive tables; parameters annotated / defaulted as scalars
receive scalars; third-party objects (SciPy interpolator, sklearn estimators) neither mutate nor return views of arguments.
"""
import ast
import collections
import os

# ----------------------------------------------------------------------------- which files
ANCHORED = ['pb_bss/distribution/cacgmm.py', 'pb_bss/distribution/cwmm.py', 'pb_bss/distribution/cbmm.py',
            'pb_bss/distribution/complex_watson.py', 'pb_bss/distribution/complex_bingham.py',
            'pb_bss/distribution/complex_angular_central_gaussian.py', 'pb_bss/extraction/beamformer.py',
            'pb_bss/extraction/mask_module.py', 'pb_bss/permutation_alignment.py', 'pb_bss/evaluation/sxr_module.py']
OTHERS = ['pb_bss/distribution/mixture_model_utils.py', 'pb_bss/distribution/utils.py', 'pb_bss/utils.py',
          'pb_bss/math/solve.py', 'pb_bss/distribution/complex_circular_symmetric_gaussian.py',
          'pb_bss/distribution/gmm.py', 'pb_bss/distribution/gaussian.py', 'pb_bss/distribution/vmfmm.py',
          'pb_bss/distribution/von_mises_fisher.py', 'pb_bss/distribution/gcacgmm.py',
          'pb_bss/distribution/vmfcacgmm.py', 'pb_bss/extraction/beamformer_wrapper.py']
SHORT = {'pb_bss/distribution/utils.py': 'distribution.utils', 'pb_bss/math/solve.py': 'math.solve'}
EXCEPTIONS = ('sxr_module.set_snr',)          # the single documented exception (N is rescaled in place)

# ----------------------------------------------------------------------------- primitive tables (trusted, probed)
NP_FRESH = {
    'copy', 'array', 'zeros', 'ones', 'empty', 'zeros_like', 'ones_like', 'empty_like', 'full', 'full_like', 'eye',
    'arange', 'linspace', 'logspace', 'sum', 'mean', 'amax', 'amin', 'max', 'min', 'maximum', 'minimum', 'abs',
    'absolute', 'exp', 'log', 'log10', 'sqrt', 'cos', 'sin', 'angle', 'where', 'clip', 'stack', 'concatenate', 'append',
    'repeat', 'tile', 'sort', 'argsort', 'argmax', 'argmin', 'cumsum', 'cumprod', 'prod', 'diff', 'take_along_axis',
    'delete', 'percentile', 'trace', 'isfinite', 'isnan', 'all', 'any', 'array_equal', 'unravel_index', 'conj',
    'conjugate', 'logical_and', 'logical_or', 'divide', 'multiply', 'add', 'subtract', 'power', 'sign', 'floor', 'ceil',
    'round', 'around', 'linalg.norm', 'linalg.solve', 'linalg.eigh', 'linalg.eig', 'linalg.lstsq', 'linalg.slogdet',
    'linalg.cholesky', 'linalg.inv', 'random.uniform', 'random.dirichlet', 'random.randint', 'random.normal',
    'random.choice', 'random.permutation', 'finfo', 'iinfo', 'isscalar', 'shape', 'ndim', 'size', 'unique', 'outer',
    'dot', 'matmul', 'nan_to_num', 'isposinf', 'isinf', 'iscomplexobj', 'isrealobj', 'ndindex', 'asfarray', 'errstate',
    'dtype', 'float64', 'complex128', 'complex64', 'int64', 'bool', 'bool_', 'issubdtype', 'result_type', 'isclose',
    'allclose', 'pi', 'inf', 'newaxis', 'nan', 'testing.assert_allclose', 'testing.assert_equal', 'square', 'tril',
    'triu', 'var', 'std', 'median', 'linalg.det', 'linalg.pinv', 'einsum_path', 'count_nonzero', 'nonzero', 'roll',
}
# functions that may return a view of (share memory with) an argument
NP_VIEW = {'asarray', 'asanyarray', 'ascontiguousarray', 'asfortranarray', 'broadcast_to', 'broadcast_arrays', 'swapaxes',
           'transpose', 'reshape', 'squeeze', 'expand_dims', 'moveaxis', 'rollaxis', 'ravel', 'atleast_1d', 'atleast_2d',
           'atleast_3d', 'split', 'array_split', 'real', 'imag', 'diagonal', 'flip', 'flipud', 'fliplr', 'rot90',
           'lib.stride_tricks.as_strided', 'lib.stride_tricks.sliding_window_view', 'require', 'take', 'compress',
           'diag', 'hsplit', 'vsplit', 'dsplit', 'matrix_transpose', 'permute_dims'}
# functions that modify their FIRST argument in place
NP_INPLACE = {'fill_diagonal', 'copyto', 'put', 'place', 'putmask', 'put_along_axis', 'random.shuffle',
              'ndarray.sort', 'ndarray.fill', 'add.at', 'subtract.at', 'multiply.at', 'maximum.at', 'minimum.at'}
ND_VIEW_METHODS = {'transpose', 'reshape', 'swapaxes', 'squeeze', 'ravel', 'view', 'conj', 'conjugate', 'diagonal',
                   'get', 'pop', 'items', 'values', 'keys', 'setdefault', '__getitem__', 'take', 'newbyteorder'}
ND_FRESH_METHODS = {'copy', 'astype', 'sum', 'mean', 'max', 'min', 'flatten', 'dot', 'any', 'all', 'argmax', 'argmin',
                    'tolist', 'cumsum', 'cumprod', 'round', 'clip', 'std', 'var', 'prod', 'nonzero', 'repeat', 'trace',
                    'item', 'tobytes', 'argsort', 'format', 'join', 'split', 'strip', 'startswith', 'endswith', 'isdigit',
                    'index', 'count', 'lower', 'upper', 'replace'}
ND_INPLACE_METHODS = {'sort', 'fill', 'put', 'itemset', 'partition', 'resize', 'setflags', 'byteswap', 'setfield'}
CONTAINER_STORE_METHODS = {'append', 'extend', 'insert', 'add', 'update', 'appendleft'}    # receiver stores the arguments
ATTR_SCALAR = {'shape', 'ndim', 'dtype', 'size', 'itemsize', 'nbytes', '__name__', '__class__', 'n_clusters', 'flags'}
ATTR_VIEW = {'real', 'imag', 'T', 'mT', 'flat', 'base', 'data'}
# fully qualified third-party / stdlib callees: effect on arguments
EXT_FRESH_PREFIX = ('scipy.special.', 'scipy.linalg.', 'scipy.optimize.', 'scipy.interpolate.', 'math.', 'operator.',
                    'warnings.', 'sklearn.', 'collections.', 'dataclasses.', 'typing.', 'sympy.', 'paderbox.',
                    'cached_property.', 'pb_bss.distribution.complex_bingham_utils.', 'pb_bss.extraction.cythonized.')
EXT_ALIAS = ('itertools.', 'functools.')      # results may contain references to the arguments, no mutation
BUILTIN_FRESH = {'range', 'len', 'int', 'float', 'bool', 'str', 'isinstance', 'issubclass', 'print', 'hasattr', 'repr',
                 'type', 'abs', 'all', 'any', 'callable', 'id', 'hash', 'round', 'divmod', 'pow', 'ord', 'chr', 'format',
                 'complex', 'xor', 'perm', 'ValueError', 'TypeError', 'NotImplementedError', 'AssertionError',
                 'RuntimeError', 'IndexError', 'AttributeError', 'KeyError', 'DeprecationWarning', 'UserWarning'}
BUILTIN_ALIAS = {'list', 'tuple', 'dict', 'set', 'frozenset', 'zip', 'enumerate', 'iter', 'next', 'reversed', 'sorted',
                 'getattr', 'map', 'filter', 'sum', 'max', 'min', 'slice', 'super', 'vars', 'object'}
SCALAR_PARAM_NAMES = {'size', 'num_classes', 'iterations', 'axis', 'K', 'F', 'stft_size', 'name', 'beamformer',
                      'similarity_metric', 'algorithm', 'covariance_type', 'covariance_norm', 'eps_style', 'ord',
                      'atf_type', 'dimension', 'categories', 'frequency_bins', 'reference_channel', 'source_index',
                      'num_sources', 'operation', 'instructions', 'source_axis', 'sensor_axis', 'component_axis',
                      'frequency_axis', 'sensor_dim', 'source_dim', 'time_dim'}


# ----------------------------------------------------------------------------- loading and symbol tables
class ClassInfo:
    def __init__(self, mod, node):
        self.mod, self.node, self.name = mod, node, node.name
        self.bases = [ast.unparse(b).split('.')[-1] for b in node.bases]
        self.methods, self.props, self.fields, self.kinds = {}, set(), {}, {}
        for n in node.body:
            if isinstance(n, ast.FunctionDef):
                decos = [ast.unparse(d).split('.')[-1].split('(')[0] for d in n.decorator_list]
                self.methods[n.name] = n
                self.kinds[n.name] = ('classmethod' if 'classmethod' in decos else 'staticmethod' if 'staticmethod' in decos
                                      else 'property' if ('property' in decos or 'cached_property' in decos) else 'method')
                if self.kinds[n.name] == 'property':
                    self.props.add(n.name)
            elif isinstance(n, ast.AnnAssign) and isinstance(n.target, ast.Name):
                self.fields[n.target.id] = ast.unparse(n.annotation).split('.')[-1]


class Module:
    def __init__(self, repo, rel):
        self.rel = rel
        self.short = SHORT.get(rel, os.path.basename(rel)[:-3])
        self.dotted = rel[:-3].replace('/', '.')
        self.tree = ast.parse(open(os.path.join(repo, rel)).read())
        self.funcs, self.classes, self.imports = {}, {}, {}
        pkg = self.dotted.rsplit('.', 1)[0]
        for n in self.tree.body:
            self._top(n, pkg)

    def _top(self, n, pkg):
        if isinstance(n, ast.FunctionDef):
            self.funcs[n.name] = n
        elif isinstance(n, ast.ClassDef):
            self.classes[n.name] = ClassInfo(self, n)
        elif isinstance(n, ast.Import):
            for a in n.names:
                self.imports[a.asname or a.name.split('.')[0]] = ('mod', a.name if a.asname else a.name.split('.')[0])
        elif isinstance(n, ast.ImportFrom):
            base = n.module or ''
            if n.level:
                parts = self.dotted.split('.')[:-n.level]
                base = '.'.join(parts + ([n.module] if n.module else []))
            for a in n.names:
                self.imports[a.asname or a.name] = ('obj', base, a.name)
        elif isinstance(n, (ast.Try, ast.If)):
            for sub in ast.iter_child_nodes(n):
                if isinstance(sub, ast.stmt):
                    self._top(sub, pkg)
                elif isinstance(sub, ast.ExceptHandler):
                    for s2 in sub.body:
                        self._top(s2, pkg)


class World:
    def __init__(self, repo, files):
        self.mods = [Module(repo, f) for f in files if os.path.exists(os.path.join(repo, f))]
        self.by_dotted = {m.dotted: m for m in self.mods}
        self.classes = collections.defaultdict(list)          # class name -> [ClassInfo]
        self.fn_nodes = {}                                     # qual -> (module, class or None, node)
        for m in self.mods:
            for n, node in m.funcs.items():
                self.fn_nodes[f'{m.short}.{n}'] = (m, None, node)
            for cn_, ci in m.classes.items():
                self.classes[cn_].append(ci)
                for mn, node in ci.methods.items():
                    self.fn_nodes[f'{m.short}.{cn_}.{mn}'] = (m, ci, node)

    # ---- classes
    def subclasses(self, name):
        out, todo = {name}, [name]
        while todo:
            c = todo.pop()
            for cn_, cis in self.classes.items():
                if cn_ not in out and any(c in ci.bases for ci in cis):
                    out.add(cn_)
                    todo.append(cn_)
        return out

    def superclasses(self, name):
        out, todo = [name], [name]
        while todo:
            c = todo.pop()
            for ci in self.classes.get(c, []):
                for b in ci.bases:
                    if b not in out:
                        out.append(b)
                        todo.append(b)
        return out

    def method_quals(self, cls, meth, dynamic):
        """qualified names of the implementations `obj.meth` may run when obj has static class `cls`"""
        names = list(self.superclasses(cls))
        if dynamic:
            names += [c for c in self.subclasses(cls) if c not in names]
        out = []
        for c in names:
            for ci in self.classes.get(c, []):
                if meth in ci.methods:
                    out.append(f'{ci.mod.short}.{c}.{meth}')
        return out

    def is_property(self, cls, attr):
        return any(attr in ci.props for c in self.superclasses(cls) for ci in self.classes.get(c, []))

    def field_class(self, cls, attr):
        for c in self.superclasses(cls):
            for ci in self.classes.get(c, []):
                t = ci.fields.get(attr)
                if t in self.classes:
                    return t
        return None

    def known_class(self, cls):
        return cls in self.classes

    # ---- names
    def resolve_name(self, mod, name):
        """-> ('fn', [quals]) | ('class', name) | ('ext', dotted) | ('mod', dotted) | None"""
        if name in mod.funcs:
            return ('fn', [f'{mod.short}.{name}'])
        if name in mod.classes:
            return ('class', name)
        imp = mod.imports.get(name)
        if imp is None:
            # star imports (beamformer_wrapper: from .beamformer import *)
            for n in mod.tree.body:
                if isinstance(n, ast.ImportFrom) and any(a.name == '*' for a in n.names):
                    base = n.module or ''
                    if n.level:
                        base = '.'.join(mod.dotted.split('.')[:-n.level] + ([n.module] if n.module else []))
                    m2 = self.by_dotted.get(base)
                    if m2 is not None and (name in m2.funcs or name in m2.classes or name in m2.imports):
                        return self.resolve_name(m2, name)
            return None
        if imp[0] == 'mod':
            return ('mod', imp[1])
        _, base, obj = imp
        m2 = self.by_dotted.get(base)
        if m2 is not None:
            r = self.resolve_name(m2, obj)
            if r is not None:
                return r
        if base.startswith('pb_bss'):
            sub = self.by_dotted.get(base + '.' + obj)
            if sub is not None:
                return ('mod', sub.dotted)
            # re-export through a package __init__: search the analysed modules of that package
            quals = [f'{m.short}.{obj}' for m in self.mods if m.dotted.startswith(base) and obj in m.funcs]
            if quals:
                return ('fn', quals)
            if obj in self.classes:
                return ('class', obj)
        return ('ext', base + '.' + obj)

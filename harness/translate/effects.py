"""C20 translator: Python AST of pb_bss (current working tree) -> effect IR + may-alias certificates + callee summaries,
emitted as lean/PbBss/Generated/Effects.lean and re-checked there by the Lean-proved-sound `Eff.checkCert`.

IR (lean/PbBss/Model/Effects.lean): per function a SET of statements over SSA-renamed variables
    alloc x | alias x ys | write x
executed in any order any number of times (so no CFG is needed; every construct below only has to make sure that each
possible data flow of a *reference* appears as some `alias`, and each possible in-place modification as some `write`).

The translation must OVER-approximate:
  * every value is abstracted by the set of variables it may share a buffer with; containers/objects are conflated with
    their elements/fields (a tuple, list, dict, dataclass or trainer "aliases" everything stored in it);
  * `self` is a parameter (the arrays held by a model are the caller's arrays);
  * loops: every variable assigned in the body gets a loop-head variable joined with ALL versions created in the body
    (covers break/continue); try: handlers start from all versions created in the try body;
  * nested functions / lambdas: their parameters may alias everything visible, free variables resolve to all versions;
  * calls: repo functions through their summaries (mutated parameters, parameters the result may alias), resolved through
    imports, the receiver's class (with subclasses for `self.`), dataclass field annotations, properties; NumPy/SciPy
    /builtin callees through the tables below; an unresolvable callee is treated as writing to and aliasing all arguments.
Trusted (probed dynamically by harness/props/c20.py): the primitive tables; parameters annotated / defaulted as scalars
receive scalars; third-party objects (SciPy interpolator, sklearn estimators) neither mutate nor return views of arguments.
"""
import ast
import collections
import os

# ----------------------------------------------------------------------------- which files
ANCHORED = ['pb_bss/distribution/cacgmm.py', 'pb_bss/distribution/cwmm.py', 'pb_bss/distribution/cbmm.py',
            'pb_bss/distribution/complex_watson.py', 'pb_bss/distribution/complex_bingham.py',
            'pb_bss/distribution/complex_angular_central_gaussian.py', 'pb_bss/extraction/beamformer.py',
            'pb_bss/extraction/mask_module.py', 'pb_bss/permutation_alignment.py', 'pb_bss/evaluation/sxr_module.py']
OTHERS = ['pb_bss/distribution/mixture_model_utils.py', 'pb_bss/distribution/utils.py', 'pb_bss/utils.py',
          'pb_bss/math/solve.py', 'pb_bss/distribution/complex_circular_symmetric_gaussian.py',
          'pb_bss/distribution/gmm.py', 'pb_bss/distribution/gaussian.py', 'pb_bss/distribution/vmfmm.py',
          'pb_bss/distribution/von_mises_fisher.py', 'pb_bss/distribution/gcacgmm.py',
          'pb_bss/distribution/vmfcacgmm.py', 'pb_bss/extraction/beamformer_wrapper.py']
SHORT = {'pb_bss/distribution/utils.py': 'distribution.utils', 'pb_bss/math/solve.py': 'math.solve'}
EXCEPTIONS = ('sxr_module.set_snr',)          # the single documented exception (N is rescaled in place)

# ----------------------------------------------------------------------------- primitive tables (trusted, probed)
NP_FRESH = {
    'copy', 'array', 'zeros', 'ones', 'empty', 'zeros_like', 'ones_like', 'empty_like', 'full', 'full_like', 'eye',
    'arange', 'linspace', 'logspace', 'sum', 'mean', 'amax', 'amin', 'max', 'min', 'maximum', 'minimum', 'abs',
    'absolute', 'exp', 'log', 'log10', 'sqrt', 'cos', 'sin', 'angle', 'where', 'clip', 'stack', 'concatenate', 'append',
    'repeat', 'tile', 'sort', 'argsort', 'argmax', 'argmin', 'cumsum', 'cumprod', 'prod', 'diff', 'take_along_axis',
    'delete', 'percentile', 'trace', 'isfinite', 'isnan', 'all', 'any', 'array_equal', 'unravel_index', 'conj',
    'conjugate', 'logical_and', 'logical_or', 'divide', 'multiply', 'add', 'subtract', 'power', 'sign', 'floor', 'ceil',
    'round', 'around', 'linalg.norm', 'linalg.solve', 'linalg.eigh', 'linalg.eig', 'linalg.lstsq', 'linalg.slogdet',
    'linalg.cholesky', 'linalg.inv', 'random.uniform', 'random.dirichlet', 'random.randint', 'random.normal',
    'random.choice', 'random.permutation', 'finfo', 'iinfo', 'isscalar', 'shape', 'ndim', 'size', 'unique', 'outer',
    'dot', 'matmul', 'nan_to_num', 'isposinf', 'isinf', 'iscomplexobj', 'isrealobj', 'ndindex', 'asfarray', 'errstate',
    'dtype', 'float64', 'complex128', 'complex64', 'int64', 'bool', 'bool_', 'issubdtype', 'result_type', 'isclose',
    'allclose', 'pi', 'inf', 'newaxis', 'nan', 'testing.assert_allclose', 'testing.assert_equal', 'square', 'tril',
    'triu', 'var', 'std', 'median', 'linalg.LinAlgError', 'linalg.det', 'linalg.pinv', 'einsum_path', 'count_nonzero', 'nonzero', 'roll',
}
# functions that may return a view of (share memory with) an argument
NP_VIEW = {'asarray', 'asanyarray', 'ascontiguousarray', 'asfortranarray', 'broadcast_to', 'broadcast_arrays', 'swapaxes',
           'transpose', 'reshape', 'squeeze', 'expand_dims', 'moveaxis', 'rollaxis', 'ravel', 'atleast_1d', 'atleast_2d',
           'atleast_3d', 'split', 'array_split', 'real', 'imag', 'diagonal', 'flip', 'flipud', 'fliplr', 'rot90',
           'lib.stride_tricks.as_strided', 'lib.stride_tricks.sliding_window_view', 'require', 'take', 'compress',
           'diag', 'hsplit', 'vsplit', 'dsplit', 'matrix_transpose', 'permute_dims'}
# functions that modify their FIRST argument in place
NP_INPLACE = {'fill_diagonal', 'copyto', 'put', 'place', 'putmask', 'put_along_axis', 'random.shuffle',
              'ndarray.sort', 'ndarray.fill', 'add.at', 'subtract.at', 'multiply.at', 'maximum.at', 'minimum.at'}
ND_VIEW_METHODS = {'transpose', 'reshape', 'swapaxes', 'squeeze', 'ravel', 'view', 'conj', 'conjugate', 'diagonal',
                   'get', 'pop', 'items', 'values', 'keys', 'setdefault', '__getitem__', 'take', 'newbyteorder', 'union',
                   'intersection', 'difference'}
ND_FRESH_METHODS = {'copy', 'astype', 'sum', 'mean', 'max', 'min', 'flatten', 'dot', 'any', 'all', 'argmax', 'argmin',
                    'tolist', 'cumsum', 'cumprod', 'round', 'clip', 'std', 'var', 'prod', 'nonzero', 'repeat', 'trace',
                    'item', 'tobytes', 'argsort', 'format', 'join', 'split', 'strip', 'startswith', 'endswith', 'isdigit',
                    'index', 'count', 'lower', 'upper', 'replace'}
ND_INPLACE_METHODS = {'sort', 'fill', 'put', 'itemset', 'partition', 'resize', 'setflags', 'byteswap', 'setfield'}
CONTAINER_STORE_METHODS = {'append', 'extend', 'insert', 'add', 'update', 'appendleft'}    # receiver stores the arguments
ATTR_SCALAR = {'shape', 'ndim', 'dtype', 'size', 'itemsize', 'nbytes', '__name__', '__class__', 'n_clusters', 'flags'}
ATTR_VIEW = {'real', 'imag', 'T', 'mT', 'flat', 'base', 'data'}
# fully qualified third-party / stdlib callees: effect on arguments
EXT_FRESH_PREFIX = ('scipy.special.', 'scipy.linalg.', 'scipy.optimize.', 'scipy.interpolate.', 'math.', 'operator.',
                    'warnings.', 'sklearn.', 'collections.', 'dataclasses.', 'typing.', 'sympy.', 'paderbox.',
                    'cached_property.', 'pb_bss.distribution.complex_bingham_utils.', 'pb_bss.extraction.cythonized.',
                    'inspect.', 'difflib.', 'collections.namedtuple')
EXT_ALIAS = ('itertools.', 'functools.')      # results may contain references to the arguments, no mutation
BUILTIN_FRESH = {'range', 'len', 'int', 'float', 'bool', 'str', 'isinstance', 'issubclass', 'print', 'hasattr', 'repr',
                 'type', 'abs', 'all', 'any', 'callable', 'id', 'hash', 'round', 'divmod', 'pow', 'ord', 'chr', 'format',
                 'complex', 'xor', 'perm', 'dir', 'ValueError', 'TypeError', 'NotImplementedError', 'AssertionError',
                 'RuntimeError', 'IndexError', 'AttributeError', 'KeyError', 'DeprecationWarning', 'UserWarning'}
BUILTIN_ALIAS = {'list', 'tuple', 'dict', 'set', 'frozenset', 'zip', 'enumerate', 'iter', 'next', 'reversed', 'sorted',
                 'getattr', 'map', 'filter', 'sum', 'max', 'min', 'slice', 'super', 'vars', 'object'}
SCALAR_PARAM_NAMES = {'size', 'num_classes', 'iterations', 'axis', 'K', 'F', 'stft_size', 'name', 'beamformer',
                      'similarity_metric', 'algorithm', 'covariance_type', 'covariance_norm', 'eps_style', 'ord',
                      'atf_type', 'dimension', 'categories', 'frequency_bins', 'reference_channel', 'source_index',
                      'num_sources', 'operation', 'instructions', 'source_axis', 'sensor_axis', 'component_axis',
                      'frequency_axis', 'sensor_dim', 'source_dim', 'time_dim'}


# ----------------------------------------------------------------------------- loading and symbol tables
class ClassInfo:
    def __init__(self, mod, node):
        self.mod, self.node, self.name = mod, node, node.name
        self.bases = [ast.unparse(b).split('.')[-1] for b in node.bases]
        self.methods, self.props, self.fields, self.kinds = {}, set(), {}, {}
        for n in node.body:
            if isinstance(n, ast.FunctionDef):
                decos = [ast.unparse(d).split('.')[-1].split('(')[0] for d in n.decorator_list]
                self.methods[n.name] = n
                self.kinds[n.name] = ('classmethod' if 'classmethod' in decos else 'staticmethod' if 'staticmethod' in decos
                                      else 'property' if ('property' in decos or 'cached_property' in decos) else 'method')
                if self.kinds[n.name] == 'property':
                    self.props.add(n.name)
            elif isinstance(n, ast.AnnAssign) and isinstance(n.target, ast.Name):
                self.fields[n.target.id] = ast.unparse(n.annotation).split('.')[-1]


class Module:
    def __init__(self, repo, rel, text=None):
        self.rel = rel
        self.short = SHORT.get(rel, os.path.basename(rel)[:-3])
        self.dotted = rel[:-3].replace('/', '.')
        self.tree = ast.parse(open(os.path.join(repo, rel)).read() if text is None else text)
        self.funcs, self.classes, self.imports = {}, {}, {}
        pkg = self.dotted.rsplit('.', 1)[0]
        for n in self.tree.body:
            self._top(n, pkg)

    def _top(self, n, pkg):
        if isinstance(n, ast.FunctionDef):
            self.funcs[n.name] = n
        elif isinstance(n, ast.ClassDef):
            self.classes[n.name] = ClassInfo(self, n)
        elif isinstance(n, ast.Import):
            for a in n.names:
                self.imports[a.asname or a.name.split('.')[0]] = ('mod', a.name if a.asname else a.name.split('.')[0])
        elif isinstance(n, ast.ImportFrom):
            base = n.module or ''
            if n.level:
                parts = self.dotted.split('.')[:-n.level]
                base = '.'.join(parts + ([n.module] if n.module else []))
            for a in n.names:
                self.imports[a.asname or a.name] = ('obj', base, a.name)
        elif isinstance(n, ast.Assign) and isinstance(n.value, ast.Call) and len(n.targets) == 1 and \
                isinstance(n.targets[0], ast.Name):
            root = n.value.func
            while isinstance(root, ast.Attribute):
                root = root.value
            if isinstance(root, ast.Name) and root.id in self.imports:
                imp = self.imports[root.id]
                dotted = imp[1] if imp[0] == 'mod' else imp[1] + '.' + imp[2]
                self.imports[n.targets[0].id] = ('obj', dotted, ast.unparse(n.value.func).split('.', 1)[-1])
        elif isinstance(n, (ast.Try, ast.If)):
            for sub in ast.iter_child_nodes(n):
                if isinstance(sub, ast.stmt):
                    self._top(sub, pkg)
                elif isinstance(sub, ast.ExceptHandler):
                    for s2 in sub.body:
                        self._top(s2, pkg)


class World:
    def __init__(self, repo, files, sources=None):
        self.mods = [Module(repo, f) for f in files if os.path.exists(os.path.join(repo, f))]
        self.mods += [Module(repo, rel, text) for rel, text in (sources or {}).items()]
        self.by_dotted = {m.dotted: m for m in self.mods}
        self.classes = collections.defaultdict(list)          # class name -> [ClassInfo]
        self.fn_nodes = {}                                     # qual -> (module, class or None, node)
        for m in self.mods:
            for n, node in m.funcs.items():
                self.fn_nodes[f'{m.short}.{n}'] = (m, None, node)
            for cn_, ci in m.classes.items():
                self.classes[cn_].append(ci)
                for mn, node in ci.methods.items():
                    self.fn_nodes[f'{m.short}.{cn_}.{mn}'] = (m, ci, node)

    # ---- classes
    def subclasses(self, name):
        out, todo = {name}, [name]
        while todo:
            c = todo.pop()
            for cn_, cis in self.classes.items():
                if cn_ not in out and any(c in ci.bases for ci in cis):
                    out.add(cn_)
                    todo.append(cn_)
        return out

    def superclasses(self, name):
        out, todo = [name], [name]
        while todo:
            c = todo.pop()
            for ci in self.classes.get(c, []):
                for b in ci.bases:
                    if b not in out:
                        out.append(b)
                        todo.append(b)
        return out

    def method_quals(self, cls, meth, dynamic):
        """qualified names of the implementations `obj.meth` may run when obj has static class `cls`"""
        names = list(self.superclasses(cls))
        if dynamic:
            names += [c for c in self.subclasses(cls) if c not in names]
        out = []
        for c in names:
            for ci in self.classes.get(c, []):
                if meth in ci.methods:
                    out.append(f'{ci.mod.short}.{c}.{meth}')
        return out

    def is_property(self, cls, attr):
        return any(attr in ci.props for c in self.superclasses(cls) for ci in self.classes.get(c, []))

    def field_class(self, cls, attr):
        for c in self.superclasses(cls):
            for ci in self.classes.get(c, []):
                t = ci.fields.get(attr)
                if t in self.classes:
                    return t
        return None

    def known_class(self, cls):
        return cls in self.classes

    # ---- names
    def resolve_name(self, mod, name):
        """-> ('fn', [quals]) | ('class', name) | ('ext', dotted) | ('mod', dotted) | None"""
        if name in mod.funcs:
            return ('fn', [f'{mod.short}.{name}'])
        if name in mod.classes:
            return ('class', name)
        imp = mod.imports.get(name)
        if imp is None:
            # star imports (beamformer_wrapper: from .beamformer import *)
            for n in mod.tree.body:
                if isinstance(n, ast.ImportFrom) and any(a.name == '*' for a in n.names):
                    base = n.module or ''
                    if n.level:
                        base = '.'.join(mod.dotted.split('.')[:-n.level] + ([n.module] if n.module else []))
                    m2 = self.by_dotted.get(base)
                    if m2 is not None and (name in m2.funcs or name in m2.classes or name in m2.imports):
                        return self.resolve_name(m2, name)
            return None
        if imp[0] == 'mod':
            return ('mod', imp[1])
        _, base, obj = imp
        m2 = self.by_dotted.get(base)
        if m2 is not None:
            r = self.resolve_name(m2, obj)
            if r is not None:
                return r
        if base.startswith('pb_bss'):
            sub = self.by_dotted.get(base + '.' + obj)
            if sub is not None:
                return ('mod', sub.dotted)
            # re-export through a package __init__: search the analysed modules of that package
            quals = [f'{m.short}.{obj}' for m in self.mods if m.dotted.startswith(base) and obj in m.funcs]
            if quals:
                return ('fn', quals)
            if obj in self.classes:
                return ('class', obj)
        return ('ext', base + '.' + obj)


# ----------------------------------------------------------------------------- per-function translation
def _deco_names(node):
    return [ast.unparse(d).split('.')[-1].split('(')[0] for d in node.decorator_list]


class FnCtx:
    def __init__(self, world, qual):
        self.world, self.qual = world, qual
        self.mod, self.cls, self.node = world.fn_nodes[qual]
        node = self.node
        a = node.args
        pos = a.posonlyargs + a.args
        defaults = dict(zip([x.arg for x in pos][len(pos) - len(a.defaults):], a.defaults))
        defaults.update({x.arg: d for x, d in zip(a.kwonlyargs, a.kw_defaults) if d is not None})
        decos = _deco_names(node)
        self.kind = ('classmethod' if 'classmethod' in decos else 'staticmethod' if 'staticmethod' in decos else
                     'property' if ('property' in decos or 'cached_property' in decos) else
                     'method' if self.cls is not None else 'function')
        allp = [x.arg for x in pos]
        if self.kind == 'classmethod' and allp:
            allp = allp[1:]                                   # cls is a class object, not data
        self.pos_params = allp
        self.kwonly = [x.arg for x in a.kwonlyargs]
        self.vararg = a.vararg.arg if a.vararg else None
        self.kwarg = a.kwarg.arg if a.kwarg else None
        ann = {x.arg: x.annotation for x in pos + a.kwonlyargs}

        def scalar(name):
            if name == 'self':
                return False
            an = ast.unparse(ann[name]) if ann.get(name) is not None else ''
            if an and any(t in an for t in ('int', 'float', 'bool', 'str')) and 'ndarray' not in an and 'array' not in an:
                return True
            d = defaults.get(name)
            if isinstance(d, ast.Constant) and d.value is not None:
                return True
            if isinstance(d, (ast.Tuple, ast.UnaryOp)):
                return True
            return name in SCALAR_PARAM_NAMES
        names = allp + self.kwonly + ([self.vararg] if self.vararg else []) + ([self.kwarg] if self.kwarg else [])
        self.params = [n for n in names if not scalar(n)]
        self.stmts = []
        self.ver = collections.Counter()
        self.versions = collections.defaultdict(list)         # name -> every variable created for it
        self.cur = {}
        for p in self.params:
            self.cur[p] = p
            self.versions[p].append(p)
        self.rets = []
        self.var_types = collections.defaultdict(set)
        for x in pos + a.kwonlyargs:
            if x.annotation is not None:
                t = ast.unparse(x.annotation).split('.')[-1]
                if world.known_class(t):
                    self.var_types[x.arg].add(t)
        self.fn_alias = {}
        self.local_fns = {}
        self.local_imports = {}
        self.stars = {}                                       # name -> star variable (all versions)
        self.nested_params = []
        self.notes = set()
        self.depth_src = collections.defaultdict(list)        # var -> [int | var]: nesting depth of FRESH python containers

    def new(self, name, depth=(0,)):
        """new SSA version of `name`; `depth`: sources of its fresh-container depth (ints and variables)"""
        self.ver[name] += 1
        v = f'{name}#{self.ver[name]}'
        self.cur[name] = v
        self.versions[name].append(v)
        self.depth_src[v] += list(depth)
        return v

    def emit(self, *st):
        self.stmts.append(st)


def names_assigned(nodes):
    out = set()
    for root in nodes:
        for n in ast.walk(root):
            if isinstance(n, ast.Name) and isinstance(n.ctx, (ast.Store, ast.Del)):
                out.add(n.id)
            elif isinstance(n, (ast.FunctionDef, ast.ClassDef)):
                out.add(n.name)
            elif isinstance(n, (ast.Import, ast.ImportFrom)):
                for a in n.names:
                    out.add((a.asname or a.name).split('.')[0])
    return out


class Walker:
    def __init__(self, f, summaries):
        self.f, self.summ, self.w = f, summaries, f.world
        self.own = f.cls.name if f.cls is not None else None

    # ------------------------------------------------------------------ static classes of expressions
    def typeof(self, e):
        f, w = self.f, self.w
        if isinstance(e, ast.Name):
            if e.id in ('self', 'cls') and self.own:
                return {self.own}
            return set(f.var_types.get(e.id, ()))
        if isinstance(e, ast.Attribute):
            out = set()
            for t in self.typeof(e.value):
                c = w.field_class(t, e.attr)
                if c:
                    out.add(c)
                for q in w.method_quals(t, e.attr, True):
                    if w.is_property(t, e.attr):
                        out |= self.ret_class(q)
            return out
        if isinstance(e, ast.Call):
            kind = self.callee(e.func)
            if kind[0] == 'class':
                return {kind[1]}
            if kind[0] == 'fn':
                out = set()
                for q in kind[1]:
                    out |= self.ret_class(q)
                return out
            if kind[0] == 'method':
                out = set()
                for t in self.typeof(kind[1]):
                    for q in w.method_quals(t, kind[2], True):
                        out |= self.ret_class(q)
                return out
        if isinstance(e, ast.IfExp):
            return self.typeof(e.body) | self.typeof(e.orelse)
        return set()

    def ret_class(self, qual):
        w = self.w
        cache = w.__dict__.setdefault('_ret_class', {})
        if qual in cache:
            return cache[qual]
        cache[qual] = set()
        mod, ci, node = w.fn_nodes[qual]
        out = set()
        if node.returns is not None:
            t = ast.unparse(node.returns).split('.')[-1].strip("'\"")
            if w.known_class(t):
                out.add(t)
        for n in ast.walk(node):
            if isinstance(n, ast.Return) and isinstance(n.value, ast.Call) and isinstance(n.value.func, ast.Name):
                nm = n.value.func.id
                if nm == 'cls' and ci is not None:
                    out.add(ci.name)
                elif w.known_class(nm):
                    out.add(nm)
        cache[qual] = out
        return out

    # ------------------------------------------------------------------ callee classification
    def resolve(self, name):
        f = self.f
        if name in f.local_imports:
            imp = f.local_imports[name]
            return ('mod', imp[1]) if imp[0] == 'mod' else ('ext', imp[1] + '.' + imp[2])
        return self.w.resolve_name(f.mod, name)

    def ext_root(self, e):
        """dotted name if `e` is an expression rooted at an imported external object / module, else None"""
        f = self.f
        if isinstance(e, ast.Name):
            if e.id in f.cur or e.id in ('self', 'cls'):
                fa = f.fn_alias.get(e.id)
                if fa and all(k[0] == 'ext' for k in fa):
                    return fa[0][1]
                return None
            r = self.resolve(e.id)
            if r is None:
                return None
            if r[0] == 'mod':
                return r[1] if r[1] not in self.w.by_dotted else None
            if r[0] == 'ext':
                return r[1]
            return None
        if isinstance(e, ast.Attribute):
            b = self.ext_root(e.value)
            return None if b is None else b + '.' + e.attr
        if isinstance(e, ast.Subscript):
            b = self.ext_root(e.value)
            return None if b is None or b.startswith('numpy') else b
        return None

    def callee(self, func):
        f, w = self.f, self.w
        if isinstance(func, ast.Name):
            n = func.id
            if n in f.local_fns:
                return ('local', n)
            if n == 'cls' and self.own:
                return ('class', self.own)
            if n in f.cur:
                if n in f.fn_alias:
                    return ('var', f.fn_alias[n])
                return ('unknown', n)
            r = self.resolve(n)
            if r is None:
                if n in BUILTIN_FRESH or n in BUILTIN_ALIAS:
                    return ('builtin', n)
                return ('unknown', n)
            if r[0] in ('fn', 'class'):
                return r
            if r[0] == 'ext':
                return self._ext(r[1])
            return ('unknown', n)
        if isinstance(func, ast.Attribute):
            ext = self.ext_root(func)
            if ext is not None:
                return self._ext(ext)
            # module of the repo:  module.func(...)
            chain, n = [], func
            while isinstance(n, ast.Attribute):
                chain.append(n.attr)
                n = n.value
            chain.reverse()
            if isinstance(n, ast.Name) and n.id not in f.cur and n.id not in ('self', 'cls'):
                r = self.resolve(n.id)
                if r is not None and r[0] == 'mod' and r[1] in w.by_dotted and len(chain) == 1:
                    m2 = w.by_dotted[r[1]]
                    rr = w.resolve_name(m2, chain[0])
                    if rr is not None and rr[0] in ('fn', 'class'):
                        return rr
                if r is not None and r[0] == 'class' and len(chain) == 1:
                    qs = w.method_quals(r[1], chain[0], True)
                    if qs:
                        return ('fn', qs)
            if isinstance(n, ast.Name) and n.id == 'cls' and self.own and len(chain) == 1:
                qs = w.method_quals(self.own, chain[0], True)
                if qs:
                    return ('fn', qs)
            return ('method', func.value, func.attr)
        if isinstance(func, ast.Subscript):
            ext = self.ext_root(func)
            if ext is not None:
                return self._ext(ext)
        return ('unknown', ast.unparse(func)[:30])

    def _ext(self, dotted):
        if dotted.startswith('numpy.') or dotted == 'numpy':
            return ('np', dotted[len('numpy.'):])
        return ('ext', dotted)

    # ------------------------------------------------------------------ expressions -> variables the value may alias
    def lookup(self, name):
        f = self.f
        return [f.cur[name]] if name in f.cur else []

    def expr(self, e):
        f = self.f
        if e is None:
            return []
        if isinstance(e, ast.Name):
            return self.lookup(e.id)
        if isinstance(e, ast.Attribute):
            if self.ext_root(e) is not None:
                return []
            base = self.expr(e.value)
            if e.attr in ATTR_SCALAR:
                return []
            ts = self.typeof(e.value)
            out = []
            prop_quals = []
            for t in ts:
                if self.w.is_property(t, e.attr):
                    prop_quals += self.w.method_quals(t, e.attr, True)
            if not ts:
                for cname, cis in self.w.classes.items():
                    for ci in cis:
                        if e.attr in ci.props:
                            prop_quals.append(f'{ci.mod.short}.{cname}.{e.attr}')
            for q in dict.fromkeys(prop_quals):
                out += self.apply_summary(q, base, [], {}, e)
            if prop_quals and ts and all(self.w.is_property(t, e.attr) for t in ts):
                return out
            return out + base
        if isinstance(e, ast.Subscript):
            base = self.expr(e.value)
            self.expr(e.slice)
            return base
        if isinstance(e, ast.Slice):
            self.expr(e.lower), self.expr(e.upper), self.expr(e.step)
            return []
        if isinstance(e, ast.BinOp):
            l, r = self.expr(e.left), self.expr(e.right)
            listy = any(isinstance(x, (ast.List, ast.Tuple, ast.ListComp)) or
                        (isinstance(x, ast.Call) and isinstance(x.func, ast.Name) and x.func.id in ('list', 'tuple'))
                        for x in (e.left, e.right))
            return l + r if listy else []
        if isinstance(e, ast.BoolOp):
            out = []
            for v in e.values:
                out += self.expr(v)
            return out
        if isinstance(e, (ast.UnaryOp, ast.Compare)):
            for c in ast.iter_child_nodes(e):
                if isinstance(c, ast.expr):
                    self.expr(c)
            return []
        if isinstance(e, ast.IfExp):
            self.expr(e.test)
            return self.expr(e.body) + self.expr(e.orelse)
        if isinstance(e, (ast.Tuple, ast.List, ast.Set)):
            out = []
            for x in e.elts:
                out += self.expr(x)
            return out
        if isinstance(e, ast.Starred):
            return self.expr(e.value)
        if isinstance(e, ast.Dict):
            out = []
            for x in list(e.values) + [k for k in e.keys if k is not None]:
                out += self.expr(x)
            return out
        if isinstance(e, (ast.ListComp, ast.GeneratorExp, ast.SetComp, ast.DictComp)):
            saved = dict(f.cur)
            for g in e.generators:
                self.assign_target(g.target, self.expr(g.iter), e.lineno, e)
                for c in g.ifs:
                    self.expr(c)
            if isinstance(e, ast.DictComp):
                out = self.expr(e.key) + self.expr(e.value)
            else:
                out = self.expr(e.elt)
            # comprehension variables are local to the comprehension; the result must not refer to names restored below
            res = f.new('_comp', self.depth_of(e))
            if out:
                f.emit('alias', res, list(dict.fromkeys(out)))
            else:
                f.emit('alloc', res)
            f.cur = saved
            return [res]
        if isinstance(e, ast.NamedExpr):
            srcs = self.expr(e.value)
            self.assign_target(e.target, srcs, e.lineno, e)
            return srcs
        if isinstance(e, ast.Call):
            return self.call(e)
        if isinstance(e, ast.Lambda):
            return self.nested(e.args, [ast.Return(value=e.body, lineno=e.lineno)], None)
        if isinstance(e, (ast.Yield, ast.YieldFrom)):
            f.rets += self.expr(e.value)
            return []
        if isinstance(e, ast.JoinedStr):
            for v in e.values:
                if isinstance(v, ast.FormattedValue):
                    self.expr(v.value)
            return []
        if isinstance(e, ast.FormattedValue):
            self.expr(e.value)
            return []
        if isinstance(e, ast.Constant):
            return []
        f.notes.add('unhandled-expression:' + type(e).__name__)
        out = []
        for c in ast.iter_child_nodes(e):
            if isinstance(c, ast.expr):
                out += self.expr(c)
        return out

    # ------------------------------------------------------------------ nested functions and lambdas
    def nested(self, args, body, name):
        """translate a nested function body in place: parameters may alias everything, free variables all versions"""
        f = self.f
        saved = dict(f.cur)
        saved_rets = f.rets
        f.rets = []
        for n in list(f.cur):
            if n not in f.stars:
                f.stars[n] = f'{n}#*'
            f.cur[n] = f.stars[n]
        for a in args.posonlyargs + args.args + args.kwonlyargs + ([args.vararg] if args.vararg else []) + \
                ([args.kwarg] if args.kwarg else []):
            v = f.new(a.arg)
            f.nested_params.append(v)
        for d in list(args.defaults) + [d for d in args.kw_defaults if d is not None]:
            self.expr(d)
        self.block(body)
        rets = f.rets
        f.rets = saved_rets
        f.cur = saved
        if name is not None:
            f.local_fns[name] = rets
        return rets

    # ------------------------------------------------------------------ calls
    def apply_summary(self, qual, recv, args, kws, node, starred=(), bind_self=True):
        """effects and result of calling repo function `qual` (receiver variables `recv` or None)"""
        f = self.f
        if qual not in self.w.fn_nodes:
            return []
        s = self.summ.get(qual)
        info = self.w.sigs[qual]
        pos = list(info['pos'])
        bind = collections.defaultdict(list)
        if info['kind'] in ('method', 'property') and pos and pos[0] == 'self':
            if recv is not None and bind_self:
                bind['self'] += recv
                pos = pos[1:]
            # else: called through the class, `self` is the first positional argument
        for i, a in enumerate(args):
            if i in starred:
                for p in pos + ([info['vararg']] if info['vararg'] else []):
                    bind[p] += a
            elif i < len(pos):
                bind[pos[i]] += a
            elif info['vararg']:
                bind[info['vararg']] += a
        for k, a in kws.items():
            if k is None:
                for p in pos + info['kwonly'] + ([info['kwarg']] if info['kwarg'] else []):
                    bind[p] += a
            elif k in pos or k in info['kwonly']:
                bind[k] += a
            elif info['kwarg']:
                bind[info['kwarg']] += a
        if s is None:
            return []
        for p in s['mutates']:
            for v in bind.get(p, []):
                f.emit('write', v, node.lineno, f'via {qual}: ' + ast.unparse(node)[:50])
        out = []
        for p in s['returns']:
            out += bind.get(p, [])
        return out

    def call(self, c):
        f = self.f
        args = [self.expr(a) for a in c.args]
        starred = {i for i, a in enumerate(c.args) if isinstance(a, ast.Starred)}
        kws = {}
        for k in c.keywords:
            kws.setdefault(k.arg, [])
            kws[k.arg] = kws[k.arg] + self.expr(k.value)
        flat = [v for a in args for v in a] + [v for k, a in kws.items() if k != 'out' for v in a]
        flat = list(dict.fromkeys(flat))
        outv = kws.get('out', [])
        for v in outv:
            f.emit('write', v, c.lineno, ast.unparse(c)[:60])
        return list(dict.fromkeys(outv + self._call(c, args, starred, kws, flat)))

    def conservative(self, c, flat, why):
        f = self.f
        f.notes.add(f'unresolved-callee:{why}')
        for v in flat:
            f.emit('write', v, c.lineno, f'unresolved callee {why}: ' + ast.unparse(c)[:40])
        return flat

    def _np(self, c, name, args, flat):
        f = self.f
        if name == 'einsum':
            spec = c.args[0].value.replace(' ', '') if c.args and isinstance(c.args[0], ast.Constant) and \
                isinstance(c.args[0].value, str) else None
            if spec is not None and len(c.args) == 2:
                if '->' in spec:
                    i, o = spec.split('->')
                    letters = [ch for ch in i.replace('...', '') if ch.isalpha()]
                    view = all(ch in o for ch in letters)
                else:
                    letters = [ch for ch in spec.replace('...', '') if ch.isalpha()]
                    view = len(set(letters)) == len(letters)
                return flat if view else []
            return [] if len(c.args) > 2 else flat
        if name == 'array':
            copy_true_or_default = not any(k.arg == 'copy' and not (isinstance(k.value, ast.Constant) and k.value.value is True)
                                           for k in c.keywords)
            return [] if copy_true_or_default else flat
        self.w.np_used[name] += 1
        if name in NP_INPLACE or name.endswith('.at'):
            for v in (args[0] if args else flat):
                f.emit('write', v, c.lineno, ast.unparse(c)[:60])
            return []
        if name in NP_VIEW:
            return flat
        if name in NP_FRESH:
            return []
        f.notes.add('numpy-function-not-in-table(assumed non-mutating, may return a view):' + name)
        return flat

    def construct(self, cls, c, args, starred, kws, flat):
        """ClassName(...): the object holds (aliases) every argument; explicit __init__ / __post_init__ run"""
        out = list(flat)
        for meth in ('__init__', '__post_init__'):
            for q in self.w.method_quals(cls, meth, False)[:1]:
                if meth == '__init__':
                    out += self.apply_summary(q, flat, args, kws, c, starred)
                else:
                    out += self.apply_summary(q, flat, [], {}, c)
        return out

    def _call(self, c, args, starred, kws, flat):
        f, w = self.f, self.w
        kind = self.callee(c.func)
        k0 = kind[0]
        if k0 == 'np':
            return self._np(c, kind[1], args, flat)
        if k0 == 'ext':
            d = kind[1]
            if d.startswith(('operator.i', 'operator.setitem', 'operator.delitem', 'operator.__i', 'operator.__set')):
                return self.conservative(c, flat, d)
            if d.startswith(EXT_FRESH_PREFIX):
                return []
            if d.startswith(EXT_ALIAS):
                return flat
            return self.conservative(c, flat, d)
        if k0 == 'builtin':
            return [] if kind[1] in BUILTIN_FRESH else flat
        if k0 == 'local':
            return list(dict.fromkeys(f.local_fns[kind[1]] + flat))
        if k0 == 'var':
            out = []
            for sub in kind[1]:
                if sub[0] == 'ext':
                    if not sub[1].startswith(EXT_FRESH_PREFIX):
                        out += self.conservative(c, flat, sub[1])
                elif sub[0] == 'fn':
                    for q in sub[1]:
                        out += self.apply_summary(q, None, args, kws, c, starred)
                elif sub[0] == 'class':
                    out += self.construct(sub[1], c, args, starred, kws, flat)
            return out
        if k0 == 'fn':
            out = []
            for q in kind[1]:
                out += self.apply_summary(q, None, args, kws, c, starred)
            return out
        if k0 == 'class':
            return self.construct(kind[1], c, args, starred, kws, flat)
        if k0 == 'method':
            recv_e, m = kind[1], kind[2]
            recv = self.expr(recv_e)
            ts = self.typeof(recv_e)
            if m == '__class__':                 # obj.__class__(...): constructor of the receiver's class
                out = list(dict.fromkeys(recv + flat))
                for t in ts:
                    out += self.construct(t, c, args, starred, kws, flat)
                return out
            quals = []
            for t in ts:
                if w.is_property(t, m):
                    # value of a property is called: a third-party callable (SciPy interpolator) -- trusted pure
                    for q in w.method_quals(t, m, True):
                        self.apply_summary(q, recv, [], {}, c)
                    f.notes.add(f'call-of-property-value(assumed pure third-party callable):{t}.{m}')
                    return []
                quals += w.method_quals(t, m, True)
                quals += [('cm', q) for q in w.attr_callees.get((t, m), [])]
            if not quals:
                if m in ND_INPLACE_METHODS or (m.startswith('__i') and m.endswith('__') and m not in ('__init__', '__iter__',
                                               '__int__', '__index__', '__invert__')) or m in ('__setitem__', '__delitem__'):
                    for v in recv:
                        f.emit('write', v, c.lineno, ast.unparse(c)[:60])
                    return []
                if m == 'shuffle':                  # random_state.shuffle(x) permutes x in place
                    for v in flat:
                        f.emit('write', v, c.lineno, ast.unparse(c)[:60])
                    return []
                if m in CONTAINER_STORE_METHODS:
                    for v in recv:
                        if flat:
                            f.emit('alias', v, flat)
                    return []
                if m in ND_VIEW_METHODS:
                    return list(dict.fromkeys(recv + flat))
                if m in ND_FRESH_METHODS:
                    w.nd_used[m] += 1
                    return []
                for cname, cis in w.classes.items():
                    for ci in cis:
                        if m in ci.methods:
                            quals.append(f'{ci.mod.short}.{cname}.{m}')
                        if (cname, m) in w.attr_callees:
                            quals += [('cm', q) for q in w.attr_callees[(cname, m)]]
                if not quals:
                    f.notes.add(f'method-of-unknown-object(assumed pure third-party):{m}')
                    return []
            out = []
            for q in dict.fromkeys(quals):
                if isinstance(q, tuple):
                    out += self.apply_summary(q[1], None, args, kws, c, starred)
                elif w.sigs[q]['kind'] in ('classmethod', 'staticmethod'):
                    out += self.apply_summary(q, None, args, kws, c, starred)
                else:
                    out += self.apply_summary(q, recv, args, kws, c, starred)
            return out
        return self.conservative(c, flat, str(kind[1]))

    # ------------------------------------------------------------------ statements
    def depth_of(self, e):
        """sources of the fresh-python-container depth of the value of `e`: a list display / comprehension / list() /
        dict() creates a NEW container, so a subscript *store* into it does not write to any array buffer"""
        def num(x):
            if isinstance(x, (ast.List, ast.Tuple, ast.Set)):
                return 1 + (min([num(y) for y in x.elts]) if x.elts else 0)
            if isinstance(x, (ast.ListComp, ast.SetComp)):
                return 1 + num(x.elt)
            if isinstance(x, (ast.Dict, ast.DictComp)):
                return 1
            if isinstance(x, ast.Call) and isinstance(x.func, ast.Name) and x.func.id in ('list', 'dict', 'set') and \
                    x.func.id not in self.f.cur:
                return 1
            if isinstance(x, ast.BinOp) and isinstance(x.op, (ast.Add, ast.Mult)) and \
                    any(isinstance(y, (ast.List, ast.ListComp)) for y in (x.left, x.right)):
                return 1
            return 0
        if isinstance(e, ast.Name):
            return self.lookup(e.id) or [0]
        if isinstance(e, ast.IfExp):
            return self.depth_of(e.body) + self.depth_of(e.orelse)
        return [num(e)]

    def assign_target(self, t, srcs, lineno, node, depth=(0,)):
        f = self.f
        if isinstance(t, ast.Name):
            v = f.new(t.id, depth)
            if srcs:
                f.emit('alias', v, list(dict.fromkeys(srcs)))
            else:
                f.emit('alloc', v)
        elif isinstance(t, (ast.Tuple, ast.List)):
            for x in t.elts:
                self.assign_target(x, srcs, lineno, node)
        elif isinstance(t, ast.Starred):
            self.assign_target(t.value, srcs, lineno, node)
        elif isinstance(t, ast.Subscript):
            base = self.expr(t.value)
            self.expr(t.slice)
            k, root = 1, t.value
            while isinstance(root, ast.Subscript):
                k, root = k + 1, root.value
            for v in base:
                if isinstance(root, ast.Name):
                    f.emit('cwrite', v, lineno, ast.unparse(node)[:60], k)    # decided in finish(): container or array
                else:
                    f.emit('write', v, lineno, ast.unparse(node)[:60])
                if srcs:
                    f.emit('alias', v, list(dict.fromkeys(srcs)))     # containers: the element is stored by reference
        elif isinstance(t, ast.Attribute):
            base = self.expr(t.value)
            for v in base:
                if t.attr in ('shape', 'dtype', 'strides', 'real', 'imag', 'flat', 'data', 'T'):
                    f.emit('write', v, lineno, ast.unparse(node)[:60])   # x.shape = .. / x.real = .. change the array itself
                if srcs:                                             # otherwise: the object now holds the value
                    f.emit('alias', v, list(dict.fromkeys(srcs)))

    def record_callable(self, targets, value):
        """track names / attributes bound to functions:  solver = eig if .. else eigh ;  self.g = getattr(Cls, name)"""
        f, w = self.f, self.w
        kinds = []
        vals = [value.body, value.orelse] if isinstance(value, ast.IfExp) else [value]
        for v in vals:
            if isinstance(v, ast.Call) and isinstance(v.func, ast.Name) and v.func.id == 'getattr' and v.args and \
                    isinstance(v.args[0], ast.Name):
                r = ('class', self.own) if v.args[0].id == 'cls' and self.own else self.resolve(v.args[0].id)
                if r is not None and r[0] == 'class':
                    qs = [q for ci in w.classes[r[1]] for q in (f'{ci.mod.short}.{r[1]}.{m}' for m in ci.methods)]
                    kinds.append(('fn', qs))
                    continue
            ext = self.ext_root(v)
            if ext is not None:
                kinds.append(('ext', ext))
                continue
            if isinstance(v, ast.Name) and v.id not in f.cur:
                r = self.resolve(v.id)
                if r is not None and r[0] in ('fn', 'class'):
                    kinds.append(r)
                    continue
            return
        for t in targets:
            if isinstance(t, ast.Name):
                f.fn_alias[t.id] = [k for k in f.fn_alias.get(t.id, []) if k not in kinds] + kinds
            elif isinstance(t, ast.Attribute) and isinstance(t.value, ast.Name) and t.value.id == 'self' and self.own:
                for k in kinds:
                    if k[0] == 'fn':
                        w.attr_callees[(self.own, t.attr)] |= set(k[1])

    def block(self, body):
        for st in body:
            self.stmt(st)

    def loop(self, target, iter_e, test, body, orelse, lineno, node):
        f = self.f
        srcs = self.expr(iter_e) if iter_e is not None else []
        assigned = names_assigned(body + ([target] if target is not None else []))
        heads = {}
        for n in sorted(assigned):
            before = f.cur.get(n)
            h = f.new(n, [before] if before is not None else [])
            heads[n] = (h, len(f.versions[n]))
            if before is not None:
                f.emit('alias', h, [before])
            else:
                f.emit('alloc', h)
        if target is not None:
            self.assign_target(target, srcs, lineno, node)
        if test is not None:
            self.expr(test)
        self.block(body)
        for n, (h, k) in heads.items():
            newer = f.versions[n][k:]
            if newer:
                f.emit('alias', h, newer)
                f.depth_src[h] += newer
            f.cur[n] = h
        self.block(orelse)

    def join(self, outs):
        f = self.f
        names = set()
        for o in outs:
            names |= set(o)
        for n in sorted(names):
            vs = list(dict.fromkeys(o[n] for o in outs if n in o))
            if len(vs) > 1:
                v = f.new(n, vs)
                f.emit('alias', v, vs)
            elif vs:
                f.cur[n] = vs[0]

    def stmt(self, st):
        f = self.f
        if isinstance(st, ast.Assign):
            srcs = self.expr(st.value)
            self.record_callable(st.targets, st.value)
            ts = self.typeof(st.value)
            dsrc = self.depth_of(st.value)
            for t in st.targets:
                self.assign_target(t, srcs, st.lineno, st, dsrc)
                if isinstance(t, ast.Name) and ts:
                    f.var_types[t.id] |= ts
        elif isinstance(st, ast.AnnAssign):
            if st.value is not None:
                self.assign_target(st.target, self.expr(st.value), st.lineno, st, self.depth_of(st.value))
        elif isinstance(st, ast.AugAssign):
            self.expr(st.value)
            if isinstance(st.target, ast.Name):
                tgt = self.lookup(st.target.id)
            else:
                tgt = self.expr(st.target)
                if isinstance(st.target, ast.Subscript):
                    tgt = self.expr(st.target.value)
            for v in tgt:
                f.emit('write', v, st.lineno, ast.unparse(st)[:60])
        elif isinstance(st, ast.Return):
            f.rets += self.expr(st.value)
        elif isinstance(st, ast.Expr):
            self.expr(st.value)
        elif isinstance(st, ast.If):
            self.expr(st.test)
            before = dict(f.cur)
            self.block(st.body)
            a = dict(f.cur)
            f.cur = dict(before)
            self.block(st.orelse)
            b = dict(f.cur)
            self.join([a, b])
        elif isinstance(st, ast.While):
            self.loop(None, None, st.test, st.body, st.orelse, st.lineno, st)
        elif isinstance(st, ast.For):
            self.loop(st.target, st.iter, None, st.body, st.orelse, st.lineno, st)
        elif isinstance(st, ast.Try):
            before = dict(f.cur)
            marks = {n: len(v) for n, v in f.versions.items()}
            self.block(st.body)
            self.block(st.orelse)
            outs = [dict(f.cur)]
            created = {n: v[marks.get(n, 0):] for n, v in f.versions.items() if len(v) > marks.get(n, 0)}
            for h in st.handlers:
                f.cur = dict(before)
                for n, vs in created.items():
                    hv = f.new(n, ([before[n]] if n in before else []) + vs)
                    f.emit('alias', hv, ([before[n]] if n in before else []) + vs)
                if h.type is not None:
                    self.expr(h.type)
                if h.name:
                    f.emit('alloc', f.new(h.name))
                self.block(h.body)
                outs.append(dict(f.cur))
            self.join(outs)
            self.block(st.finalbody)
        elif isinstance(st, ast.With):
            for it in st.items:
                srcs = self.expr(it.context_expr)
                if it.optional_vars is not None:
                    self.assign_target(it.optional_vars, srcs, st.lineno, st)
            self.block(st.body)
        elif isinstance(st, ast.Assert):
            self.expr(st.test)
            self.expr(st.msg)
        elif isinstance(st, ast.Raise):
            self.expr(st.exc)
            self.expr(st.cause)
        elif isinstance(st, ast.FunctionDef):
            self.nested(st.args, st.body, st.name)
            f.emit('alloc', f.new(st.name))
        elif isinstance(st, (ast.Import, ast.ImportFrom)):
            for a in st.names:
                if isinstance(st, ast.Import):
                    f.local_imports[a.asname or a.name.split('.')[0]] = ('mod', a.name if a.asname else a.name.split('.')[0])
                else:
                    f.local_imports[a.asname or a.name] = ('obj', st.module or '', a.name)
        elif isinstance(st, ast.Delete):
            for t in st.targets:
                if isinstance(t, ast.Subscript):
                    for v in self.expr(t.value):
                        f.emit('write', v, st.lineno, ast.unparse(st)[:60])
        elif isinstance(st, (ast.Pass, ast.Break, ast.Continue, ast.Global, ast.Nonlocal, ast.ClassDef)):
            pass
        else:
            f.notes.add('unhandled-statement:' + type(st).__name__)

    def finish(self):
        """deferred statements: star variables (all versions of a name), parameters of nested functions (anything);
        subscript stores into containers that are provably fresh python lists/dicts are not array writes"""
        f = self.f
        INF = 99
        depth = {v: INF for v in f.depth_src}
        changed = True
        while changed:
            changed = False
            for v, srcs in f.depth_src.items():
                d = min([x if isinstance(x, int) else depth.get(x, 0) for x in srcs] or [0])
                if d < depth[v]:
                    depth[v] = d
                    changed = True
        out = []
        for st in f.stmts:
            if st[0] == 'cwrite':
                if depth.get(st[1], 0) >= st[4] and depth.get(st[1], 0) != INF:
                    continue
                st = ('write',) + st[1:4]
            out.append(st)
        f.stmts = out
        for n, sv in f.stars.items():
            vs = [v for v in f.versions[n] if v != sv]
            if vs:
                f.emit('alias', sv, vs)
        if f.nested_params:
            everything = [v for vs in f.versions.values() for v in vs] + list(f.stars.values())
            everything = list(dict.fromkeys(everything))
            for p in f.nested_params:
                f.emit('alias', p, [v for v in everything if v != p])


# ----------------------------------------------------------------------------- whole-repo analysis
def may_sets(fn):
    """least may-alias certificate: parameters own themselves, closed under the alias statements"""
    may = collections.defaultdict(set)
    for p in fn.params:
        may[p].add(p)
    changed = True
    while changed:
        changed = False
        for s in fn.stmts:
            if s[0] == 'alias':
                x = s[1]
                for y in s[2]:
                    if not may[y] <= may[x]:
                        may[x] |= may[y]
                        changed = True
    return may


def analyse_repo(repo, files=None, sources=None):
    """-> dict(world, functions: qual -> record) ; record: params, stmts, rets, may, mutates, returns, sites, notes"""
    world = World(repo, (ANCHORED + OTHERS) if files is None else files, sources)
    world.attr_callees = collections.defaultdict(set)
    world.np_used = collections.Counter()
    world.nd_used = collections.Counter()
    world.sigs = {}
    for q in world.fn_nodes:
        f = FnCtx(world, q)
        world.sigs[q] = {'pos': f.pos_params, 'kwonly': f.kwonly, 'vararg': f.vararg, 'kwarg': f.kwarg, 'kind': f.kind}
    summaries = {}
    records = {}
    for rnd in range(12):
        new = {}
        n_attr = sum(len(v) for v in world.attr_callees.values())
        for q in world.fn_nodes:
            f = FnCtx(world, q)
            wk = Walker(f, summaries)
            wk.block(f.node.body)
            wk.finish()
            may = may_sets(f)
            sites = collections.defaultdict(list)
            for s in f.stmts:
                if s[0] == 'write':
                    for p in may[s[1]]:
                        sites[p].append((s[2], s[3]))
            rets = set()
            for v in f.rets:
                rets |= may[v]
            new[q] = {'mutates': sorted(sites), 'returns': sorted(rets)}
            records[q] = {'qual': q, 'fn': f, 'may': may, 'sites': dict(sites), 'mutates': sorted(sites),
                          'returns': sorted(rets), 'notes': sorted(f.notes)}
        stable = all(summaries.get(q) == new[q] for q in new) and \
            n_attr == sum(len(v) for v in world.attr_callees.values())
        summaries = new
        if stable:
            break
    else:
        raise RuntimeError('summaries did not stabilise')
    return {'world': world, 'functions': records, 'rounds': rnd + 1}


def to_ir(rec):
    """numbered IR of one function: params, statements (deduplicated), return variables, may table, summary"""
    f = rec['fn']
    ids = {}

    def vid(v):
        if v not in ids:
            ids[v] = len(ids)
        return ids[v]
    for p in f.params:
        vid(p)
    stmts, seen = [], set()
    for s in f.stmts:
        if s[0] == 'alloc':
            t = ('alloc', vid(s[1]))
        elif s[0] == 'alias':
            t = ('alias', vid(s[1]), tuple(vid(y) for y in s[2]))
        else:
            t = ('write', vid(s[1]))
        if t not in seen:
            seen.add(t)
            stmts.append(t)
    rets = sorted({vid(v) for v in f.rets})
    may = sorted((vid(v), sorted(vid(p) for p in ps)) for v, ps in rec['may'].items() if ps and v in ids)
    return {'name': rec['qual'], 'params': [vid(p) for p in f.params], 'param_names': list(f.params), 'stmts': stmts,
            'rets': rets, 'may': may, 'mutates': [vid(p) for p in rec['mutates']], 'returns': [vid(p) for p in rec['returns']]}


def _lean_list(xs):
    return '[' + ', '.join(str(x) for x in xs) + ']'


def _lean_stmt(s):
    if s[0] == 'alloc':
        return f'.alloc {s[1]}'
    if s[0] == 'alias':
        return f'.alias {s[1]} {_lean_list(s[2])}'
    return f'.write {s[1]}'


def emit_lean(result, path, repo):
    recs = result['functions']
    quals = sorted(recs)
    lines = ['import PbBss.Model.Effects',
             '/-! GENERATED by harness/translate/effects.py from the working tree of the repository -- do not edit.',
             '    Effect IR, may-alias certificates and callee summaries of every function of the analysed modules. -/',
             'namespace PbBss.Generated', 'open Eff', '']
    nstmts = 0
    for i, q in enumerate(quals):
        ir = to_ir(recs[q])
        nstmts += len(ir['stmts'])
        lines.append(f'/-- `{q}`  parameters: {", ".join(f"{n}={v}" for n, v in zip(ir["param_names"], ir["params"]))} -/')
        lines.append(f'def f{i} : Fn := ⟨"{q}", ⟨{_lean_list(ir["params"])}, [')
        body = ', '.join(_lean_stmt(s) for s in ir['stmts'])
        # keep lines short
        chunk, cur = [], ''
        for part in body.split(', .'):
            part = part if part.startswith('.') or not part else '.' + part
            if len(cur) + len(part) > 110:
                chunk.append(cur)
                cur = ''
            cur += (', ' if cur else '') + part
        if cur:
            chunk.append(cur)
        lines += ['    ' + c + (',' if j < len(chunk) - 1 else '') for j, c in enumerate(chunk)]
        lines.append(f'  ]⟩, /- rets -/ {_lean_list(ir["rets"])},')
        tab = ', '.join(f'({v}, {_lean_list(ps)})' for v, ps in ir['may'])
        lines.append(f'  /- may -/ [{tab}],')
        lines.append(f'  /- summary: mutates, returns -/ ⟨{_lean_list(ir["mutates"])}, {_lean_list(ir["returns"])}⟩⟩')
        lines.append('')
    exc = [i for i, q in enumerate(quals) if q in EXCEPTIONS]
    ent = [i for i, q in enumerate(quals) if q not in EXCEPTIONS]
    lines.append('/-- every analysed function -/')
    lines.append('def functions : List Fn := [' + ', '.join(f'f{i}' for i in range(len(quals))) + ']')
    lines.append('/-- all of them except the documented exception -/')
    lines.append('def entryPoints : List Fn := [' + ', '.join(f'f{i}' for i in ent) + ']')
    lines.append('/-- `set_snr(inplace=True)` rescales the noise argument in place (documented) -/')
    lines.append('def exceptions : List Fn := [' + ', '.join(f'f{i}' for i in exc) + ']')
    lines += ['', 'end PbBss.Generated', '']
    text = '\n'.join(lines)
    old = open(path).read() if os.path.exists(path) else None
    if old != text:
        os.makedirs(os.path.dirname(path), exist_ok=True)
        with open(path, 'w') as fh:
            fh.write(text)
    return nstmts


def flagged(result):
    """python-side verdict: functions with a write that may reach a parameter (set_snr is the documented exception)"""
    return {q: r['sites'] for q, r in result['functions'].items() if r['mutates']}


def generate(repo, path):
    res = analyse_repo(repo)
    n = emit_lean(res, path, repo)
    fl = flagged(res)
    return {'functions': len(res['functions']), 'statements': n, 'flagged': sorted(fl), 'rounds': res['rounds'],
            'result': res}


if __name__ == '__main__':
    import sys
    repo = sys.argv[1] if len(sys.argv) > 1 else '/repo'
    res = analyse_repo(repo)
    for q, sites in sorted(flagged(res).items()):
        print('MUTATES', q, sorted(sites))
        for p, ss in sites.items():
            for ln, src in ss[:3]:
                print('      ', p, 'line', ln, '|', src)
    notes = collections.Counter(n for r in res['functions'].values() for n in r['notes'])
    for n, k in sorted(notes.items()):
        print('note', k, n)
    print('functions', len(res['functions']), 'statements', sum(len(to_ir(r)['stmts']) for r in res['functions'].values()),
          'rounds', res['rounds'])
    if len(sys.argv) > 2:
        emit_lean(res, sys.argv[2], repo)

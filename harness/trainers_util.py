"""Shared helpers of C08 / C09: independent NumPy oracles of every trainer, written from the defining formulas
(loops over leading indices and classes; no einsum broadcasting of the code under test is reused), generators,
comparison helpers and parameter-domain predicates.

Conventions: a single data set is `y` with shape (N, D), weights `s` with shape (N,).  Mixture data are
`y` (F, N, D), affiliations (F, K, N), saliency (F, N); F = 1 stands for "no leading axis".
"""
import itertools
import math
from decimal import Decimal, getcontext

import numpy as np
from scipy.interpolate import interp1d
from scipy.special import hyp1f1, ive

from . import pyref

TINY = np.finfo(np.float64).tiny


# ----------------------------------------------------------------------------- small helpers
def herm(a):
    return (a + np.conj(np.swapaxes(a, -1, -2))) / 2


def unit_rows(y):
    """y / max(||y||, tiny) along the last axis (Watson / vMF / Bingham / integration models)"""
    n = np.sqrt(np.sum(np.abs(y) ** 2, axis=-1, keepdims=True))
    return y / np.maximum(n, TINY)


def unit_rows_where(y):
    """cACG `normalize_observation`: zero rows stay zero, every other row gets unit norm"""
    n = np.sqrt(np.sum(np.abs(y) ** 2, axis=-1, keepdims=True))
    return y / np.where(n == 0, TINY, n)


def err(a, b):
    """max |a-b| / (1 + max|b|): scale-aware error used for all float comparisons"""
    a = np.asarray(a)
    b = np.asarray(b)
    if a.shape != b.shape:
        return np.inf
    if a.size == 0:
        return 0.0
    with np.errstate(all='ignore'):
        d = np.abs(a - b)
    if not np.all(np.isfinite(d)):
        return np.inf
    return float(np.max(d) / (1.0 + np.max(np.abs(b))))


def proj(u):
    u = np.asarray(u)
    return u[..., :, None] * np.conj(u[..., None, :])


def cov_from_eig(U, e):
    return (U * e[..., None, :]) @ np.conj(np.swapaxes(U, -1, -2))


# ----------------------------------------------------------------------------- single-distribution oracles
def o_wsum(s, N):
    return float(N) if s is None else float(np.sum(s))


def o_gauss(y, s, cov_type):
    """weighted sample mean and pooled weighted scatter about it"""
    N, D = y.shape
    s = np.ones(N) if s is None else np.asarray(s, dtype=np.float64)
    W = s.sum()
    mean = np.zeros(D)
    for n in range(N):
        mean += s[n] * y[n]
    mean = mean / W
    C = np.zeros((D, D))
    for n in range(N):
        d = y[n] - mean
        C += s[n] * np.outer(d, d)
    C = C / W
    if cov_type == 'full':
        return mean, C
    if cov_type == 'diagonal':
        return mean, np.diag(C).copy(order='K')
    if cov_type == 'spherical':
        return mean, np.trace(C) / D
    raise ValueError(cov_type)


def o_scatter(y, s):
    """E[y y^H] = sum_n s_n y_n y_n^H / sum_n s_n"""
    N, D = y.shape
    s = np.ones(N) if s is None else np.asarray(s, dtype=np.float64)
    C = np.zeros((D, D), dtype=np.complex128)
    for n in range(N):
        C += s[n] * np.outer(y[n], np.conj(y[n]))
    return C / s.sum()


def watson_ratio(D, k):
    return hyp1f1(2, D + 1, k) / (D * hyp1f1(1, D, k))


_SPLINES = {}


def watson_inverse_table(D, max_concentration, spline_markers):
    """documented construction of the inverse hypergeometric ratio: quadratic interpolation of
    (ratio(x), x) on `spline_markers` log-spaced markers 1e-3..max, 0 below and max above the table"""
    key = (D, float(max_concentration), int(spline_markers))
    if key not in _SPLINES:
        x = np.logspace(-3, np.log10(max_concentration), spline_markers)
        yv = watson_ratio(D, x)
        _SPLINES[key] = (interp1d(yv, x, kind='quadratic', assume_sorted=True, bounds_error=False,
                                  fill_value=(0, max_concentration)), float(yv[0]), float(yv[-1]))
    return _SPLINES[key]


def o_watson(y, s, max_concentration=500, spline_markers=1000):
    """mode = principal eigenvector of the weighted scatter of the normalised data; concentration through the
    tabulated inverse ratio.  Returns mode, concentration, top eigenvalue, eigenvalue gap, scatter"""
    z = unit_rows(y)
    S = o_scatter(z, s)
    lam, U = np.linalg.eigh(herm(S))
    sp, lo, hi = watson_inverse_table(y.shape[-1], max_concentration, spline_markers)
    kappa = float(sp(lam[-1]))
    gap = lam[-1] - lam[-2] if len(lam) > 1 else np.inf
    return U[:, -1], kappa, float(lam[-1]), float(gap), S


def o_vmf(y, s, lo=1e-10, hi=500, normalise=True):
    z = unit_rows(y) if normalise else np.asarray(y, dtype=np.float64)
    N, D = z.shape
    s = np.ones(N) if s is None else np.asarray(s, dtype=np.float64)
    R = np.zeros(D)
    for n in range(N):
        R += s[n] * z[n]
    nrm = math.sqrt(float(np.sum(R * R)))
    mean = R / max(nrm, TINY)
    rbar = min(nrm / s.sum(), 1.0)          # the mean resultant length cannot exceed one (fix ed19db2)
    with np.errstate(all='ignore'):
        kappa = np.float64(rbar * D - rbar ** 3) / np.float64(1 - rbar ** 2)
    kappa = min(max(kappa, lo), hi)
    return mean, float(kappa), rbar


def o_cacg_cov(z, s, q, hermitize=True):
    """D * sum_n s_n z_n z_n^H / q_n / sum_n s_n   (z (N, D) unit rows, q > 0)"""
    N, D = z.shape
    s = np.ones(N) if s is None else np.asarray(s, dtype=np.float64)
    q = np.maximum(q, 10 * TINY)
    C = np.zeros((D, D), dtype=np.complex128)
    for n in range(N):
        C += (s[n] / q[n]) * np.outer(z[n], np.conj(z[n]))
    C = D * C / max(s.sum(), TINY)
    if hermitize:
        C = herm(C)
    return C


def o_cacg_from_cov(C, norm, floor):
    """eigen-decomposition + documented normalisation / floor.  Returns eigenvalues (ascending), eigenvectors"""
    D = C.shape[-1]
    if norm == 'trace':
        tr = np.trace(C)
        C = C / max(tr.real, TINY)
    lam, U = np.linalg.eigh(C)
    if norm == 'eigenvalue':
        e = lam / max(lam.max(), TINY)
        e = np.maximum(e, floor)
    else:
        e = np.maximum(lam, max(lam.max() * floor, TINY))      # relative floor, never below tiny (fix 1a7e8cd)
    return e, U


def o_cacg_quad(z, e, U):
    """q_n = max(|z_n^H B^-1 z_n|, tiny) with B = U diag(e) U^H"""
    a = z.conj() @ U                     # (N, D): entry (n, i) = z_n^H u_i
    q = np.sum((np.abs(a) ** 2) / e[None, :], axis=-1)
    return np.maximum(np.abs(q), TINY)


def o_cacg_logpdf(z, e, U):
    q = o_cacg_quad(z, e, U)
    D = z.shape[-1]
    return -D * np.log(q) - np.sum(np.log(e)), q


def o_cacg_fit(y, iterations, hermitize=True, norm='eigenvalue', floor=1e-10):
    z = unit_rows_where(y)
    q = np.ones(z.shape[0])
    for _ in range(iterations):
        e, U = o_cacg_from_cov(o_cacg_cov(z, None, q, hermitize), norm, floor)
        q = o_cacg_quad(z, e, U)
    return e, U


# --- complex Bingham normaliser in high precision (decimal), gradient of its logarithm
def bingham_grad_log_norm(lam, prec=120):
    """d log c / d lambda_i for c(lambda) = 2 pi^D sum_j exp(lambda_j) / prod_{k != j} (lambda_j - lambda_k)"""
    getcontext().prec = prec
    L = [Decimal(float(x)) for x in lam]
    D = len(L)
    term = []
    for j in range(D):
        p = Decimal(1)
        for k in range(D):
            if k != j:
                p *= (L[j] - L[k])
        term.append(L[j].exp() / p)
    c = sum(term)
    g = []
    for i in range(D):
        d = term[i] * (1 - sum(1 / (L[i] - L[k]) for k in range(D) if k != i))
        for j in range(D):
            if j != i:
                d += term[j] / (L[j] - L[i])
        g.append(float(d / c))
    return np.array(g)


def bingham_log_norm(lam, prec=120):
    getcontext().prec = prec
    L = [Decimal(float(x)) for x in lam]
    D = len(L)
    c = Decimal(0)
    for j in range(D):
        p = Decimal(1)
        for k in range(D):
            if k != j:
                p *= (L[j] - L[k])
        c += L[j].exp() / p
    return float((2 * Decimal(math.pi) ** D * c).ln())


def separate(lam, eps=1e-8):
    """the documented de-duplication of (ascending) eigenvalues: neighbouring gaps are at least eps"""
    lam = np.sort(np.asarray(lam, dtype=np.float64))
    d = np.maximum(np.diff(lam), eps)
    return np.concatenate([[lam[0]], lam[0] + np.cumsum(d)])


# ----------------------------------------------------------------------------- mixture weights
def o_weight(aff, sal, wca, gc_variant=False):
    """aff (F, K, N) [or (K, N)], sal (F, N) [or (N,)] or None; `wca` = weight_constant_axis as passed to the code
    (int, tuple or list).  Returns the weight with keepdims shape, or the string 'uniform' (= 1/K for every class) when
    the class axis is tied in the int form (plain models) / anywhere (integration models, gc_variant).
    Tuple form containing the class axis (plain models): the mean over all tied axes (no saliency), resp. an equal
    share 1/K of the L1-normalised sum (saliency; 0 where the saliency mass is 0)."""
    aff = np.asarray(aff, dtype=np.float64)
    nd = aff.ndim
    axes = wca_axes(wca)
    ax = tuple(sorted(a % nd for a in axes))
    K = aff.shape[-2]
    class_tied = (nd - 2) in ax
    if class_tied and (gc_variant or isinstance(wca, (int, np.integer))):
        return 'uniform'
    shape = [1 if i in ax else aff.shape[i] for i in range(nd)]
    out = np.zeros(shape)
    if sal is None:
        cnt = 1
        for a in ax:
            cnt *= aff.shape[a]
        for idx in np.ndindex(*aff.shape):
            o = tuple(0 if i in ax else idx[i] for i in range(nd))
            out[o] += aff[idx]
        return out / cnt
    sal = np.asarray(sal, dtype=np.float64)
    for idx in np.ndindex(*aff.shape):
        o = tuple(0 if i in ax else idx[i] for i in range(nd))
        sidx = idx[:-2] + idx[-1:]
        sidx = sidx[len(sidx) - sal.ndim:]
        sidx = tuple(0 if sal.shape[i] == 1 else sidx[i] for i in range(sal.ndim))
        out[o] += aff[idx] * sal[sidx]
    if gc_variant:
        return out / np.maximum(np.sum(out, axis=-2, keepdims=True), TINY)     # (fix aae1612)
    nrm = np.sum(np.abs(out), axis=-2, keepdims=True)
    nrm = np.where(nrm == 0, 1e-10, nrm)
    return out / nrm / (K if class_tied else 1)          # (fix 07e42d1: equal share when tied over the classes)


def posterior(weight, lp, eps=0.0):
    """Bayes posterior over axis -2 of `weight * exp(lp)` (weight broadcast), optional clipping"""
    lp = np.asarray(lp, dtype=np.float64)
    w = np.broadcast_to(weight, lp.shape)
    m = np.max(lp, axis=-2, keepdims=True)
    u = np.exp(lp - m) * w
    g = u / np.maximum(np.sum(u, axis=-2, keepdims=True), TINY)
    if eps != 0:
        g = np.clip(g, eps, 1 - eps)
    return g


# ----------------------------------------------------------------------------- log-densities (for the E-step oracles)
def lp_gauss(y, mean, cov, cov_type):
    D = y.shape[-1]
    d = y - mean
    if cov_type == 'full':
        sol = np.linalg.solve(cov, d.T).T
        quad = np.sum(d * sol, axis=-1)
        logdet = np.linalg.slogdet(cov)[1]
    elif cov_type == 'diagonal':
        quad = np.sum(d * d / cov, axis=-1)
        logdet = np.sum(np.log(cov))
    else:
        quad = np.sum(d * d, axis=-1) / cov
        logdet = D * np.log(cov)
    return -0.5 * D * np.log(2 * np.pi) - 0.5 * logdet - 0.5 * quad


def lp_vmf(z, mean, kappa):
    D = z.shape[-1]
    log_norm = (D / 2) * np.log(2 * np.pi) + np.log(ive(D / 2 - 1, kappa)) + kappa - (D / 2 - 1) * np.log(kappa)
    return kappa * (z @ mean) - log_norm


def lp_watson(z, mode, kappa):
    D = z.shape[-1]
    log_norm = np.log(hyp1f1(1, D, kappa) * 2 * np.pi ** D / math.factorial(D - 1))
    return kappa * np.abs(z @ np.conj(mode)) ** 2 - log_norm


def lp_bingham(z, U, lam):
    B = cov_from_eig(U, lam)
    quad = np.einsum('nd,de,ne->n', z.conj(), B, z).real
    return quad - bingham_log_norm(separate(lam))


# ----------------------------------------------------------------------------- inline alignment (oracle side)
def make_aligner(cfg):
    """cfg: None | {'kind': 'greedy', 'metric': m} | {'kind': 'dhtv', 'metric': m, 'algorithm': a, **dhtv_cfg}"""
    from pb_bss import permutation_alignment as pa
    if cfg is None:
        return None
    if cfg['kind'] == 'greedy':
        return pa.GreedyPermutationAlignment(similarity_metric=cfg['metric'])
    c = {k: cfg[k] for k in ('stft_size', 'segment_start', 'segment_width', 'segment_shift', 'main_iterations',
                             'sub_iterations')}
    return pa.DHTVPermutationAlignment(**c, similarity_metric=cfg['metric'], algorithm=cfg['algorithm'])


def o_align(aff, quad, cfg):
    """aff, quad: (F, K, N).  Mapping from the loop-level reference aligners of harness/pyref (C14), applied to both"""
    F, K, N = aff.shape
    mask = np.transpose(aff, (1, 0, 2))
    if cfg['kind'] == 'greedy':
        mapping, margin = pyref.ref_greedy_aligner(mask, cfg['metric'])
    else:
        plan = pyref.ref_plan(F, cfg['segment_start'], cfg['segment_width'], cfg['segment_shift'],
                              cfg['main_iterations'], cfg['sub_iterations'])
        mapping, _, margin = pyref.ref_dhtv(mask, plan, cfg['metric'], cfg['algorithm'])
    a2 = np.empty_like(aff)
    q2 = None if quad is None else np.empty_like(quad)
    for f in range(F):
        for k in range(K):
            a2[f, k] = aff[f, mapping[k, f]]
            if quad is not None:
                q2[f, k] = quad[f, mapping[k, f]]
    return a2, q2, margin


# ----------------------------------------------------------------------------- EM oracles of the seven mixture models
class Family:
    """component family of the five plain mixture models: M-step of one class of one leading index and its
    log-density (both from the formulas above)"""

    def __init__(self, name, **opt):
        self.name = name
        self.opt = opt

    def prepare(self, y):
        if self.name == 'gmm':
            return y
        if self.name == 'cacgmm':
            return unit_rows_where(y)
        return unit_rows(y)

    def mstep(self, z, g, q):
        o = self.opt
        if self.name == 'gmm':
            return o_gauss(z, g, o['covariance_type'])
        if self.name == 'vmfmm':
            return o_vmf(z, g, o['min_concentration'], o['max_concentration'])   # (mean, kappa, rbar)
        if self.name == 'cwmm':
            # scatter without the tiny floor on the denominator, inverse ratio through the documented table
            S = o_scatter(z, g)
            lam, U = np.linalg.eigh(S)
            sp, _, _ = watson_inverse_table(z.shape[-1], o['max_concentration'], o['spline_markers'])
            return U[:, -1], float(sp(lam[-1]))
        if self.name == 'cacgmm':
            C = o_cacg_cov(z, g, q, o['hermitize'])
            return o_cacg_from_cov(C, o['covariance_norm'], o['eigenvalue_floor'])
        if self.name == 'cbmm':
            S = herm(o_scatter(z, g))
            lam, U = np.linalg.eigh(S)
            ev = o['solver'](lam)
            return U, ev
        raise ValueError(self.name)

    def logpdf(self, z, p):
        if self.name == 'gmm':
            return lp_gauss(z, p[0], p[1], self.opt['covariance_type']), None
        if self.name == 'vmfmm':
            return lp_vmf(z, p[0], p[1]), None
        if self.name == 'cwmm':
            return lp_watson(z, p[0], p[1]), None
        if self.name == 'cacgmm':
            return o_cacg_logpdf(z, p[0], p[1])
        if self.name == 'cbmm':
            return lp_bingham(z, p[0], p[1]), None
        raise ValueError(self.name)


def em_oracle(fam, y, gamma0, sal, wca, n, eps=0.0, align=None, start=None):
    """n alternations of the oracle M- and E-steps.  y (F, N, D); gamma0 (F, K, N); sal (F, N) or None.
    start: fitted mixture object of the code -> one E-step under it, then one M-step (step-wise form).
    Returns (weight | 'uniform', params[f][k], min alignment decision margin)."""
    F, K, N = gamma0.shape
    z = np.stack([fam.prepare(y[f]) for f in range(F)])
    gamma = np.array(gamma0, dtype=np.float64)
    q = np.ones((F, K, N))
    w = params = None
    margin = np.inf
    if sal is None and fam.name != 'cacgmm':
        sal = np.ones((F, N))      # these trainers replace a missing saliency by ones (L1-renormalised weight branch)
    if start is not None:
        w, params = start_of(fam.name, start, F, K)
        n = 2
    for it in range(1 if start is not None else 0, n):
        if it > 0:
            lp = np.empty((F, K, N))
            for f in range(F):
                for k in range(K):
                    lp[f, k], qq = fam.logpdf(z[f], params[f][k])
                    if qq is not None:
                        q[f, k] = qq
            wb = np.full((F, K, 1), 1.0 / K) if isinstance(w, str) else w
            gamma = posterior(wb, lp, eps)
            if align is not None:
                gamma, q2, mg = o_align(gamma, q, align)
                q = q2
                margin = min(margin, mg)
        w = o_weight(gamma, sal, wca)
        params = [[fam.mstep(z[f], gamma[f, k] * (1 if sal is None else sal[f]), q[f, k]) for k in range(K)]
                  for f in range(F)]
    return w, params, margin


def int_em_oracle(kind, obs, emb, gamma0, sal, wca, n, opt, start=None, normalise_embedding=True):
    """integration models (GCACGMM / VMFCACGMM): obs (F, T, D) complex, emb (F, T, E) real, gamma0 (F, K, T).
    Spectral component (Gaussian / vMF) is shared by all bins, the cACG is per bin."""
    F, K, T = gamma0.shape
    E = emb.shape[-1]
    z = unit_rows(obs)
    e_all = emb.reshape(F * T, E)
    e_fit = e_all
    if kind == 'vmfcacgmm':
        e_all = unit_rows(e_all)            # the density is evaluated on directions
        e_fit = e_all if normalise_embedding else e_fit
    else:
        e_fit = e_all
    gamma = np.array(gamma0, dtype=np.float64)
    q = np.ones((F, K, T))
    salb = np.ones((F, T)) if sal is None else np.broadcast_to(sal, (F, T))
    w = spec = cacg = None
    if start is not None:
        from pb_bss.utils import unsqueeze
        wv = np.asarray(start.weight, dtype=np.float64)
        w = 'uniform' if (-2 in wca_axes(wca)) else unsqueeze(wv, wca_axes(wca))
        if kind == 'gcacgmm':
            spec = [(start.gaussian.mean[k], start.gaussian.covariance[k]) for k in range(K)]
        else:
            spec = [(start.vmf.mean[k], float(start.vmf.concentration[k]), 0.0) for k in range(K)]
        cacg = [[(start.cacg.covariance_eigenvalues[f, k], start.cacg.covariance_eigenvectors[f, k]) for k in range(K)]
                for f in range(F)]
        n = 2
    for it in range(1 if start is not None else 0, n):
        if it > 0:
            spatial = np.empty((F, K, T))
            spectral = np.empty((F, K, T))
            for k in range(K):
                if kind == 'gcacgmm':
                    lp = lp_gauss(e_all, spec[k][0], spec[k][1], opt['covariance_type'])
                else:
                    lp = lp_vmf(e_all, spec[k][0], spec[k][1])
                spectral[:, k, :] = lp.reshape(F, T)
                for f in range(F):
                    spatial[f, k], q[f, k] = o_cacg_logpdf(z[f], cacg[f][k][0], cacg[f][k][1])
            spatial *= opt['spatial_weight']
            spectral *= opt['spectral_weight']
            wb = np.full((1, K, 1), 1.0 / K) if isinstance(w, str) else w
            if opt['inline_permutation_alignment']:
                gamma = np.empty((F, K, T))
                for f in range(F):
                    best, bestv = None, -np.inf
                    for p in itertools.permutations(range(K)):
                        lp = spatial[f, list(p)] + spectral[f]
                        c = posterior(1.0, lp)
                        v = float(np.sum(c * lp))
                        if v > bestv:
                            best, bestv = p, v
                    gamma[f] = posterior(np.broadcast_to(wb, (F, K, T))[f], spatial[f, list(best)] + spectral[f],
                                         opt['affiliation_eps'])
            else:
                gamma = posterior(wb, spatial + spectral, opt['affiliation_eps'])
        masked = gamma * salb[:, None, :]
        w = o_weight(gamma, salb, wca, gc_variant=True)
        spec = []
        for k in range(K):
            g = masked[:, k, :].reshape(F * T)
            if kind == 'gcacgmm':
                spec.append(o_gauss(e_all, g, opt['covariance_type']))
            else:
                spec.append(o_vmf(e_fit, g, opt['min_concentration'], opt['max_concentration'], normalise=normalise_embedding))
        cacg = [[o_cacg_from_cov(o_cacg_cov(z[f], masked[f, k], q[f, k], opt['hermitize']), opt['covariance_norm'],
                                 opt['eigenvalue_floor']) for k in range(K)] for f in range(F)]
    return w, spec, cacg


# ----------------------------------------------------------------------------- generators
def gen_saliency(rng, shape, kind=None):
    kind = kind or str(rng.choice(['none', 'uniform', 'sparse', 'integer', 'tiny-scale', 'huge-scale']))
    if kind == 'none':
        return None, kind
    if kind == 'uniform':
        s = rng.random(shape) + 1e-3
    elif kind == 'sparse':
        s = rng.random(shape) * (rng.random(shape) < 0.6)
        s[..., 0] = rng.random(shape[:-1]) + 0.1      # positive sum
    elif kind == 'integer':
        s = rng.integers(1, 5, size=shape).astype(np.float64)
    elif kind == 'tiny-scale':
        s = (rng.random(shape) + 1e-3) * 1e-12
    else:
        s = (rng.random(shape) + 1e-3) * 1e12
    return s, kind


def gen_real(rng, shape):
    y = rng.normal(size=shape)
    if rng.random() < 0.3:
        y = y * np.exp(rng.normal(size=shape[:-2] + (1, shape[-1])) * 2) + rng.normal(size=shape[:-2] + (1, shape[-1])) * 3
    return y


def gen_complex(rng, shape):
    y = rng.normal(size=shape) + 1j * rng.normal(size=shape)
    if rng.random() < 0.3:                              # a dominant direction
        d = rng.normal(size=shape[:-2] + (1, shape[-1])) + 1j * rng.normal(size=shape[:-2] + (1, shape[-1]))
        y = y + d * (rng.normal(size=shape[:-1] + (1,)) + 1j * rng.normal(size=shape[:-1] + (1,))) * 3
    return y


def gen_affiliation(rng, F, K, N, hard=False):
    if hard and N >= K:        # every class keeps positive mass
        lab = rng.integers(0, K, size=(F, N))
        for f in range(F):                               # positive class mass
            perm = rng.permutation(N)
            for k in range(min(K, N)):
                lab[f, perm[k]] = k
        g = np.zeros((F, K, N))
        for f in range(F):
            g[f, lab[f], np.arange(N)] = 1.0
        return g
    g = rng.random((F, K, N)) ** int(rng.integers(1, 4)) + 1e-3
    return g / g.sum(1, keepdims=True)


def degenerate_data(rng, kind, N, D, complex_):
    """one data set (N, D) of the degenerate stream"""
    g = (lambda sh: rng.normal(size=sh) + 1j * rng.normal(size=sh)) if complex_ else (lambda sh: rng.normal(size=sh))
    if kind == 'zero':
        y = np.zeros((N, D), dtype=np.complex128 if complex_ else np.float64)
    elif kind == 'some-zero':
        y = g((N, D))
        y[rng.random(N) < 0.5] = 0
    elif kind == 'duplicated':
        y = np.repeat(g((1, D)), N, axis=0)
    elif kind == 'two-points':
        p = g((2, D))
        y = p[rng.integers(0, 2, size=N)]
    elif kind == 'collinear':
        c = g((N, 1)) if complex_ else rng.normal(size=(N, 1))
        y = c * g((1, D))
    elif kind == 'collinear-offset':
        y = rng.normal(size=(N, 1)) * g((1, D)) + g((1, D))
    elif kind == 'rank2':
        y = g((N, 2)) @ g((2, D)) if D >= 2 else g((N, D))
    elif kind == 'huge':
        y = g((N, D)) * 1e150
    elif kind == 'tiny':
        y = g((N, D)) * 1e-150
    elif kind == 'regular':
        y = g((N, D))
    else:
        raise ValueError(kind)
    return y


DEGENERATE = ['zero', 'some-zero', 'duplicated', 'two-points', 'collinear', 'collinear-offset', 'rank2', 'huge',
              'tiny', 'regular']


# ----------------------------------------------------------------------------- domain predicates (C09)
def class_mass_positive(model, init, saliency):
    """quantifier of C08 / C09: every class starts with positive (saliency-weighted) mass"""
    mass = init if saliency is None else init * np.asarray(saliency)[..., None, :]
    if model in ('gcacgmm', 'vmfcacgmm'):
        return not (np.any(np.sum(mass, axis=(0, 2)) == 0) or np.any(np.sum(mass, axis=2) == 0))
    return not np.any(np.sum(mass, axis=-1) == 0)


def tied_saliency_positive(shape, saliency, wca):
    """the saliency sums to a positive value over the tied (non-class) axes for every remaining index"""
    if saliency is None:
        return True
    nd = len(shape)
    ax = tuple(a % nd for a in wca_axes(wca) if a % nd != nd - 2)
    s_full = np.broadcast_to(np.asarray(saliency)[..., None, :], shape)
    tot = np.sum(s_full, axis=ax, keepdims=True) if ax else s_full
    return not np.any(tot == 0)


def finite(*arrs):
    return all(np.all(np.isfinite(np.asarray(a))) for a in arrs)


def check_weight(weight, aff_shape, axes, K, eps, squeezed=False):
    """returns None or (tag, description).  `axes`: tied axes as passed to the code (int or tuple)."""
    from pb_bss.utils import unsqueeze
    nd = len(aff_shape)
    ax_t = (axes,) if isinstance(axes, (int, np.integer)) else tuple(axes)
    ax = tuple(sorted(a % nd for a in ax_t))
    w = np.asarray(weight, dtype=np.float64)
    if not np.all(np.isfinite(w)):
        return 'weight-not-finite', f'weight contains NaN/Inf: {w.ravel()[:6]}'
    tuple_tied = (not isinstance(axes, (int, np.integer))) and (nd - 2) in ax
    if squeezed:
        try:
            w = unsqueeze(w, ax_t)
        except Exception as e:  # noqa
            return 'weight-shape', f'weight of shape {np.shape(weight)} cannot be unsqueezed along {ax_t}: {e}'
        want = tuple(1 if i in ax else aff_shape[i] for i in range(nd))
        if (nd - 2) in ax:
            if w.size != 1:
                return 'weight-shape', f'weight tied over the classes has shape {np.shape(weight)}'
            w = np.full((1,) * (nd - 2) + (K, 1), float(w.ravel()[0]))
        elif w.shape != want:
            return 'weight-shape', f'unsqueezed weight shape {w.shape} != documented {want}'
    else:
        if isinstance(axes, (int, np.integer)) and axes % nd == nd - 2:
            want = (K, 1)
        else:
            want = tuple(1 if i in ax else aff_shape[i] for i in range(nd))
        if w.shape != want:
            return 'weight-shape', f'weight shape {w.shape} != documented {want} (tied axes {ax_t})'
        if w.shape[-2] == 1 and K > 1:
            # one stored value stands for every class: the effective per-class weight
            w = np.broadcast_to(w, w.shape[:-2] + (K,) + w.shape[-1:])
    if np.any(w < 0):
        return 'weight-negative', f'negative mixture weight {w.min()}'
    ssum = np.sum(w, axis=-2)
    tol = K * eps + 1e-9
    if np.any(np.abs(ssum - 1) > tol):
        if tuple_tied and not squeezed:
            return 'weight-tied-over-classes-tuple', (f'weight_constant_axis={ax_t} ties the weight over the classes; the stored '
                                                      f'value {np.asarray(weight).ravel()[:3]} stands for every class, so the weights sum to '
                                                      f'{ssum.ravel()[np.argmax(np.abs(ssum - 1))]} instead of 1 (the int form -2 returns 1/K)')
        return 'weight-sum', f'mixture weights sum to {ssum.ravel()[np.argmax(np.abs(ssum - 1))]} over the classes (tolerance {tol:g})'
    return None


def check_cacg(e, U, norm, floor):
    if not finite(e, U):
        return 'cacg-not-finite', 'cACG parameters contain NaN/Inf'
    D = U.shape[-1]
    G = np.conj(np.swapaxes(U, -1, -2)) @ U
    if np.max(np.abs(G - np.eye(D))) > 1e-8:
        return 'cacg-eigenvectors-not-unitary', f'||U^H U - I|| = {np.max(np.abs(G - np.eye(D))):.3g}'
    mx = np.max(e, axis=-1)
    if np.any(e <= 0):
        return 'cacg-eigenvalue-not-positive', f'cACG eigenvalue {e.min()} <= 0 (covariance_norm={norm}, floor={floor}): covariance not positive definite'
    # a class whose weighted scatter is exactly zero (all its frames are zero vectors): every eigenvalue is the floor
    # (eigenvalue normalisation) resp. tiny (trace / no normalisation, fix 1a7e8cd) -- DESIGN.md section 5, item 10
    zero_scatter = (mx == floor) & np.all(e == floor, axis=-1) if norm == 'eigenvalue' else (mx == TINY)
    if np.any(zero_scatter):
        return 'cacg-zero-scatter', (f'all-zero weighted scatter: every cACG eigenvalue equals {e[zero_scatter].ravel()[0]} '
                                     f'(covariance_norm={norm}, floor={floor}); documented: maximum 1 / unit trace, positive definite')
    if norm == 'eigenvalue':
        if np.any(e < floor * (1 - 1e-12)) or np.any(e > 1 + 1e-12):
            return 'cacg-eigenvalue-range', f'eigenvalues outside [floor, 1]: min {e.min()} max {e.max()} floor {floor}'
        if np.any(np.abs(mx - 1) > 1e-12):
            return 'cacg-max-eigenvalue-not-one', f'largest eigenvalue is {mx.ravel()[np.argmax(np.abs(mx - 1))]}, not 1'
    else:
        if np.any(e < floor * mx[..., None] * (1 - 1e-12)) or np.any(e <= 0):
            return 'cacg-eigenvalue-floor', f'eigenvalue below floor*max or not positive: min {e.min()} max {mx.max()}'
        if norm == 'trace':
            tr = np.sum(e, axis=-1)
            if np.any(tr < 1 - 1e-9) or np.any(tr > 1 + D * floor * mx + 1e-9):
                return 'cacg-trace-not-one', f'trace-normalised eigenvalues sum to {tr.ravel()[np.argmax(np.abs(tr - 1))]}'
    return None


def check_gauss_cov(cov, cov_type):
    cov = np.asarray(cov)
    if not finite(cov):
        return 'gauss-not-finite', 'Gaussian covariance contains NaN/Inf'
    if cov_type == 'full':
        asym = np.max(np.abs(cov - np.swapaxes(cov, -1, -2))) if cov.size else 0.0
        if asym > 1e-9 * (1 + np.max(np.abs(cov))):
            return 'gauss-cov-asymmetric', f'covariance asymmetry {asym:.3g}'
        for idx in np.ndindex(cov.shape[:-2]):
            c = herm(cov[idx]).real
            try:
                np.linalg.cholesky(c)
            except np.linalg.LinAlgError:
                # the code's own Cholesky accepted it: numerically singular; judged "up to rounding" like the symmetry
                ev = np.linalg.eigvalsh(c)
                if ev.min() < -1e-10 * max(ev.max(), TINY):
                    return 'gauss-cov-not-pd', f'covariance is not positive (semi)definite up to rounding (eigenvalues {ev.min():.3g} .. {ev.max():.3g})'
    else:
        if np.any(cov <= 0):
            return 'gauss-cov-not-pd', f'non-positive variance {cov.min()}'
    return None


ALLOWED_EXC = (ValueError, AssertionError, np.linalg.LinAlgError, RuntimeError, FloatingPointError,
               ZeroDivisionError, NotImplementedError)


# ----------------------------------------------------------------------------- calling the real trainers
MODELS = ['gmm', 'vmfmm', 'cwmm', 'cacgmm', 'cbmm', 'gcacgmm', 'vmfcacgmm']
COMPLEX_MODELS = {'cwmm', 'cacgmm', 'cbmm'}


def wca_arg(w):
    """JSON round trip turns tuples into lists; the trainers want tuples / ints"""
    if isinstance(w, (list, tuple)):
        return tuple(int(a) for a in w)
    return int(w)


def wca_axes(w):
    return (int(w),) if isinstance(w, (int, np.integer)) else tuple(int(a) for a in w)


def call_mixture(model, y, init, sal, n, opt, emb=None):
    """fit(initialization=init, iterations=n) of the real mixture trainer `model`; returns the fitted object"""
    from pb_bss import distribution as dist
    wca = wca_arg(opt['weight_constant_axis'])
    if isinstance(init, np.ndarray) or isinstance(init, (list, tuple)):
        init = np.array(init, dtype=np.float64)         # otherwise: a fitted model object (continued fit, cACGMM)
    y = np.array(y)
    sal = None if sal is None else np.array(sal, dtype=np.float64)
    if model == 'gmm':
        return dist.GMMTrainer().fit(y, initialization=init, iterations=n, saliency=sal, weight_constant_axis=wca,
                                     covariance_type=opt['covariance_type'])
    if model == 'vmfmm':
        return dist.VMFMMTrainer().fit(y, initialization=init, iterations=n, saliency=sal, weight_constant_axis=wca,
                                       min_concentration=opt['min_concentration'],
                                       max_concentration=opt['max_concentration'])
    if model == 'cwmm':
        tr = dist.CWMMTrainer(max_concentration=opt['max_concentration'], spline_markers=opt['spline_markers'])
        return tr.fit(y, initialization=init, iterations=n, saliency=sal, weight_constant_axis=wca,
                      inline_permutation_aligner=make_aligner(opt.get('aligner')))
    if model == 'cacgmm':
        return dist.CACGMMTrainer().fit(
            y, initialization=init, iterations=n, saliency=sal, weight_constant_axis=wca,
            hermitize=opt['hermitize'], covariance_norm=opt['covariance_norm'],
            affiliation_eps=opt['affiliation_eps'], eigenvalue_floor=opt['eigenvalue_floor'],
            inline_permutation_aligner=make_aligner(opt.get('aligner')))
    if model == 'cbmm':
        tr = dist.CBMMTrainer(max_concentration=opt['max_concentration'])
        return tr.fit(y, initialization=init, iterations=n, saliency=sal, weight_constant_axis=wca,
                      affiliation_eps=opt['affiliation_eps'],
                      inline_permutation_aligner=make_aligner(opt.get('aligner')))
    if model == 'gcacgmm':
        return dist.GCACGMMTrainer().fit(
            y, np.array(emb), initialization=init, iterations=n, saliency=sal, weight_constant_axis=wca,
            hermitize=opt['hermitize'], covariance_norm=opt['covariance_norm'],
            eigenvalue_floor=opt['eigenvalue_floor'], covariance_type=opt['covariance_type'],
            affiliation_eps=opt['affiliation_eps'], spatial_weight=opt['spatial_weight'],
            spectral_weight=opt['spectral_weight'], inline_permutation_alignment=opt['inline_permutation_alignment'])
    if model == 'vmfcacgmm':
        return dist.VMFCACGMMTrainer().fit(
            y, np.array(emb), initialization=init, iterations=n, saliency=sal, weight_constant_axis=wca,
            hermitize=opt['hermitize'], covariance_norm=opt['covariance_norm'],
            eigenvalue_floor=opt['eigenvalue_floor'], min_concentration=opt['min_concentration'],
            max_concentration=opt['max_concentration'],
            affiliation_eps=opt['affiliation_eps'], spatial_weight=opt['spatial_weight'],
            spectral_weight=opt['spectral_weight'], inline_permutation_alignment=opt['inline_permutation_alignment'])
    raise ValueError(model)


def family_of(model, opt, D):
    if model == 'gmm':
        return Family('gmm', covariance_type=opt['covariance_type'])
    if model == 'vmfmm':
        return Family('vmfmm', min_concentration=opt['min_concentration'], max_concentration=opt['max_concentration'])
    if model == 'cwmm':
        return Family('cwmm', max_concentration=opt['max_concentration'], spline_markers=opt['spline_markers'])
    if model == 'cacgmm':
        return Family('cacgmm', hermitize=opt['hermitize'], covariance_norm=opt['covariance_norm'],
                      eigenvalue_floor=opt['eigenvalue_floor'])
    if model == 'cbmm':
        from pb_bss.distribution.complex_bingham import ComplexBinghamTrainer

        def solver(lam):
            # the bounded least-squares solver is external (DESIGN 2.1); only its value is used
            return ComplexBinghamTrainer.find_eigenvalues_v3(lam, max_concentration=opt['max_concentration'],
                                                             eps=1e-8)
        return Family('cbmm', solver=solver)
    raise ValueError(model)


def fields_of(model, m, lead):
    """canonical view of a fitted mixture object: dict of arrays with an explicit leading axis F"""
    def L(a):
        a = np.asarray(a)
        return a if lead else a[None]
    if model == 'gmm':
        return {'mean': L(m.gaussian.mean), 'covariance': L(m.gaussian.covariance)}
    if model == 'vmfmm':
        return {'mean': L(m.vmf.mean), 'concentration': L(m.vmf.concentration)}
    if model == 'cwmm':
        return {'mode': L(m.complex_watson.mode), 'concentration': L(m.complex_watson.concentration)}
    if model == 'cacgmm':
        return {'eigenvectors': L(m.cacg.covariance_eigenvectors), 'eigenvalues': L(m.cacg.covariance_eigenvalues)}
    if model == 'cbmm':
        return {'eigenvectors': L(m.complex_bingham.covariance_eigenvectors),
                'eigenvalues': L(m.complex_bingham.covariance_eigenvalues)}
    raise ValueError(model)


def compare_params(model, fields, params, tol, gap_tol=1e-6):
    """fitted fields of the code vs oracle params[f][k]; returns None or (tag, description); 'skip:<why>' tag when a
    gauge-dependent quantity is not comparable (degenerate eigenvalue)"""
    F = len(params)
    K = len(params[0])
    for f in range(F):
        for k in range(K):
            p = params[f][k]
            if model == 'gmm':
                e1 = err(fields['mean'][f, k], p[0])
                e2 = err(fields['covariance'][f, k], p[1])
                if max(e1, e2) > tol:
                    return 'gaussian-parameters', f'class {k} bin {f}: mean err {e1:.3g}, covariance err {e2:.3g}'
            elif model == 'vmfmm':
                e1 = err(fields['mean'][f, k], p[0])
                # (rbar D - rbar^3)/(1 - rbar^2) has condition ~ max_concentration near rbar = 1, then saturates
                e2 = err(fields['concentration'][f, k], p[1]) * 1e-3
                if max(e1, e2) > tol:
                    return 'vmf-parameters', f'class {k} bin {f}: mean err {e1:.3g}, concentration err {e2:.3g}'
            elif model == 'cwmm':
                e1 = err(proj(fields['mode'][f, k]), proj(p[0]))
                e2 = err(fields['concentration'][f, k], p[1])
                if max(e1, e2) > tol:
                    return 'watson-parameters', f'class {k} bin {f}: mode projector err {e1:.3g}, concentration err {e2:.3g}'
            else:
                e, U = (p[0], p[1]) if model == 'cacgmm' else (p[1], p[0])
                e1 = err(np.sort(fields['eigenvalues'][f, k]), np.sort(e))
                e2 = err(cov_from_eig(fields['eigenvectors'][f, k], fields['eigenvalues'][f, k]), cov_from_eig(U, e))
                if max(e1, e2) > tol:
                    return ('cacg-parameters' if model == 'cacgmm' else 'bingham-parameters',
                            f'class {k} bin {f}: eigenvalue err {e1:.3g}, covariance err {e2:.3g}')
    return None


def start_of(name, m, F, K):
    """(weight, params[f][k]) of a fitted plain mixture object of the code, in the oracle's layout (leading axis F)"""
    first = {'gmm': lambda: m.gaussian.mean, 'vmfmm': lambda: m.vmf.mean, 'cwmm': lambda: m.complex_watson.mode,
             'cacgmm': lambda: m.cacg.covariance_eigenvalues, 'cbmm': lambda: m.complex_bingham.covariance_eigenvalues}[name]()
    lead = np.asarray(first).ndim == 3
    f = fields_of(name, m, lead)
    if name == 'gmm':
        params = [[(f['mean'][i, k], f['covariance'][i, k]) for k in range(K)] for i in range(F)]
    elif name == 'vmfmm':
        params = [[(f['mean'][i, k], float(f['concentration'][i, k]), 0.0) for k in range(K)] for i in range(F)]
    elif name == 'cwmm':
        params = [[(f['mode'][i, k], float(f['concentration'][i, k])) for k in range(K)] for i in range(F)]
    elif name == 'cacgmm':
        params = [[(f['eigenvalues'][i, k], f['eigenvectors'][i, k]) for k in range(K)] for i in range(F)]
    else:
        params = [[(f['eigenvectors'][i, k], f['eigenvalues'][i, k]) for k in range(K)] for i in range(F)]
    w = np.asarray(m.weight, dtype=np.float64)
    return (w if lead else w[None]), params


def ill_conditioned(model, m):
    """a class of the fitted object sits on a floor / bound or is numerically singular"""
    try:
        if model == 'gmm':
            c = np.asarray(m.gaussian.covariance)
            if c.ndim >= 2 and c.shape[-1] == c.shape[-2] and np.asarray(m.gaussian.mean).shape[-1] == c.shape[-1] \
                    and c.ndim == np.asarray(m.gaussian.mean).ndim + 1:
                return bool(np.max(np.linalg.cond(c)) > 1e8)
            return bool(np.min(c) < 1e-8 * np.max(c))
        if model == 'vmfmm':
            return False
        if model == 'cwmm':
            return False
        if model in ('cacgmm', 'gcacgmm', 'vmfcacgmm'):
            e = np.asarray(m.cacg.covariance_eigenvalues)
            return bool(np.min(e / np.max(e, axis=-1, keepdims=True)) < 1e-6)
        if model == 'cbmm':
            return bool(np.min(m.complex_bingham.covariance_eigenvalues) < -1e3)
    except Exception:  # noqa
        return True
    return False


def check_bingham(ev, V, max_concentration):
    ev = np.asarray(ev)
    V = np.asarray(V)
    if not finite(ev, V):
        return 'bingham-not-finite', 'Bingham parameters contain NaN/Inf'
    D = V.shape[-1]
    G = np.conj(np.swapaxes(V, -1, -2)) @ V
    if np.max(np.abs(G - np.eye(D))) > 1e-8:
        return 'bingham-eigenvectors-not-unitary', f'||V^H V - I|| = {np.max(np.abs(G - np.eye(D))):.3g}'
    mx = np.max(ev, axis=-1)
    rnd = 1e-12 * (1 + np.max(np.abs(ev)))          # the maximum is produced by a cumulative sum: zero up to rounding
    if np.any(ev > rnd):
        return 'bingham-eigenvalue-positive', f'eigenvalue {ev.max()} > 0 (documented: <= 0 with maximum 0)'
    if np.any(np.abs(mx) > rnd):
        return 'bingham-max-eigenvalue-not-zero', f'largest eigenvalue is {mx.ravel()[np.argmax(np.abs(mx))]}, not 0'
    if np.any(ev < -max_concentration * (1 + 1e-12)):
        return 'bingham-eigenvalue-below-bound', f'eigenvalue {ev.min()} < -max_concentration = {-max_concentration}'
    return None


# ----------------------------------------------------------------------------- correspondence: Lean model (driver) vs code
def _close(a, b, tol=1e-9):
    return err(a, b) <= tol


def corr_trainers(ctx, degenerate=False):
    """every M-step formula of the Lean model (lean/PbBss/Model/Trainers.lean, run by `driver_trainers` on Float)
    against the real trainers on the same inputs.  degenerate=True draws the data from the degenerate stream."""
    from pb_bss import distribution as dist
    from pb_bss.distribution import mixture_model_utils as mmu
    from pb_bss.distribution import complex_bingham as cb
    from .lean import cbits, fbits, parse_complex, parse_floats, parse_ints, run_driver
    rng = ctx.rng
    exe = 'driver_trainers'
    lines, metas = [], []

    def data(N, D, cplx):
        if degenerate:
            kind = str(rng.choice(DEGENERATE))
            return degenerate_data(rng, kind, N, D, cplx), kind
        return (gen_complex(rng, (N, D)) if cplx else gen_real(rng, (N, D))), 'regular'

    def sal_for(N):
        s, kind = gen_saliency(rng, (N,), str(rng.choice(['none', 'uniform', 'sparse', 'integer'])))
        return s, kind

    def salbits(s, N):
        return f'{0 if s is None else 1} ', fbits(np.zeros(N) if s is None else s)

    n_cases = ctx.n(160, 1200)
    for i in range(n_cases):
        D = int(rng.integers(1, 5))
        N = int(rng.integers(1, 9)) if degenerate else int(rng.integers(D + 1, D + 8))
        # --- Gaussian
        y, kind = data(N, D, False)
        s, sk = sal_for(N)
        ty = i % 3
        h, sb = salbits(s, N)
        lines.append(f'gauss {ty} {N} {D} {h}{sb} {fbits(y)}')
        metas.append(('gauss', dict(y=y, s=s, ty=ty)))
        ctx.count(f'corr-gauss-{["full", "diagonal", "spherical"][ty]}-{kind}-sal:{sk}')
        # --- complex Gaussian
        yc, kind = data(N, D, True)
        lines.append(f'cgauss {N} {D} {h}{sb} {cbits(yc)}')
        metas.append(('cgauss', dict(y=yc, s=s)))
        # --- vMF
        D2 = max(D, 2)
        yv, kind = data(N, D2, False)
        lo, hi = [(1e-10, 500.0), (1e-3, 50.0), (0.5, 5.0)][int(rng.integers(3))]
        lines.append(f'vmf {N} {D2} {h}{fbits([lo, hi])} {sb} {fbits(yv)}')
        metas.append(('vmf', dict(y=yv, s=s, lo=lo, hi=hi)))
        ctx.count(f'corr-vmf-{kind}')
        # --- Watson (spline value = external, taken from the real trainer's table at the code's own top eigenvalue)
        yw, kind = data(N, D2, True)
        mc = float(rng.choice([500, 100, 20]))
        tr = dist.ComplexWatsonTrainer(max_concentration=mc)
        try:
            mw = tr.fit(yw.copy(order='K'), saliency=None if s is None else s.copy(order='K'))
            z = unit_rows(yw)
            S = o_scatter(z, s)
            lam_code = float(np.linalg.eigvalsh(S)[-1])
            if np.isfinite(lam_code) and finite(mw.mode, mw.concentration):
                _, ylo, yhi = watson_inverse_table(D2, mc, 1000)
                spl = float(tr.hypergeometric_ratio_inverse(lam_code))
                lines.append(f'watson {N} {D2} {h}{fbits([ylo, yhi, mc, spl])} {sb} {cbits(yw)}')
                metas.append(('watson', dict(y=yw, s=s, m=mw, S=S, lam=lam_code, ylo=ylo, yhi=yhi)))
                ctx.count(f'corr-watson-{kind}')
        except ALLOWED_EXC:
            ctx.count('corr-watson-rejected')
        # --- cACG: weighted single step, whole fit, eigenvalue post-processing
        N3 = int(rng.integers(1, 9)) if degenerate else int(rng.integers(D2 + 1, D2 + 8))
        yz, kind = data(N3, D2, True)
        z = unit_rows_where(yz)
        herm_ = int(rng.random() < 0.7)
        norm = int(rng.integers(3))
        floor = float(rng.choice([1e-10, 1e-6, 1e-2]))
        q = rng.random(N3) + 0.05
        if degenerate and rng.random() < 0.3:
            q[rng.integers(N3)] = 0.0
        s3, sk3 = gen_saliency(rng, (N3,), str(rng.choice(['none', 'uniform', 'sparse', 'integer'])))
        h3, sb3 = salbits(s3, N3)
        lines.append(f'cacgstep {herm_} {norm} {N3} {D2} {h3}{fbits([floor])} {sb3} {fbits(q)} {cbits(z)}')
        metas.append(('cacgstep', dict(z=z, s=s3, q=q, herm=herm_, norm=norm, floor=floor)))
        its = int(rng.integers(1, 6))
        lines.append(f'cacgfit {herm_} {norm} {N3} {D2} {its} {fbits([floor])} {cbits(yz)}')
        metas.append(('cacgfit', dict(y=yz, its=its, herm=herm_, norm=norm, floor=floor)))
        ctx.count(f'corr-cacg-{["eigenvalue", "trace", "none"][norm]}-{kind}')
        lam = np.sort(rng.random(D2) * float(rng.choice([1.0, 1e-3, 1e3])))
        if rng.random() < 0.3:
            lam[:] = 0.0                                      # all-zero scatter
        elif rng.random() < 0.3:
            lam[0] = -1e-17
        nm = int(rng.integers(2)) * 2                         # 0 eigenvalue, 2 none
        lines.append(f'cacgeigs {nm} {D2} {fbits([floor])} {fbits(lam)}')
        metas.append(('cacgeigs', dict(lam=lam, norm=nm, floor=floor)))
        # --- Bingham: de-duplication and the tail of find_eigenvalues_v3 (solver output recorded from the real call)
        Db = int(rng.integers(2, 6))
        lam_b = np.sort(rng.random(Db))
        if rng.random() < 0.4:
            lam_b[1] = lam_b[0]
        eps_b = float(rng.choice([1e-8, 1e-3]))
        lines.append(f'removedup {Db} {fbits([eps_b])} {fbits(lam_b)}')
        metas.append(('removedup', dict(lam=lam_b, eps=eps_b)))
        sc = np.sort(rng.dirichlet(np.ones(Db) * float(rng.choice([0.3, 1.0, 5.0]))))
        mcb = float(rng.choice([np.inf, np.inf, 200.0, 20.0, 5.0]))
        rec = {}
        orig = cb.least_squares

        def spy(*a_, **k_):
            r = orig(*a_, **k_)
            rec['x'] = np.array(r.x, dtype=np.float64)
            return r
        cb.least_squares = spy
        try:
            est = cb.ComplexBinghamTrainer.find_eigenvalues_v3(sc.copy(order='K'), eps=1e-8, max_concentration=mcb)
        except ALLOWED_EXC:
            est = None
        finally:
            cb.least_squares = orig
        if est is not None and 'x' in rec and np.all(np.diff(sc) > 0):
            hm = 0 if np.isinf(mcb) else 1
            lines.append(f'bingham {Db} {hm} {fbits([0.0 if np.isinf(mcb) else mcb, 1e-8])} {fbits(rec["x"])}')
            metas.append(('bingham', dict(est=np.asarray(est), x=rec['x'], maxc=mcb)))
            ctx.count(f'corr-bingham-max{mcb}')
        # --- mixture weights
        F, K, T = int(rng.integers(1, 4)), int(rng.integers(1, 5)), int(rng.integers(1, 7))
        aff = gen_affiliation(rng, F, K, T, hard=rng.random() < (0.5 if degenerate else 0.2))
        if rng.random() < 0.3:
            aff = np.clip(aff, 1e-3, 1 - 1e-3)
        sw = rng.random((F, T)) + 1e-3
        if degenerate and rng.random() < 0.5:
            sw = sw * (rng.random((F, T)) < 0.5)
        v = int(rng.integers(11))
        lines.append(f'weight {v} {F} {K} {T} {fbits(aff)} {fbits(sw)}')
        metas.append(('weight', dict(v=v, aff=aff, s=sw)))
        ctx.count(f'corr-weight-variant{v}')
        # --- E-step of the cACG mixture (posterior with clipping + quadratic forms) under a fitted model of the code
        Ke, Ne, De = int(rng.integers(2, 4)), int(rng.integers(1, 7)), int(rng.integers(2, 5))
        ye, kind = data(max(Ne, De + 1) if not degenerate else Ne, De, True)
        Ne = ye.shape[0]
        g0 = gen_affiliation(rng, 1, Ke, Ne, hard=degenerate and rng.random() < 0.5)[0]
        eps_e = float(rng.choice([0.0, 1e-10, 1e-3]))
        try:
            me = dist.CACGMMTrainer().fit(ye.copy(order='K'), initialization=g0.copy(order='K'), iterations=int(rng.integers(1, 4)),
                                          weight_constant_axis=(-1,) if rng.random() < 0.7 else -2,
                                          eigenvalue_floor=float(rng.choice([1e-10, 1e-6, 1e-2])),
                                          covariance_norm=['eigenvalue', 'trace', False][int(rng.integers(3))])
            ze = unit_rows_where(ye)
            if finite(me.weight, me.cacg.covariance_eigenvalues, me.cacg.covariance_eigenvectors):
                wfull = np.broadcast_to(np.asarray(me.weight, dtype=np.float64), (Ke, Ne))
                lines.append(f'cacgmmestep {Ke} {Ne} {De} {fbits([eps_e])} {fbits(wfull)} '
                             f'{fbits(me.cacg.covariance_eigenvalues)} {cbits(me.cacg.covariance_eigenvectors)} {cbits(ze)}')
                metas.append(('cacgmmestep', dict(model=me, z=ze, eps=eps_e)))
                ctx.count(f'corr-cacgmmestep-{kind}-eps{eps_e}')
        except ALLOWED_EXC:
            ctx.count('corr-cacgmmestep-rejected')
    for n in range(1, 9):
        lines.append(f'emtrace {n}')
        metas.append(('emtrace', dict(n=n)))
    out = run_driver(lines, exe=exe)
    for (op, d), o in zip(metas, out):
        try:
            ok, detail = _corr_one(op, d, o, dist, mmu, cb, parse_floats, parse_complex, parse_ints)
        except ALLOWED_EXC as e:
            ctx.count(f'corr-{op}-rejected:{type(e).__name__}')
            continue
        if ok is None:
            ctx.count(f'corr-{op}-skipped:{detail}')
            continue
        ctx.corr(op, ok, detail, {k: v for k, v in d.items() if isinstance(v, (np.ndarray, int, float, str, type(None)))})
    ctx.sample({'op': 'corr', 'ops': sorted(set(m[0] for m in metas)), 'lines': len(lines), 'degenerate': degenerate})


def _corr_one(op, d, o, dist, mmu, cb, parse_floats, parse_complex, parse_ints):
    cp = lambda a: None if a is None else np.array(a)  # noqa: E731
    if op == 'gauss':
        ct = ['full', 'diagonal', 'spherical'][d['ty']]
        m = dist.GaussianTrainer().fit(cp(d['y']), saliency=cp(d['s']), covariance_type=ct)
        got = parse_floats(o)
        D = d['y'].shape[1]
        want = np.concatenate([np.ravel(m.mean), np.ravel(m.covariance)])
        return _close(got, want), f'gauss {ct}: model {got[:4]} code {want[:4]} err {err(got, want):.3g}'
    if op == 'cgauss':
        m = dist.ComplexCircularSymmetricGaussianTrainer().fit(cp(d['y']), saliency=cp(d['s']))
        got = parse_complex(o)
        return _close(got, np.ravel(m.covariance)), f'cgauss err {err(got, np.ravel(m.covariance)):.3g}'
    if op == 'vmf':
        m = dist.VonMisesFisherTrainer().fit(cp(d['y']), saliency=cp(d['s']), min_concentration=d['lo'], max_concentration=d['hi'])
        got = parse_floats(o)
        want = np.concatenate([np.ravel(m.mean), [float(m.concentration)]])
        if not finite(want):
            return None, 'code-not-finite'
        e1 = err(got[:-1], want[:-1])
        # the concentration is discontinuous where r_bar rounds to 1 (saturation): judged with the decision margin
        _, _, rbar = o_vmf(d['y'], d['s'], d['lo'], d['hi'])
        # condition of the Banerjee quotient <= ~max_concentration before the clip saturates; with r_bar clamped to 1
        # (fix ed19db2) a collinear class saturates at max on both sides, so no rounding tie remains
        e2 = err(got[-1], want[-1]) * 1e-3
        return max(e1, e2) <= 1e-9, f'vmf model {got} code {want} (rbar {rbar})'
    if op == 'watson':
        got = parse_floats(o)
        D = d['y'].shape[1]
        mode = got[:2 * D].view(np.complex128)
        lam, conc = got[2 * D], got[2 * D + 1]
        m = d['m']
        ok_l = abs(lam - d['lam']) <= 1e-9
        ok_c = err(conc, float(m.concentration)) <= 1e-7 or min(abs(d['lam'] - d['ylo']), abs(d['lam'] - d['yhi'])) < 1e-9
        ev = np.linalg.eigvalsh(herm(d['S']))
        gap = ev[-1] - ev[-2] if len(ev) > 1 else 1.0
        if gap < 1e-6:
            return (ok_l and ok_c), f'watson (degenerate top eigenvalue: mode not compared) lam {lam} vs {d["lam"]}, conc {conc} vs {m.concentration}'
        ok_m = err(proj(mode), proj(np.asarray(m.mode))) <= 1e-9 / min(gap, 1.0)
        return (ok_l and ok_c and ok_m), f'watson lam {lam} vs {d["lam"]}, conc {conc} vs {m.concentration}, mode-projector err {err(proj(mode), proj(np.asarray(m.mode))):.3g}'
    if op in ('cacgstep', 'cacgfit'):
        norm = ['eigenvalue', 'trace', False][d['norm']]
        if op == 'cacgstep':
            z = d['z']
            if d['s'] is None:
                m = dist.ComplexAngularCentralGaussianTrainer()._fit(
                    y=np.ascontiguousarray(z.T), saliency=None, quadratic_form=cp(d['q']), hermitize=bool(d['herm']),
                    covariance_norm=norm, eigenvalue_floor=d['floor'])
                e, U = m.covariance_eigenvalues, m.covariance_eigenvectors
            else:
                m = dist.ComplexAngularCentralGaussianTrainer()._fit(
                    y=np.ascontiguousarray(z.T)[None], saliency=cp(d['s'])[None], quadratic_form=cp(d['q'])[None],
                    hermitize=bool(d['herm']), covariance_norm=norm, eigenvalue_floor=d['floor'])
                e, U = m.covariance_eigenvalues[0], m.covariance_eigenvectors[0]
        else:
            m = dist.ComplexAngularCentralGaussianTrainer().fit(
                cp(d['y']), hermitize=bool(d['herm']), covariance_norm=norm, eigenvalue_floor=d['floor'], iterations=d['its'])
            e, U = m.covariance_eigenvalues, m.covariance_eigenvectors
        got = parse_floats(o)
        D = len(e)
        ge = got[:D]
        gc = got[D:].view(np.complex128).reshape(D, D)
        e1 = err(np.sort(ge), np.sort(e))
        e2 = err(gc, cov_from_eig(U, e))
        # the code contracts z^H U diag(1/e) U^H z in an order that forms B^-1: its quadratic forms carry a relative error
        # of cond(B) * eps, which every further iteration inherits (DESIGN 2.3: scale includes the condition number)
        with np.errstate(all='ignore'):
            cond = float(np.max(e) / max(np.min(e), TINY))
        tol = 1e-8 + (2e-15 * cond * d['its'] if op == 'cacgfit' else 0.0)
        return max(e1, e2) <= tol, f'{op} norm={norm}: eigenvalue err {e1:.3g} covariance err {e2:.3g} tol {tol:.3g} (model {ge}, code {e})'
    if op == 'cacgeigs':
        norm = ['eigenvalue', 'trace', False][d['norm']]
        m = dist.ComplexAngularCentralGaussian.from_covariance(np.diag(d['lam']).astype(np.complex128), eigenvalue_floor=d['floor'],
                                                               covariance_norm=norm)
        got = np.sort(parse_floats(o))
        want = np.sort(m.covariance_eigenvalues)
        ok = bool(np.all(np.abs(got - want) <= 1e-12 * np.maximum(np.abs(got), np.abs(want))))     # element-wise relative: tiny != 0
        return ok, f'cacgeigs norm={norm} model {got} code {want}'
    if op == 'removedup':
        _, want = cb.ComplexBingham._remove_duplicate_eigenvalues(cp(d['lam']), eps=d['eps'])
        got = parse_floats(o)
        return _close(got, want, 1e-12), f'removedup model {got} code {want}'
    if op == 'bingham':
        got = parse_floats(o)
        return _close(got, d['est'], 1e-12), f'bingham tail model {got} code {d["est"]} (solver x {d["x"]}, max {d["maxc"]})'
    if op == 'weight':
        v, aff, s = d['v'], d['aff'], d['s']
        F, K, T = aff.shape
        got = parse_floats(o)
        if v == 10:
            want = mmu.estimate_mixture_weight(cp(aff), cp(s), (-2,))
            return _close(got, np.ravel(want)), f'weight (-2,) tuple form with saliency: model {got[:4]} code {np.ravel(want)[:4]}'
        if v <= 6:
            wca = [(-1,), (-3,), (-3, -1), -2, (-1,), (-3,), (-3, -1)][v]
            want = mmu.estimate_mixture_weight(cp(aff), None if v <= 3 else cp(s), wca)
            if v == 3:
                want = np.ravel(want)
            return _close(got, np.ravel(want)), f'weight variant {v}: err {err(got, np.ravel(want)):.3g}'
        wca = [(-1,), (-3,), (-3, -1)][v - 7]
        obs = np.exp(1j * np.arange(F * T * 2).reshape(F, T, 2)) + 0.3
        emb = np.cos(np.arange(F * T * 2).reshape(F, T, 2) * 1.7) + np.arange(2)
        m = dist.GCACGMMTrainer().fit(obs, emb, initialization=cp(aff), iterations=1, saliency=cp(s), weight_constant_axis=wca)
        return _close(got, np.ravel(m.weight)), f'integration weight {wca}: err {err(got, np.ravel(m.weight)):.3g}'
    if op == 'cacgmmestep':
        me, z, eps = d['model'], d['z'], d['eps']
        K, N = me.cacg.covariance_eigenvalues.shape[0], z.shape[0]
        aff, q, _ = me._predict(np.ascontiguousarray(z.T), affiliation_eps=eps)
        got = parse_floats(o)
        ga, gq = got[:K * N].reshape(K, N), got[K * N:].reshape(K, N)
        with np.errstate(all='ignore'):
            e_ = me.cacg.covariance_eigenvalues
            cond = float(np.max(np.max(e_, -1) / np.maximum(np.min(e_, -1), TINY)))
        if not (finite(aff, q) and np.isfinite(cond)) or cond > 1e12:
            return None, 'ill-conditioned-model'
        if np.max(q) > 1e150:
            # the model takes |s| as sqrt(re^2 + im^2) (np.abs uses hypot): beyond 1e154 the square overflows in Float;
            # only reached with a zero-scatter class (eigenvalues = tiny), Float-vs-R gap of the trusted base
            return None, 'quadratic-form-beyond-sqrt-range'
        tol = 1e-9 + 1e-14 * cond
        with np.errstate(all='ignore'):
            e1 = float(np.max(np.abs(np.log(gq) - np.log(q))))        # quadratic forms span many decades: relative
        e2 = err(ga, aff)
        return (e1 <= tol and e2 <= tol * 10), f'cacgmm E-step: log quadratic-form err {e1:.3g}, posterior err {e2:.3g}, tol {tol:.3g}'
    if op == 'emtrace':
        got = parse_ints(o).tolist()
        for model in MODELS:
            tr, flow = code_trace(model, d['n'])
            if tr != got:
                return False, f'iteration skeleton of {model}: code trace {tr} != model trace {got} (1 = M-step, 2 = E-step)'
            if flow is not True:
                return False, f'data flow of {model}.fit(iterations={d["n"]}): {flow}'
        return True, ''
    raise ValueError(op)


def code_trace(model, n):
    """sequence of M-step (1) / E-step (2) calls made by <model>Trainer.fit(iterations=n), observed by wrapping the
    private methods from the harness process"""
    from pb_bss import distribution as dist
    trace = []
    rng = np.random.default_rng(n)
    F, T, D, K = 2, 9, 2, 2
    cls_tr, cls_m, pred = {
        'gmm': (dist.GMMTrainer, dist.GMM, 'predict'), 'vmfmm': (dist.VMFMMTrainer, dist.VMFMM, 'predict'),
        'cwmm': (dist.CWMMTrainer, dist.CWMM, 'predict'), 'cacgmm': (dist.CACGMMTrainer, dist.CACGMM, '_predict'),
        'cbmm': (dist.CBMMTrainer, dist.CBMM, 'predict'), 'gcacgmm': (dist.GCACGMMTrainer, dist.GCACGMM, '_predict'),
        'vmfcacgmm': (dist.VMFCACGMMTrainer, dist.VMFCACGMM, '_predict')}[model]
    o_m, o_p = cls_tr._m_step, getattr(cls_m, pred)
    state = {'last_e': None, 'flow': True, 'init': None}

    def _eq(x, y_):
        return x is not None and y_ is not None and np.shape(x) == np.shape(y_) and np.array_equal(x, y_)

    def m_step(self, *a, **k):
        trace.append(1)
        aff = k.get('affiliation')
        qf = k.get('quadratic_form', a[-1] if model in ('cacgmm', 'gcacgmm', 'vmfcacgmm') and a else None)
        if state['last_e'] is None:
            # first M-step: the start affiliations (and all-one quadratic forms for the cACG-based models)
            if not _eq(aff, state['init']):
                state['flow'] = 'first M-step does not receive the initialization'
            if qf is not None and not np.all(np.asarray(qf) == 1):
                state['flow'] = 'first M-step does not receive all-one quadratic forms'
        else:
            ea, eq_ = state['last_e']
            if not _eq(aff, ea):
                state['flow'] = 'M-step affiliation is not the output of the preceding E-step'
            if qf is not None and not _eq(qf, eq_):
                state['flow'] = 'M-step quadratic form is not the output of the preceding E-step'
        return o_m(self, *a, **k)

    def predict(self, *a, **k):
        trace.append(2)
        r = o_p(self, *a, **k)
        state['last_e'] = (r[0], r[1]) if isinstance(r, tuple) else (r, None)
        return r
    cls_tr._m_step = m_step
    setattr(cls_m, pred, predict)
    try:
        init = gen_affiliation(rng, F, K, T)
        state['init'] = init
        if model in ('gcacgmm', 'vmfcacgmm'):
            obs = gen_complex(rng, (F, T, D))
            emb = unit_rows(rng.normal(size=(F, T, 2)))
            cls_tr().fit(obs, emb, initialization=init, iterations=n)
        elif model in COMPLEX_MODELS:
            cls_tr().fit(gen_complex(rng, (F, T, D)), initialization=init, iterations=n)
        else:
            cls_tr().fit(rng.normal(size=(F, T, D)), initialization=init, iterations=n,
                         **({'covariance_type': 'spherical'} if model == 'gmm' else {}))
    except ALLOWED_EXC:
        pass
    finally:
        cls_tr._m_step = o_m
        setattr(cls_m, pred, o_p)
    return trace, state['flow']

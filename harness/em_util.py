"""Helpers shared by the C02 / C03 modules (owner: EM engineer).

* `mixture_ll`      independent re-computation of  L = sum_n s_n log sum_k pi_k p_k(y_n)  from a fitted model's own
                    `log_pdf` and weights (no call into the library's likelihood code)
* `FAMILIES`        adapters around the real trainers of /repo: fit / continued fit / component log-pdf / weights /
                    numerical-guard activity, one per mixture model
* generators for general-position data (C02) and separable scenes (C03)
"""
import numpy as np

from pb_bss.distribution import (
    CACGMMTrainer, CWMMTrainer, CBMMTrainer, GMMTrainer, VMFMMTrainer, GCACGMMTrainer, VMFCACGMMTrainer,
)
from pb_bss.distribution import ComplexWatsonTrainer  # noqa: F401  (contract checks of the Watson M-step)
from pb_bss.utils import unsqueeze

TINY = np.finfo(np.float64).tiny


# ----------------------------------------------------------------------------- likelihood
def mixture_ll(log_pdf, weight, saliency=None, per_slice=False):
    """sum_n s_n log sum_k w_k(n) exp(log_pdf[k, n]);  log_pdf (..., K, N), weight broadcastable to it."""
    log_pdf = np.asarray(log_pdf, dtype=np.float64)
    w = np.broadcast_to(np.asarray(weight, dtype=np.float64), log_pdf.shape)
    with np.errstate(divide='ignore'):
        a = log_pdf + np.log(w)
    m = np.max(a, axis=-2, keepdims=True)
    m = np.where(np.isfinite(m), m, 0.0)
    per_obs = m[..., 0, :] + np.log(np.sum(np.exp(a - m), axis=-2))
    if saliency is not None:
        sal = np.broadcast_to(saliency, per_obs.shape)
        per_obs = np.where(sal == 0, 0.0, per_obs * sal)      # an observation of saliency 0 does not count
    if per_slice:
        return per_obs.sum(-1)
    return float(per_obs.sum())


def unit(x):
    return x / np.maximum(np.linalg.norm(x, axis=-1, keepdims=True), TINY)


def cnormal(rng, *shape):
    return (rng.normal(size=shape) + 1j * rng.normal(size=shape)) / np.sqrt(2)


def _wca(w):
    """weight_constant_axis from its JSON form (list -> tuple, int stays int)"""
    if isinstance(w, (list, tuple)):
        return tuple(int(a) for a in w)
    return int(w)


# ----------------------------------------------------------------------------- adapters
class Family:
    name = ''
    complex_obs = True
    has_embedding = False
    supports_model_init = False

    # -- to be provided: (trainer object, positional args, keyword args) of Trainer.fit / Trainer.fit_predict
    def _setup(self, data, init, iterations, opts):
        raise NotImplementedError

    def fit(self, data, init, iterations, opts):
        tr, a, kw = self._setup(data, init, iterations, opts)
        return tr.fit(*a, **kw)

    def fit_predict(self, data, init, iterations, opts):
        """the trainer's own `fit_predict` entry point (posteriors of the fitted model on the training data)"""
        tr, a, kw = self._setup(data, init, iterations, opts)
        return tr.fit_predict(*a, **kw)

    def log_pdf(self, model, data):
        """(..., K, N) component log densities of `data` under the fitted components"""
        raise NotImplementedError

    def weight(self, model):
        """mixture weights, broadcastable against log_pdf"""
        return model.weight

    def predict(self, model, data):
        return model.predict(data['y'])

    def mstep_guard(self, model, opts):
        """None, or a short description of the numerical guard that shaped this model's parameters"""
        return None

    def estep_guard(self, model, data, opts):
        """None, or the guard that will alter the next E-step (posterior clipping)"""
        return None

    def continued(self, data, model, opts):
        """one more EM iteration from a returned model (None when the trainer offers no such entry)"""
        return None


def _cacg_floor_guard(cacg, opts, factor=1e4):
    ev = np.asarray(cacg.covariance_eigenvalues)
    floor = opts.get('eigenvalue_floor', 1e-10)
    rel = ev.min(-1) / np.maximum(ev.max(-1), TINY)
    if np.any(rel < factor * floor):
        return 'cacg-eigenvalue-near-floor'
    return None


def _clip_guard(aff, eps):
    if eps and (np.min(aff) < eps or np.max(aff) > 1 - eps):
        return 'affiliation-clipped'
    return None


class CACGMMFamily(Family):
    name = 'cacgmm'
    supports_model_init = True

    def _kw(self, opts):
        kw = dict(weight_constant_axis=_wca(opts.get('weight_constant_axis', (-1,))),
                  covariance_norm=opts.get('covariance_norm', 'eigenvalue'),
                  affiliation_eps=opts.get('affiliation_eps', 1e-10),
                  eigenvalue_floor=opts.get('eigenvalue_floor', 1e-10),
                  saliency=opts.get('saliency'))
        if 'hermitize' in opts:
            kw['hermitize'] = opts['hermitize']
        return kw

    def _setup(self, data, init, iterations, opts):
        return CACGMMTrainer(), (data['y'],), dict(initialization=init, iterations=iterations, **self._kw(opts))

    def continued(self, data, model, opts):
        return CACGMMTrainer().fit(data['y'], initialization=model, iterations=1, **self._kw(opts))

    def log_pdf(self, model, data):
        return model.cacg.log_pdf(data['y'][..., None, :, :])

    def mstep_guard(self, model, opts):
        return _cacg_floor_guard(model.cacg, opts)

    def estep_guard(self, model, data, opts):
        return _clip_guard(model.predict(data['y']), opts.get('affiliation_eps', 1e-10))

    def principal(self, model):
        """(..., K, D) eigenvector of the largest covariance eigenvalue"""
        ev = model.cacg.covariance_eigenvalues
        vec = model.cacg.covariance_eigenvectors
        idx = np.argmax(ev, axis=-1)
        return np.take_along_axis(vec, idx[..., None, None], axis=-1)[..., 0]


class CWMMFamily(Family):
    name = 'cwmm'

    def _kw(self, opts):
        return dict(weight_constant_axis=_wca(opts.get('weight_constant_axis', (-1,))), saliency=opts.get('saliency'))

    def _setup(self, data, init, iterations, opts):
        return (CWMMTrainer(max_concentration=opts.get('max_concentration', 500)), (data['y'],),
                dict(initialization=init, iterations=iterations, **self._kw(opts)))

    def continued(self, data, model, opts):
        # the trainer accepts affiliations only: one more iteration = E-step of the returned model + one M-step
        return self.fit(data, model.predict(data['y']), 1, opts)

    def log_pdf(self, model, data):
        return model.complex_watson.log_pdf(unit(data['y'])[..., None, :, :])

    def mstep_guard(self, model, opts):
        k = np.asarray(model.complex_watson.concentration)
        if np.any(k <= 1e-3) or np.any(k >= opts.get('max_concentration', 500) * (1 - 1e-12)):
            return 'watson-concentration-at-bound'
        return None

    def principal(self, model):
        return model.complex_watson.mode


class CBMMFamily(Family):
    name = 'cbmm'

    def _setup(self, data, init, iterations, opts):
        return CBMMTrainer(), (data['y'],), dict(initialization=init, iterations=iterations,
                                                 weight_constant_axis=_wca(opts.get('weight_constant_axis', (-1,))),
                                                 saliency=opts.get('saliency'))

    def log_pdf(self, model, data):
        return model.complex_bingham.log_pdf(unit(data['y'])[..., None, :, :])

    def principal(self, model):
        ev = model.complex_bingham.covariance_eigenvalues
        vec = model.complex_bingham.covariance_eigenvectors
        idx = np.argmax(ev, axis=-1)
        return np.take_along_axis(vec, idx[..., None, None], axis=-1)[..., 0]


def fixed_covariance(scale, covariance_type, lead, K, E):
    """the documented option `fixed_covariance` of GMMTrainer / GCACGMMTrainer: `scale`·identity for every class, in the
    shape the Gaussian class of `covariance_type` stores ((*lead, K, E, E) / (*lead, K, E) / (*lead, K))"""
    if scale is None:
        return None
    if covariance_type == 'full':
        return np.broadcast_to(scale * np.eye(E), tuple(lead) + (K, E, E)).copy()
    if covariance_type == 'diagonal':
        return np.full(tuple(lead) + (K, E), float(scale))
    return np.full(tuple(lead) + (K,), float(scale))


class GMMFamily(Family):
    complex_obs = False

    def __init__(self, covariance_type):
        self.covariance_type = covariance_type
        self.name = 'gmm-' + covariance_type

    def _kw(self, opts):
        return dict(weight_constant_axis=_wca(opts.get('weight_constant_axis', (-1,))), saliency=opts.get('saliency'),
                    covariance_type=self.covariance_type)

    def _setup(self, data, init, iterations, opts):
        y = data['y']
        fc = fixed_covariance(opts.get('fixed_covariance'), self.covariance_type, y.shape[:-2], np.shape(init)[-2], y.shape[-1])
        kw = self._kw(opts)
        if fc is not None:
            kw['fixed_covariance'] = fc
        return GMMTrainer(), (y,), dict(initialization=init, iterations=iterations, **kw)

    def continued(self, data, model, opts):
        return self.fit(data, model.predict(data['y']), 1, opts)

    def log_pdf(self, model, data):
        return model.gaussian.log_pdf(data['y'][..., None, :, :])

    def mean(self, model):
        return model.gaussian.mean


class VMFMMFamily(Family):
    name = 'vmfmm'
    complex_obs = False

    def _setup(self, data, init, iterations, opts):
        return VMFMMTrainer(), (data['y'],), dict(initialization=init, iterations=iterations,
                                                  weight_constant_axis=_wca(opts.get('weight_constant_axis', (-1,))),
                                                  saliency=opts.get('saliency'))

    def log_pdf(self, model, data):
        return model.vmf.log_pdf(data['y'][..., None, :, :])

    def mstep_guard(self, model, opts):
        k = np.asarray(model.vmf.concentration)
        if np.any(k <= opts.get('min_concentration', 1e-10) * (1 + 1e-12)) \
                or np.any(k >= opts.get('max_concentration', 500) * (1 - 1e-12)):
            return 'vmf-concentration-at-bound'
        return None

    def mean(self, model):
        return model.vmf.mean


class _Integration(Family):
    has_embedding = True

    def weight(self, model):
        return unsqueeze(model.weight, model.weight_constant_axis)

    def predict(self, model, data):
        return model.predict(data['y'], data['e'])

    def principal(self, model):
        return CACGMMFamily.principal(self, model)


class GCACGMMFamily(_Integration):
    def __init__(self, covariance_type='spherical'):
        self.covariance_type = covariance_type
        self.name = 'gcacgmm-' + covariance_type

    def _kw(self, opts):
        return dict(weight_constant_axis=_wca(opts.get('weight_constant_axis', (-1,))), saliency=opts.get('saliency'),
                    covariance_type=self.covariance_type, covariance_norm=opts.get('covariance_norm', 'eigenvalue'),
                    affiliation_eps=opts.get('affiliation_eps', 1e-10),
                    eigenvalue_floor=opts.get('eigenvalue_floor', 1e-10),
                    spatial_weight=opts.get('spatial_weight', 1.), spectral_weight=opts.get('spectral_weight', 1.))

    def _setup(self, data, init, iterations, opts):
        fc = fixed_covariance(opts.get('fixed_covariance'), self.covariance_type, (), np.shape(init)[-2], data['e'].shape[-1])
        kw = self._kw(opts)
        if fc is not None:
            kw['fixed_covariance'] = fc
        return GCACGMMTrainer(), (data['y'], data['e']), dict(initialization=init, iterations=iterations, **kw)

    def log_pdf(self, model, data):
        """joint component log density: cACG(y) + Gaussian(e) (unit stream weights)"""
        y, e = data['y'], data['e']
        F, T, D = y.shape
        spatial = model.cacg.log_pdf(y[..., None, :, :])                     # (F, K, T)
        g = model.gaussian.log_pdf(e.reshape(1, F * T, -1))                 # (K, F*T)
        K = g.shape[0]
        spectral = np.transpose(g.reshape(K, F, T), (1, 0, 2))
        return model.spatial_weight * spatial + model.spectral_weight * spectral

    def mstep_guard(self, model, opts):
        return _cacg_floor_guard(model.cacg, opts)

    def estep_guard(self, model, data, opts):
        return _clip_guard(model.predict(data['y'], data['e']), opts.get('affiliation_eps', 1e-10))

    def mean(self, model):
        return model.gaussian.mean


class VMFCACGMMFamily(_Integration):
    name = 'vmfcacgmm'

    def _setup(self, data, init, iterations, opts):
        return VMFCACGMMTrainer(), (data['y'], data['e']), dict(initialization=init, iterations=iterations,
                                                                weight_constant_axis=_wca(opts.get('weight_constant_axis', (-1,))),
                                                                saliency=opts.get('saliency'))

    def mean(self, model):
        return model.vmf.mean


FAMILIES = {f.name: f for f in [
    CACGMMFamily(), CWMMFamily(), CBMMFamily(), GMMFamily('full'), GMMFamily('diagonal'), GMMFamily('spherical'),
    VMFMMFamily(), GCACGMMFamily('spherical'), GCACGMMFamily('diagonal'), GCACGMMFamily('full'), VMFCACGMMFamily(),
]}


def is_singular_covariance_rejection(e):
    """sklearn's explicit refusal of a numerically singular class covariance (DESIGN.md 5c)"""
    return isinstance(e, ValueError) and 'ill-defined empirical covariance' in str(e)


# ----------------------------------------------------------------------------- generators
def positive_start(rng, lead, K, N, kind=None):
    """strictly positive affiliations (..., K, N) summing to one over the class axis"""
    kind = kind or str(rng.choice(['uniform', 'dirichlet', 'near-uniform', 'peaked']))
    shape = (*lead, K, N)
    if kind == 'uniform':
        a = rng.random(shape) + 0.02
    elif kind == 'dirichlet':
        a = rng.gamma(1.0, size=shape) + 1e-3
    elif kind == 'near-uniform':
        a = 1.0 + 0.05 * rng.random(shape)
    else:
        a = rng.random(shape) ** 4 + 0.01
    a = a / a.sum(-2, keepdims=True)
    return a, kind


def general_position(rng, lead, N, D, K, complex_):
    """clustered, correlated data in general position (continuous distribution, no ties / collinearity)"""
    shape = (*lead, N, D)
    noise = cnormal(rng, *shape) if complex_ else rng.normal(size=shape)
    mix = (cnormal(rng, *lead, D, D) if complex_ else rng.normal(size=(*lead, D, D)))
    y = np.einsum('...nd,...de->...ne', noise, mix + 1.5 * np.eye(D))
    if rng.random() < 0.7:                       # cluster structure so that EM has something to find
        centres = (cnormal(rng, *lead, K, D) if complex_ else rng.normal(size=(*lead, K, D))) * rng.uniform(0.5, 3)
        lab = rng.integers(0, K, size=(*lead, N))
        y = y * rng.uniform(0.3, 1.0) + np.take_along_axis(centres, lab[..., None], axis=-2)
    scale = float(np.exp(rng.uniform(-2, 2)))
    return y * scale


def make_saliency(rng, lead, N, kind):
    if kind == 'none':
        return None
    if kind == 'constant':
        return np.full((*lead, N), float(rng.uniform(0.3, 3)))
    if kind == 'integer':
        return rng.integers(1, 4, size=(*lead, N)).astype(np.float64)
    s = rng.uniform(0.05, 2.0, size=(*lead, N))
    if kind == 'slice-scaled' and len(lead):
        # strongly different saliency mass per leading index (what a tying over the leading axis has to pool correctly)
        s = s * (10.0 ** rng.uniform(-1, 1, size=(*lead, 1)))
    if kind == 'with-zeros':
        s[rng.random(s.shape) < 0.15] = 0.0
    return s


def prototypes(rng, K, D, maxcos, complex_):
    """K unit vectors in C^D / R^D with pairwise |cos| <= maxcos (orthonormal for maxcos = 0)"""
    for _ in range(10000):
        a = cnormal(rng, K, D) if complex_ else rng.normal(size=(K, D))
        q = np.linalg.qr(a.T)[0].T[:K]
        if maxcos == 0:
            return q, 0.0
        t = rng.uniform(0, 1)
        a = q + t * 0.3 * (cnormal(rng, K, D) if complex_ else rng.normal(size=(K, D)))
        a /= np.linalg.norm(a, axis=-1, keepdims=True)
        g = np.abs(a.conj() @ a.T) - np.eye(K)
        if g.max() <= maxcos:
            return a, float(g.max())
    raise RuntimeError('no prototype set found')


def angle(u, v):
    """angle between the complex/real lines spanned by u and v (last axis)"""
    c = np.abs(np.sum(u.conj() * v, axis=-1)) / np.maximum(np.linalg.norm(u, axis=-1) * np.linalg.norm(v, axis=-1), TINY)
    return np.arccos(np.clip(c, 0, 1))


def signed_angle(u, v):
    """angle between directions (sign matters: vMF mean)"""
    c = np.sum(u * v, axis=-1) / np.maximum(np.linalg.norm(u, axis=-1) * np.linalg.norm(v, axis=-1), TINY)
    return np.arccos(np.clip(c, -1, 1))


# ----------------------------------------------------------------------------- reference EM (Gaussian families)
def ref_gmm(y, init, iterations, covariance_type, conditioning=None):
    """Textbook EM for a Gaussian mixture written from the formulas (weights = mean posterior, weighted mean,
    weighted scatter; densities through solve / slogdet), independent of pb_bss and sklearn.
    y (N, D), init (K, N).  Returns (posterior of the model after `iterations` M-steps, its means)."""
    N, D = y.shape
    g = np.array(init, dtype=np.float64)
    K = g.shape[0]
    for it in range(iterations):
        w = g.sum(1) / g.sum()
        mu = (g @ y) / g.sum(1)[:, None]
        lp = np.zeros((K, N))
        for k in range(K):
            d = y - mu[k]
            S = (g[k][:, None] * d).T @ d / g[k].sum()
            if covariance_type == 'diagonal':
                S = np.diag(np.diag(S))
            elif covariance_type == 'spherical':
                S = np.eye(D) * np.trace(S) / D
            if conditioning is not None:
                ev = np.linalg.eigvalsh(S)
                conditioning.append(float(ev[0] / ev[-1]) if ev[-1] > 0 else 0.0)
            sol = np.linalg.solve(S, d.T)
            lp[k] = -0.5 * (D * np.log(2 * np.pi) + np.linalg.slogdet(S)[1] + np.sum(d.T * sol, axis=0))
        a = lp + np.log(w)[:, None]
        a -= a.max(0)
        g = np.exp(a)
        g /= g.sum(0)
    return g, mu

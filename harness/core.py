"""Shared machinery of every check: context, oracles, verdict, evidence.

A check of property Cxx does (DESIGN.md 2.4):
  1. proof audit      (harness.lean.audit)           -> theorems present, axioms allowed
  2. correspondence   (props.cxx.corr)               -> Lean model (driver) vs real code
  3. failing-input search on the REAL code (props.cxx.search), deeper if 1 or 2 broke
  4. verdict          VIOLATION / KNOWN-FINDING / no-failing-input-found / ok
"""
import base64
import functools
import hashlib
import json
import os
import sys
import time
import traceback

import numpy as np

VERIF = os.path.dirname(os.path.dirname(os.path.abspath(__file__)))
REPO = os.environ.get('PB_BSS_REPO', '/repo')
OUT = os.environ.get('VERIF_OUT_DIR') or os.path.join(VERIF, 'out')


# ----------------------------------------------------------------------------- JSON helpers
def enc(x):
    """JSON-encode numpy data losslessly (arrays as base64 of their bytes)."""
    if isinstance(x, np.ndarray):
        a = np.ascontiguousarray(x)
        return {'__nd__': True, 'dtype': str(a.dtype), 'shape': list(a.shape),
                'b64': base64.b64encode(a.tobytes()).decode(),
                'preview': np.array2string(a.ravel()[:8], precision=4)}
    if isinstance(x, (np.integer,)):
        return int(x)
    if isinstance(x, (np.floating,)):
        return float(x)
    if isinstance(x, (np.bool_,)):
        return bool(x)
    if isinstance(x, complex):
        return {'__cx__': [x.real, x.imag]}
    if isinstance(x, dict):
        return {str(k): enc(v) for k, v in x.items()}
    if isinstance(x, tuple):
        return {'__tuple__': [enc(v) for v in x]}
    if isinstance(x, list):
        return [enc(v) for v in x]
    if isinstance(x, float) and not np.isfinite(x):
        return {'__float__': repr(x)}
    return x


def dec(x):
    if isinstance(x, dict):
        if x.get('__nd__'):
            a = np.frombuffer(base64.b64decode(x['b64']), dtype=np.dtype(x['dtype']))
            return a.reshape(x['shape']).copy()
        if '__cx__' in x:
            return complex(*x['__cx__'])
        if '__tuple__' in x:
            return tuple(dec(v) for v in x['__tuple__'])
        if '__float__' in x:
            return float(x['__float__'])
        return {k: dec(v) for k, v in x.items()}
    if isinstance(x, list):
        return [dec(v) for v in x]
    return x


def short(x, n=160):
    s = repr(x)
    return s if len(s) <= n else s[:n] + '...'


# ----------------------------------------------------------------------------- oracle results
class Fail:
    """Returned by an oracle when the real code violates the property on the given input."""

    def __init__(self, tag, desc, **extra):
        self.tag = tag          # stable, data-independent: part of the known-finding key
        self.desc = desc
        self.extra = extra


class Skip:
    """Input is outside the property's quantifier domain (counted, not judged)."""

    def __init__(self, why):
        self.why = why


ORACLES = {}
AUTO_MEMORY_KINDS = ('f', 'lead-permuted', 'last2-transposed', 'strided', 'reversed')


def oracle(fn):
    """register a property oracle.  Every oracle accepts the extra keyword `_memory` (DESIGN.md 8.5): the memory layout in
    which its array inputs are presented to the code under test (same values; Fortran order, transposed leading axes,
    strided slice of a larger buffer, reversed last axis) - it is part of the recorded inputs, so replays reproduce it."""
    name = fn.__module__.split('.')[-1] + '.' + fn.__name__

    @functools.wraps(fn)
    def wrapped(*a, _memory=None, **kw):
        if _memory and _memory != 'c':
            from . import gen
            def lay(v, depth=0):
                if isinstance(v, np.ndarray) and v.ndim >= 1 and v.size > 0:
                    return gen.relayout(v, _memory)
                if isinstance(v, dict) and depth < 2:      # argument dictionaries of entry-point oracles (C20)
                    return {k2: lay(v2, depth + 1) for k2, v2 in v.items()}
                return v
            kw = {k: lay(v) for k, v in kw.items()}
        return fn(*a, **kw)
    wrapped.oracle_name = name
    wrapped.plain = fn
    ORACLES[name] = wrapped
    return wrapped


# ----------------------------------------------------------------------------- context
class Ctx:
    def __init__(self, prop, tier, seed, budget_s):
        self.prop = prop
        self.tier = tier
        self.seed = seed
        self.rng = np.random.default_rng([seed, int(prop[1:])])
        # separate stream for the memory-layout dimension, so that adding it does not shift the main stream
        self.mem_rng = np.random.default_rng([seed, int(prop[1:]), 77])
        self.mem_p = float(os.environ.get('VERIF_MEMORY_P', '0.25'))
        self.auto_memory = True
        self.t0 = time.time()
        self.budget_s = budget_s
        self.deep = False
        self.evaluations = 0
        self.nontrivial = set()
        self.dist = {}
        self.samples = []
        self.skips = {}
        self.violations = {}       # key -> dict (smallest input kept)
        self.corr_cases = 0
        self.corr_ops = {}
        self.disagreements = []    # list of dict(op, detail, data)
        self.notes = []

    # -- budgets
    def n(self, quick, thorough):
        k = quick if self.tier == 'quick' else thorough
        return k * 4 if self.deep else k

    def time_left(self):
        return self.budget_s - (time.time() - self.t0)

    def out_of_time(self, reserve=5.0):
        return self.time_left() < reserve

    # -- bookkeeping
    def count(self, key, k=1):
        self.dist[key] = self.dist.get(key, 0) + k

    def sample(self, obj, limit=6):
        if len(self.samples) < limit:
            self.samples.append(obj)

    # -- running an oracle on the real code
    def run(self, orc, _size=None, _nontrivial=True, **inputs):
        """Evaluate oracle `orc` (decorated with @oracle) on `inputs`. Returns True if it held."""
        self.evaluations += 1
        name = orc.oracle_name
        self.count('oracle:' + name)
        if self.auto_memory and '_memory' not in inputs and 'memory' not in inputs and self.mem_p > 0 \
                and any(isinstance(v, np.ndarray) or (isinstance(v, dict) and any(isinstance(x, np.ndarray) for x in v.values()))
                        for v in inputs.values()) and self.mem_rng.random() < self.mem_p:
            inputs['_memory'] = str(self.mem_rng.choice(AUTO_MEMORY_KINDS))
            self.count('memory-layout:' + inputs['_memory'])
        try:
            res = orc(**inputs)
        except Exception as e:  # an oracle must catch what the property allows
            tb = traceback.format_exc(limit=6)
            res = Fail('exception-' + type(e).__name__, f'{type(e).__name__}: {e}', traceback=tb)
        if isinstance(res, Skip):
            self.skips[res.why] = self.skips.get(res.why, 0) + 1
            return True
        if _nontrivial:
            h = hashlib.sha1(json.dumps(enc(inputs), sort_keys=True, default=str).encode()).hexdigest()
            self.nontrivial.add(h)
        if res is None or res is True:
            return True
        assert isinstance(res, Fail), res
        key = f'{name}:{res.tag}'
        size = _size if _size is not None else _input_size(inputs)
        old = self.violations.get(key)
        if old is None or size < old['size']:
            self.violations[key] = {
                'key': key, 'oracle': name, 'tag': res.tag, 'desc': res.desc, 'size': size,
                'inputs': inputs, 'extra': res.extra, 'count': (old['count'] if old else 0) + 1}
        else:
            old['count'] += 1
        return False

    # -- correspondence
    def corr(self, op, ok, detail='', data=None):
        self.corr_cases += 1
        self.corr_ops[op] = self.corr_ops.get(op, 0) + 1
        if not ok:
            if len(self.disagreements) < 50:
                self.disagreements.append({'op': op, 'detail': detail, 'data': data})
            self.count('corr-disagree:' + op)
        return ok

    def note(self, s):
        self.notes.append(s)


def _input_size(inputs):
    s = 0
    for v in inputs.values():
        if isinstance(v, np.ndarray):
            s += v.size
        elif isinstance(v, (list, tuple)):
            s += len(v)
        else:
            s += 1
    return s


# ----------------------------------------------------------------------------- known findings
def load_known(prop):
    known, fixed = {}, []
    p = os.path.join(VERIF, 'known_findings.txt')
    if os.path.exists(p):
        for line in open(p):
            line = line.strip()
            if line.startswith('finding:'):
                parts = line.split(None, 3)
                kv = dict(x.split('=', 1) for x in parts[1:3])
                if kv.get('property') == prop:
                    known[kv['key']] = parts[3] if len(parts) > 3 else ''
            elif line.startswith('fixed:'):
                fixed.append(line)
    return known, fixed


# ----------------------------------------------------------------------------- evidence + verdict
TRUSTED_BASE = [
    'Lean 4.33 kernel; Mathlib v4.33 as compiled under /opt/veriftools',
    'axioms of every listed theorem are a subset of {propext, Classical.choice, Quot.sound} (audited each run); no sorry/native_decide/own axioms',
    'reading of the property as the Lean statements in lean/PbBss/Props/<id>.lean',
    'hand-written model tied to /repo by the per-run correspondence check (harness/props/*.py, Lean driver); tolerances 1e-9 rel.',
    'Float vs R: theorems are about the real/complex interpretation of the model; rounding/overflow are not covered',
    'contracts of externals (eigh, solve, cholesky, special functions, RNG) are assumed, re-checked numerically',
    'NumPy/BLAS/LAPACK/SciPy/sklearn semantics are modelled, not verified',
]


def write_evidence(ctx, level, proof, extra_assumptions, n_viol):
    evdir = os.environ.get('VERIF_EVIDENCE_DIR') or os.path.join(VERIF, 'evidence')
    os.makedirs(evdir, exist_ok=True)
    cov = {
        'obligations': max(1, proof['obligations']),
        'discharged': proof['discharged'],
        'checker_cmd': proof['checker_cmd'],
        'trusted_base': TRUSTED_BASE,
        'theorems': proof['theorems'],
        'proof_problems': proof['problems'],
        'evaluations': ctx.evaluations + ctx.corr_cases,
        'distinct_nontrivial': len(ctx.nontrivial),
        'rule': ('search: seeded structured generators evaluated on the real code, a case is non-trivial when inside '
                 'the quantifier domain (not Skip) and distinct by SHA1 of its encoded inputs; correspondence: model '
                 'driver vs implementation, counted in correspondence_cases'),
        'samples': ctx.samples[:6] if ctx.samples else [{'note': 'no sample recorded'}],
        'correspondence_cases': ctx.corr_cases,
        'correspondence_ops': ctx.corr_ops,
        'correspondence_disagreements': len(ctx.disagreements),
        'search_evaluations': ctx.evaluations,
        'skipped_outside_domain': ctx.skips,
        'distribution': ctx.dist,
        'deep_search': ctx.deep,
        'notes': ctx.notes,
    }
    if level != 'proof':
        cov['programs'] = max(1, len(ctx.corr_ops))
        cov['disagreements_checked'] = len(ctx.disagreements)
    ev = {
        'property_id': ctx.prop, 'tier': ctx.tier, 'seed': int(ctx.seed), 'level': level,
        'coverage': cov,
        'assumptions': extra_assumptions,
        'wall_s': round(time.time() - ctx.t0, 2),
        'violations': n_viol,
    }
    path = os.path.join(evdir, f'{ctx.prop}.json')
    with open(path, 'w') as f:
        json.dump(enc(ev), f, indent=1, default=str)
    return path


def write_replay(ctx, name, payload):
    d = os.path.join(OUT, 'replays')
    os.makedirs(d, exist_ok=True)
    path = os.path.join(d, f'{ctx.prop}-{name}-seed{ctx.seed}.json')
    with open(path, 'w') as f:
        json.dump(enc(payload), f, indent=1, default=str)
    return path


def verdict(ctx, mod, proof, level):
    """Print VIOLATION / KNOWN-FINDING lines, write evidence; return exit code."""
    known, _ = load_known(ctx.prop)
    new, old = [], []
    for key, v in sorted(ctx.violations.items()):
        (old if key in known else new).append(v)
    for v in old:
        print(f'KNOWN-FINDING: property={ctx.prop} key={v["key"]} {known[v["key"]]}')
    code = 0
    nviol = 0
    for i, v in enumerate(new):
        path = write_replay(ctx, 'viol%d' % i, {
            'property': ctx.prop, 'kind': 'failing-input', 'key': v['key'], 'oracle': v['oracle'],
            'description': v['desc'], 'inputs': v['inputs'], 'extra': v['extra'], 'occurrences': v['count'],
            'replay_cmd': f'./check {ctx.prop} --replay <this file>'})
        print(f'  {v["key"]}: {v["desc"]}')
        print(f'VIOLATION property={ctx.prop} replay={path}')
        code = 1
        nviol += 1
    broken = []
    if not proof['ok']:
        broken.append({'what': 'proof-obligation', 'problems': proof['problems']})
    if ctx.disagreements:
        broken.append({'what': 'correspondence', 'disagreements': ctx.disagreements[:10]})
    if broken and not new:
        path = write_replay(ctx, 'broken', {
            'property': ctx.prop, 'kind': 'no-failing-input-found',
            'broken': broken,
            'search': {'evaluations': ctx.evaluations, 'deep': ctx.deep},
            'explanation': 'a theorem or the model/code correspondence no longer checks; the search on the real code '
                           'found no input violating the property, so the property is no longer shown to hold'})
        for b in broken:
            if b['what'] == 'proof-obligation':
                print('  proof obligations not discharged:', short(b['problems'], 400))
            else:
                for d in b['disagreements'][:3]:
                    print(f'  correspondence {d["op"]}: {short(d["detail"], 300)}')
        print(f'VIOLATION property={ctx.prop} replay={path} no-failing-input-found')
        code = 1
        nviol += 1
    elif broken:
        for b in broken:
            print('  also broken:', b['what'])
    write_evidence(ctx, level, proof, getattr(mod, 'ASSUMPTIONS', []), nviol)
    return code

"""Helpers of property C07 (log_pdf of the distribution objects): structured generators, independent
evaluations of the textbook densities (none of them shares code with pb_bss) and quadrature rules on the real
and complex unit spheres.  Every random choice comes from the `rng` that is passed in (ctx.rng)."""
import decimal
import math

import numpy as np

TINY = float(np.finfo(np.float64).tiny)
PI = math.pi

LEADS = [(), (), (1,), (2,), (3,), (2, 2), (2, 1, 3)]


def pick_lead(rng):
    return LEADS[int(rng.integers(len(LEADS)))]


# ----------------------------------------------------------------------------- generators
def rand_unitary(rng, D, complex_):
    if complex_:
        a = rng.normal(size=(D, D)) + 1j * rng.normal(size=(D, D))
    else:
        a = rng.normal(size=(D, D))
    q, r = np.linalg.qr(a)
    d = np.diagonal(r)
    return q * (d / np.abs(d))


def spectrum(rng, D, cond):
    """D positive numbers with max/min == cond (log-uniform in between), overall scale log-normal"""
    if D == 1:
        ev = np.ones(1)
    else:
        inner = np.exp(rng.uniform(0, np.log(cond), size=D - 2)) if D > 2 else np.zeros(0)
        ev = np.concatenate([[1.0], inner, [cond]])
        ev = rng.permutation(ev)
    return ev * float(np.exp(rng.normal() * 1.5))


def pick_cond(rng):
    return float(10 ** rng.choice([0, 0.3, 1, 2, 4, 6, 8]))


def pd_matrix(rng, D, cond, complex_, kind='generic'):
    """symmetric / Hermitian PD matrix with condition number `cond`.  kind: generic (dense rotation),
    diagonal (axis aligned), pairrot (one Givens rotation: the smallest non-diagonal case)."""
    ev = spectrum(rng, D, cond)
    if kind == 'diagonal' or D == 1:
        q = np.eye(D, dtype=complex if complex_ else float)
    elif kind == 'pairrot':
        q = np.eye(D, dtype=complex if complex_ else float)
        t = rng.uniform(0.2, 1.3)
        i, j = rng.choice(D, size=2, replace=False)
        ph = np.exp(1j * rng.uniform(0, 2 * np.pi)) if complex_ else 1.0
        q[i, i] = np.cos(t)
        q[j, j] = np.cos(t)
        q[i, j] = -np.sin(t) * ph
        q[j, i] = np.sin(t) * np.conj(ph)
    else:
        q = rand_unitary(rng, D, complex_)
    m = (q * ev) @ q.conj().T
    m = (m + m.conj().T) / 2
    return m, q, ev


def stack(fn, lead):
    """call fn() once per leading index and stack every returned array to shape lead + item.shape"""
    n = int(np.prod(lead, dtype=int))
    items = [fn() for _ in range(n)]
    out = []
    for parts in zip(*items):
        a = np.stack([np.asarray(p) for p in parts])
        out.append(a.reshape(tuple(lead) + a.shape[1:]))
    return out


def observations(rng, lead, N, D, complex_, scale=1.0):
    y = rng.normal(size=tuple(lead) + (N, D))
    if complex_:
        y = y + 1j * rng.normal(size=tuple(lead) + (N, D))
    return y * scale


def unit(v):
    return v / np.linalg.norm(v, axis=-1, keepdims=True)


def pick_kappa(rng):
    """concentration in [1e-6, 500]: log-uniform with the end points over-represented"""
    r = rng.random()
    if r < 0.1:
        return 1e-6
    if r < 0.2:
        return 500.0
    return float(10 ** rng.uniform(-6, np.log10(500)))


def bingham_eigenvalues(rng, D, kind=None):
    """real eigenvalue sets with pairwise gaps >= 1e-3 (the quantifier's bound)"""
    kind = kind or str(rng.choice(['spread', 'spread', 'trainer-like', 'clustered', 'min-gap']))
    if kind == 'spread':
        gaps = rng.uniform(0.05, 3.0, size=D - 1)
    elif kind == 'trainer-like':          # largest eigenvalue 0, the others negative and far apart
        gaps = np.exp(rng.uniform(np.log(0.5), np.log(60.0), size=D - 1))
    elif kind == 'clustered':
        gaps = np.exp(rng.uniform(np.log(1e-3), np.log(1.0), size=D - 1))
    else:
        gaps = np.full(D - 1, 1e-3) * (1 + rng.random(D - 1) * 0.5)
    lam = np.concatenate([[0.0], np.cumsum(np.maximum(gaps, 1.0000001e-3))])
    if kind == 'trainer-like':
        lam = lam - lam[-1]
    else:
        lam = lam - rng.uniform(0, 5)
    return rng.permutation(lam), kind


# ----------------------------------------------------------------------------- independent evaluations
def ref_gaussian(mean, cov_matrix, y):
    """scipy.stats.multivariate_normal, one parameter set, y (N, D)"""
    from scipy.stats import multivariate_normal
    return np.atleast_1d(multivariate_normal(mean=mean, cov=cov_matrix, allow_singular=False).logpdf(y))


def ref_gaussian_eig(mean, cov_matrix, y):
    """-D/2 log 2pi - 1/2 sum log ev - 1/2 sum (q_i^T d)^2 / ev_i from a symmetric eigen-decomposition"""
    ev, q = np.linalg.eigh(cov_matrix)
    d = (y - mean) @ q
    D = mean.shape[-1]
    return -0.5 * D * np.log(2 * np.pi) - 0.5 * np.sum(np.log(ev)) - 0.5 * np.sum(d * d / ev, axis=-1)


def ref_cgauss(cov, y):
    """circular complex Gaussian CN(0, C) == real Gaussian on R^{2D} with covariance 1/2 [[Re C, -Im C], [Im C, Re C]];
    evaluated by scipy.stats.multivariate_normal on the composite real vector (Lebesgue measure on C^D = R^{2D})"""
    from scipy.stats import multivariate_normal
    c2 = 0.5 * np.block([[cov.real, -cov.imag], [cov.imag, cov.real]])
    c2 = (c2 + c2.T) / 2
    y2 = np.concatenate([y.real, y.imag], axis=-1)
    return np.atleast_1d(multivariate_normal(mean=np.zeros(c2.shape[0]), cov=c2, allow_singular=False).logpdf(y2))


def ref_cgauss_eig(cov, y):
    """-D log pi - sum log ev - sum |q_i^H y|^2 / ev_i from a Hermitian eigen-decomposition"""
    ev, q = np.linalg.eigh(cov)
    d = y @ q.conj()
    D = y.shape[-1]
    return -D * np.log(np.pi) - np.sum(np.log(ev)) - np.sum(np.abs(d) ** 2 / ev, axis=-1)


def ref_vmf(mean, kappa, x):
    """x: unit vectors (N, D).  scipy.stats.vonmises_fisher for D >= 2; D == 1: exp(k m x) / (2 cosh k)"""
    D = mean.shape[-1]
    if D == 1:
        t = kappa * mean[0] * x[:, 0]
        return t - (np.log(2.0) + np.logaddexp(kappa, -kappa) - np.log(2.0))
    from scipy.stats import vonmises_fisher
    return np.atleast_1d(vonmises_fisher(mean, kappa).logpdf(x))


def kummer_1_D(D, kappa):
    """M(1; D; kappa) = sum_n kappa^n / (D)_n by its (all positive) power series, returned as log"""
    term = 1.0
    s = 1.0
    n = 0
    while True:
        term *= kappa / (D + n)
        s += term
        n += 1
        if term < 1e-18 * s or n > 20000:
            break
    return math.log(s)


def log_sphere_area_complex(D):
    return math.log(2.0) + D * math.log(math.pi) - math.lgamma(D)


def ref_watson(mode, kappa, y):
    D = mode.shape[-1]
    q = np.abs(y @ mode.conj()) ** 2
    return kappa * q - (log_sphere_area_complex(D) + kummer_1_D(D, kappa))


def bingham_lognorm_decimal(lam, prec=120):
    """log( 2 pi^D sum_j exp(l_j) / prod_{k != j} (l_j - l_k) ) in `prec`-digit decimal arithmetic"""
    with decimal.localcontext() as c:
        c.prec = prec
        lam = [decimal.Decimal(float(x)) for x in lam]
        D = len(lam)
        s = decimal.Decimal(0)
        for j in range(D):
            p = decimal.Decimal(1)
            for k in range(D):
                if k != j:
                    p *= lam[j] - lam[k]
            s += lam[j].exp() / p
        pi = decimal.Decimal('3.14159265358979323846264338327950288419716939937510582097494459230781640628620899862803482534211706798')
        if s <= 0:
            return float('nan')
        return float((2 * pi ** D * s).ln())


def bingham_formula_condition(lam):
    """sum_j |term_j| / |sum_j term_j| of the double precision evaluation of the normaliser formula"""
    lam = np.asarray(lam, dtype=float)
    D = len(lam)
    terms = []
    for j in range(D):
        p = 1.0
        for k in range(D):
            if k != j:
                p *= lam[j] - lam[k]
        terms.append(math.exp(lam[j]) / p)
    with decimal.localcontext() as c:
        c.prec = 60
        exact = abs(sum(decimal.Decimal(t) for t in terms))
        tot = sum(abs(decimal.Decimal(t)) for t in terms)
        true = decimal.Decimal(bingham_lognorm_decimal(lam)).exp() / (2 * decimal.Decimal(math.pi) ** D)
        return float(tot / true) if true > 0 else float('inf')


def ref_bingham(U, lam, y):
    B = (U * lam) @ U.conj().T
    q = np.einsum('td,dD,tD->t', y.conj(), B, y).real
    return q - bingham_lognorm_decimal(lam)


def ref_cacg(U, lam, y):
    """-D log(z^H B^-1 z) - log det B with B assembled densely, LAPACK solve + slogdet"""
    D = lam.shape[-1]
    B = (U * lam) @ U.conj().T
    z = y / np.linalg.norm(y, axis=-1, keepdims=True)
    s = np.linalg.solve(B, z.T).T
    q = np.einsum('td,td->t', z.conj(), s).real
    return -D * np.log(q) - np.linalg.slogdet(B)[1]


# ----------------------------------------------------------------------------- quadrature
def gauss_legendre01(n):
    x, w = np.polynomial.legendre.leggauss(n)
    return (x + 1) / 2, w / 2


def householder(mu):
    """orthogonal / unitary Q with Q e_0 = mu (|mu| = 1)"""
    D = mu.shape[0]
    e = np.zeros(D, dtype=mu.dtype)
    e[0] = 1
    ph = mu[0] / abs(mu[0]) if abs(mu[0]) > 0 else 1.0
    v = mu + ph * e
    nv = np.linalg.norm(v)
    H = np.eye(D, dtype=mu.dtype) - 2 * np.outer(v, v.conj()) / nv ** 2
    return -ph * H


def real_sphere_rule(D, n_polar, n_az, frame=None, rng=None):
    """points (M, D) on S^{D-1} in R^D and weights with sum(w) = area for D = 1, 2, 3 (product rules)."""
    if D == 1:
        return np.array([[1.0], [-1.0]]), np.array([1.0, 1.0])
    if D == 2:
        t = (np.arange(n_polar) + 0.5) * 2 * np.pi / n_polar
        pts = np.stack([np.cos(t), np.sin(t)], -1)
        w = np.full(n_polar, 2 * np.pi / n_polar)
    elif D == 3:
        c, wc = np.polynomial.legendre.leggauss(n_polar)
        ph = (np.arange(n_az) + 0.5) * 2 * np.pi / n_az
        s = np.sqrt(1 - c * c)
        pts = np.stack([np.repeat(c, n_az), np.outer(s, np.cos(ph)).ravel(), np.outer(s, np.sin(ph)).ravel()], -1)
        w = np.repeat(wc, n_az) * (2 * np.pi / n_az)
    else:
        raise ValueError(D)
    if frame is not None:
        pts = pts @ frame.T
    return pts, w


def real_sphere_polar_rule(D, n_polar, frame, rng):
    """S^{D-1}, D >= 3, for integrands that are rotation invariant about the axis frame[:, 0]:
    x = t a + sqrt(1-t^2) v, v a random unit vector orthogonal to a (a fresh one per node);
    measure |S^{D-2}| (1-t^2)^{(D-3)/2} dt, integrated by the Gauss-Jacobi (Gegenbauer) rule of that weight."""
    from scipy.special import roots_jacobi
    a = (D - 3) / 2
    t, wt = roots_jacobi(n_polar, a, a)
    v = rng.normal(size=(n_polar, D - 1))
    v /= np.linalg.norm(v, axis=-1, keepdims=True)
    local = np.concatenate([t[:, None], np.sqrt(np.maximum(1 - t * t, 0))[:, None] * v], axis=-1)
    area = 2 * np.pi ** ((D - 1) / 2) / math.gamma((D - 1) / 2)
    return local @ frame.T, wt * area


def nodes_for(kappa):
    """Gauss-Legendre nodes that integrate exp(kappa t), t in [0,1], to ~1e-12 (calibrated: 16 @ 10, 32 @ 100, 64 @ 500)"""
    return int(12 + 0.1 * kappa + math.sqrt(kappa))


def simplex_rule(D, n, grade=None):
    """Gauss-Legendre (Duffy) rule on the simplex {s in R^D_{>=0}, sum s = 1} w.r.t. ds_1..ds_{D-1};
    sum(w) = 1/(D-1)!.  s_1 = t_1, s_2 = (1-t_1) t_2, ..., s_D = prod (1-t_i); Jacobian prod (1-t_i)^{D-1-i}.
    `grade`: optional break points in (0,1) for composite panels in every Duffy coordinate (resolves
    integrands that are sharply peaked at a vertex)."""
    x0, w0 = gauss_legendre01(n)
    if grade is None:
        x, w = x0, w0
    else:
        edges = [0.0] + list(grade) + [1.0]
        x = np.concatenate([a + (b - a) * x0 for a, b in zip(edges[:-1], edges[1:])])
        w = np.concatenate([(b - a) * w0 for a, b in zip(edges[:-1], edges[1:])])
    T = np.stack(np.meshgrid(*([x] * (D - 1)), indexing='ij'), -1).reshape(-1, D - 1)
    W = np.prod(np.stack(np.meshgrid(*([w] * (D - 1)), indexing='ij'), -1).reshape(-1, D - 1), axis=-1)
    rest = np.ones(T.shape[0])
    cols = []
    for i in range(D - 1):
        cols.append(rest * T[:, i])
        W = W * (1 - T[:, i]) ** (D - 2 - i)
        rest = rest * (1 - T[:, i])
    cols.append(rest)
    return np.stack(cols, -1), W


def complex_sphere_rule(D, n, n_phase, frame, rng, grade=None):
    """points on the complex unit sphere of C^D and weights summing to the area 2 pi^D/(D-1)!.
    z = frame @ (sqrt(s_j) e^{i th_j}), s on the simplex (Gauss-Legendre), phases: a full product
    trapezoid grid with n_phase nodes per coordinate when n_phase > 0 (surface measure
    dS = 2 (1/2)^D ds_1..ds_{D-1} dth_1..dth_D), otherwise one random phase vector per
    node (valid for integrands invariant under z_j -> e^{i a_j} z_j in that frame, which all three families are)."""
    s, w = simplex_rule(D, n, grade)
    r = np.sqrt(s)
    if n_phase and n_phase > 0:
        th = (np.arange(n_phase) + rng.random()) * 2 * np.pi / n_phase
        grids = np.meshgrid(*([th] * D), indexing='ij')
        ph = np.stack([g.ravel() for g in grids], -1)             # (P, D)
        z = r[:, None, :] * np.exp(1j * ph)[None, :, :]
        z = z.reshape(-1, D)
        wz = np.repeat(w, ph.shape[0]) * (2 * np.pi / n_phase) ** D * (0.5 ** D) * 2
    else:
        ph = rng.uniform(0, 2 * np.pi, size=s.shape)
        z = r * np.exp(1j * ph)
        wz = w * (2 * np.pi) ** D * (0.5 ** D) * 2
    return z @ frame.T, wz

"""C08 - trainers return the documented weighted estimators and EM alternates them."""
import numpy as np

from .. import gen
from .. import trainers_util as tu
from ..core import Fail, Skip, oracle
from ..lean import cbits, fbits, parse_floats, run_driver

ID = 'C08'
DRIVERS = ('driver_trainers',)
THEOREMS = [
    'PbBss.C08.gaussian_fit_formulas',
    'PbBss.C08.gaussian_fit_unweighted',
    'PbBss.C08.wmean_minimises',
    'PbBss.C08.cgauss_fit',
    'PbBss.C08.vmf_fit',
    'PbBss.C08.watson_fit',
    'PbBss.C08.scatter_formula',
    'PbBss.C08.cacg_step',
    'PbBss.C08.cacg_fixed_point',
    'PbBss.C08.cacg_quadratic_form_is_inverse',
    'PbBss.C08.bingham_fit',
    'PbBss.C08.weight_update_mean',
    'PbBss.C08.weight_update_saliency',
    'PbBss.C08.weight_update_tied_classes',
    'PbBss.C08.saliency_repeat',
    'PbBss.C08.saliency_repeat_exists',
    'PbBss.C08.fit_alternation',
    'PbBss.C08.watson_mode_maximises',
    'PbBss.C08.cacg_fit_iterates',
    'PbBss.C08.saliency_repeat_weights',
    'PbBss.C08.estep_posterior',
]
ASSUMPTIONS = [
    'integer saliency = repetition is judged for the updates themselves (the quantifier names the inline aligner for '
    'the alternation clause only: alignment criteria sum over frames without saliency); with affiliation_eps > 0 the '
    'weights with / without saliency agree up to K*eps (plain mean vs L1-renormalised mean), so the law is exercised '
    'with eps <= 1e-10',
    'eigh contract (U unitary, A U = U diag(lambda), lambda real ascending) is assumed by watson_fit / cacg_step / '
    'bingham_fit and re-checked numerically in the correspondence run (Lean-side Jacobi vs LAPACK)',
    'the inverse hypergeometric ratio (quadratic interp1d table of scipy hyp1f1) and the bounded least-squares solver of '
    'the Bingham eigenvalues are external: their values are passed to the model; the search checks the ratio / gradient '
    'equations numerically (table accuracy 2e-7*(1000/markers)^3, Bingham residual 1e-5)',
    'Tyler fixed point: only the fixed-point equation is proved; convergence of the iteration is observed by the search '
    '(300 iterations, N >= 2D generic data), not proved',
    'n-fold alternation is definitional for the model; that the code is the model is established per run by the '
    'search (n-fold composition of independent oracles, n = 1..8) and the correspondence of every M-step formula',
]

from pb_bss import distribution as dist  # noqa: E402
from pb_bss.distribution import mixture_model_utils as mmu  # noqa: E402
from pb_bss.distribution.complex_bingham import ComplexBinghamTrainer  # noqa: E402

TOL = 1e-9


def _lead_iter(shape):
    return list(np.ndindex(*shape)) if len(shape) else [()]


def _sal_at(sal, idx):
    return None if sal is None else np.asarray(sal)[idx]


def _rejections_are_skips(fn):
    """an explicit exception (assertion / ValueError / LinAlgError ...) is an allowed answer of a trainer"""
    import functools

    @functools.wraps(fn)
    def wrapped(**kw):
        try:
            return fn(**kw)
        except tu.ALLOWED_EXC as e:
            return Skip(f'explicit rejection: {type(e).__name__}')
    return wrapped


# ----------------------------------------------------------------------------- single-distribution oracles
@oracle
@_rejections_are_skips
def gaussian_trainer(y, saliency, covariance_type, offset=0.0):
    """`offset`: a common shift of all observations (exactly representable, applied here): mean shifts by it, the
    covariance must not change - the reference is computed on the unshifted data (a covariance formed as second moment
    minus squared mean cancels once |mean| >> spread)"""
    y0 = y
    y = y + offset if offset else y
    m = dist.GaussianTrainer().fit(y.copy(order='K'), saliency=None if saliency is None else saliency.copy(order='K'),
                                   covariance_type=covariance_type)
    lead = y.shape[:-2]
    cls = {'full': dist.Gaussian, 'diagonal': dist.DiagonalGaussian, 'spherical': dist.SphericalGaussian}[covariance_type]
    if type(m) is not cls:
        return Fail('model-class', f'covariance_type={covariance_type} returned {type(m).__name__}')
    for idx in _lead_iter(lead):
        mean, cov = tu.o_gauss(y0[idx], _sal_at(saliency, idx), covariance_type)
        mean = mean + offset
        e1, e2 = tu.err(m.mean[idx], mean), tu.err(m.covariance[idx], cov)
        if offset:
            # centred two-pass estimate: the mean carries eps*|offset| absolute error, the covariance about twice that
            # relative to a unit spread
            e1, e2 = e1 * 1e-2, e2 * 1e-2
        if e1 > TOL:
            return Fail('gaussian-mean', f'{covariance_type} index {idx}: mean differs from sum(s y)/sum(s) by {e1:.3g}')
        if e2 > TOL:
            return Fail('gaussian-covariance', f'{covariance_type} index {idx}: covariance differs from the pooled '
                        f'weighted scatter by {e2:.3g}')


@oracle
@_rejections_are_skips
def cgauss_trainer(y, saliency):
    m = dist.ComplexCircularSymmetricGaussianTrainer().fit(y.copy(order='K'), saliency=None if saliency is None else saliency.copy(order='K'))
    for idx in _lead_iter(y.shape[:-2]):
        C = tu.o_scatter(y[idx], _sal_at(saliency, idx))
        e = tu.err(m.covariance[idx], C)
        if e > TOL:
            return Fail('complex-gaussian-covariance', f'index {idx}: covariance differs from sum(s y y^H)/sum(s) by {e:.3g}')


@oracle
@_rejections_are_skips
def watson_trainer(y, saliency, max_concentration, spline_markers):
    D = y.shape[-1]
    tr = dist.ComplexWatsonTrainer(max_concentration=max_concentration, spline_markers=spline_markers)
    m = tr.fit(y.copy(order='K'), saliency=None if saliency is None else saliency.copy(order='K'))
    _, lo, hi = tu.watson_inverse_table(D, max_concentration, spline_markers)
    tol_ratio = 2e-7 * (1000.0 / spline_markers) ** 3 + 1e-9
    for idx in _lead_iter(y.shape[:-2]):
        mode, kappa, lam, gap, S = tu.o_watson(y[idx], _sal_at(saliency, idx), max_concentration, spline_markers)
        got_mode, got_k = np.asarray(m.mode)[idx], float(np.asarray(m.concentration)[idx])
        # principal eigenvector: Rayleigh quotient equals the top eigenvalue, unit norm; projector when the gap allows
        rq = float(np.real(np.conj(got_mode) @ tu.herm(S) @ got_mode))
        nrm = float(np.sqrt(np.sum(np.abs(got_mode) ** 2)))
        if abs(nrm - 1) > 1e-9:
            return Fail('watson-mode-norm', f'index {idx}: |mode| = {nrm}')
        if abs(rq - lam) > 1e-9:
            return Fail('watson-mode-not-principal', f'index {idx}: Rayleigh quotient of the mode {rq} != top eigenvalue {lam}')
        if gap > 1e-6 and tu.err(tu.proj(got_mode), tu.proj(mode)) > 1e-9 / min(gap, 1.0):
            return Fail('watson-mode-projector', f'index {idx}: mode is not the principal eigenvector (gap {gap:.3g})')
        # concentration: ratio(kappa) = top eigenvalue, clipped to [0, max]
        if not (0 <= got_k <= max_concentration):
            return Fail('watson-concentration-range', f'index {idx}: concentration {got_k} outside [0, {max_concentration}]')
        if lam < lo - 1e-12:
            ok = got_k == 0
        elif lam > hi + 1e-12:
            ok = got_k == max_concentration
        elif lam < lo + 1e-12 or lam > hi - 1e-12:
            ok = True   # on the table boundary: either side
        else:
            ok = abs(tu.watson_ratio(D, got_k) - lam) <= tol_ratio
        if not ok:
            return Fail('watson-concentration', f'index {idx}: ratio(concentration={got_k}) = {tu.watson_ratio(D, got_k)} '
                        f'but top eigenvalue = {lam} (table range [{lo}, {hi}])')
        if tu.err(got_k, kappa) > 1e-7:
            return Fail('watson-concentration-table', f'index {idx}: concentration {got_k} != documented table inverse {kappa}')


@oracle
@_rejections_are_skips
def vmf_trainer(y, saliency, min_concentration, max_concentration):
    m = dist.VonMisesFisherTrainer().fit(y.copy(order='K'), saliency=None if saliency is None else saliency.copy(order='K'),
                                         min_concentration=min_concentration, max_concentration=max_concentration)
    D = y.shape[-1]
    for idx in _lead_iter(y.shape[:-2]):
        mean, kappa, rbar = tu.o_vmf(y[idx], _sal_at(saliency, idx), min_concentration, max_concentration)
        e1 = tu.err(np.asarray(m.mean)[idx], mean)
        if e1 > TOL:
            return Fail('vmf-mean', f'index {idx}: mean differs from the normalised resultant by {e1:.3g}')
        # kappa = clip((rbar D - rbar^3) / (1 - rbar^2)) with rbar clamped to 1; before the clip saturates the
        # quotient has condition <= ~max_concentration, so 1e-6 covers it; a collinear class must give max exactly
        e2 = tu.err(np.asarray(m.concentration)[idx], kappa)
        if e2 > 1e-6 or (rbar >= 1 and np.asarray(m.concentration)[idx] != max_concentration):
            return Fail('vmf-concentration', f'index {idx}: concentration {np.asarray(m.concentration)[idx]} != clipped '
                        f'Banerjee value {kappa} (rbar={rbar}, D={D})')


@oracle
@_rejections_are_skips
def cacg_trainer(y, iterations, hermitize, covariance_norm, eigenvalue_floor):
    m = dist.ComplexAngularCentralGaussianTrainer().fit(
        y.copy(order='K'), hermitize=hermitize, covariance_norm=covariance_norm, eigenvalue_floor=eigenvalue_floor,
        iterations=iterations)
    tol = 1e-8
    for idx in _lead_iter(y.shape[:-2]):
        e, U = tu.o_cacg_fit(y[idx], iterations, hermitize, covariance_norm, eigenvalue_floor)
        ge, gU = np.asarray(m.covariance_eigenvalues)[idx], np.asarray(m.covariance_eigenvectors)[idx]
        e1 = tu.err(np.sort(ge), np.sort(e))
        e2 = tu.err(tu.cov_from_eig(gU, ge), tu.cov_from_eig(U, e))
        if e1 > tol:
            return Fail('cacg-eigenvalues', f'index {idx}: eigenvalues differ from {iterations} normalised Tyler updates by {e1:.3g}')
        if e2 > tol:
            return Fail('cacg-covariance', f'index {idx}: covariance differs from {iterations} normalised Tyler updates by {e2:.3g}')


@oracle
@_rejections_are_skips
def cacg_step(z, saliency, quadratic_form, hermitize, covariance_norm, eigenvalue_floor):
    """`_fit` with class weights: z (D, N) unit columns, saliency (K, N), quadratic_form (K, N)"""
    m = dist.ComplexAngularCentralGaussianTrainer()._fit(
        y=z[None].copy(order='K'), saliency=saliency.copy(order='K'), quadratic_form=quadratic_form.copy(order='K'), hermitize=hermitize,
        covariance_norm=covariance_norm, eigenvalue_floor=eigenvalue_floor)
    for k in range(saliency.shape[0]):
        C = tu.o_cacg_cov(z.T, saliency[k], quadratic_form[k], hermitize)
        e, U = tu.o_cacg_from_cov(C, covariance_norm, eigenvalue_floor)
        ge, gU = m.covariance_eigenvalues[k], m.covariance_eigenvectors[k]
        e1 = tu.err(np.sort(ge), np.sort(e))
        e2 = tu.err(tu.cov_from_eig(gU, ge), tu.cov_from_eig(U, e))
        if max(e1, e2) > 1e-9:
            return Fail('cacg-weighted-step', f'class {k}: eigenvalue err {e1:.3g}, covariance err {e2:.3g} against '
                        f'normalise(D sum(g z z^H / q) / sum(g))')


@oracle
@_rejections_are_skips
def cacg_fixed_point(y, iterations):
    """repeated application converges to B ~ (D/N) sum z z^H / (z^H B^-1 z) (eigenvalue normalisation)"""
    N, D = y.shape
    z = tu.unit_rows_where(y)

    def residual(n):
        m = dist.ComplexAngularCentralGaussianTrainer().fit(y.copy(order='K'), iterations=n)
        if m.covariance_eigenvalues.min() < 1e-6:
            return None
        B = tu.cov_from_eig(m.covariance_eigenvectors, m.covariance_eigenvalues)
        q = np.real(np.einsum('nd,de,ne->n', z.conj(), np.linalg.inv(B), z))
        C = D / N * np.einsum('nd,ne,n->de', z, z.conj(), 1 / q)
        C = C / np.linalg.eigvalsh(tu.herm(C)).max()
        return tu.err(B, C)
    r1 = residual(iterations)
    if r1 is None:
        return Skip('Tyler limit near-singular (eigenvalue floor region)')
    if r1 <= 1e-6:
        return None
    # slow (linear) convergence for barely sufficient data: the residual must keep contracting
    r2 = residual(2 * iterations)
    if r2 is None:
        return Skip('Tyler limit near-singular (eigenvalue floor region)')
    if r2 > max(1e-6, 0.5 * r1):
        return Fail('tyler-fixed-point', f'residual of B ~ (D/N) sum z z^H/(z^H B^-1 z) is {r1:.3g} after {iterations} and '
                    f'{r2:.3g} after {2 * iterations} iterations: not converging')


@oracle
@_rejections_are_skips
def bingham_trainer(y, saliency, max_concentration):
    tr = ComplexBinghamTrainer(max_concentration=max_concentration)
    m = tr.fit(y.copy(order='K'), saliency=None if saliency is None else saliency.copy(order='K'))
    for idx in _lead_iter(y.shape[:-2]):
        z = tu.unit_rows(y[idx])
        S = tu.herm(tu.o_scatter(z, _sal_at(saliency, idx)))
        lam, U = np.linalg.eigh(S)
        ev, V = np.asarray(m.covariance_eigenvalues)[idx], np.asarray(m.covariance_eigenvectors)[idx]
        # eigenvectors = scatter eigenvectors (column i belongs to scatter eigenvalue lam[i])
        r = np.max(np.abs(S @ V - V * lam[None, :]))
        if r > 1e-9:
            return Fail('bingham-eigenvectors', f'index {idx}: columns are not the scatter eigenvectors (residual {r:.3g})')
        if np.max(np.abs(V.conj().T @ V - np.eye(len(lam)))) > 1e-9:
            return Fail('bingham-eigenvectors-unitary', f'index {idx}: eigenvectors not unitary')
        # order: larger scatter eigenvalue <-> larger parameter eigenvalue; maximum 0
        if np.any(np.diff(ev) < -1e-12):
            return Fail('bingham-eigenvalue-order', f'index {idx}: eigenvalues {ev} not ascending like the scatter eigenvalues')
        # gradient equation, where no bound of the solver is active and the table is well-conditioned
        d = -np.diff(ev)
        interior = np.all(d < -1e-6) and (np.isinf(max_concentration) or (np.all(d > -0.999 * max_concentration)
                                                                        and ev.min() > -0.999 * max_concentration))
        if interior and np.min(np.diff(lam)) > 1e-3 and lam[0] > 1e-3:
            g = tu.bingham_grad_log_norm(ev)
            res = np.max(np.abs(g - lam))
            if res > 1e-5:
                return Fail('bingham-gradient-equation', f'index {idx}: grad log c(eigenvalues) = {g} != scatter eigenvalues {lam}')
        else:
            return Skip('Bingham solver on a bound / near-duplicate scatter eigenvalues: gradient equation not judged')


# ----------------------------------------------------------------------------- mixture weight
@oracle
def mixture_weight(affiliation, saliency, weight_constant_axis, as_list=False):
    wca = tu.wca_arg(weight_constant_axis)
    if as_list and isinstance(wca, tuple):
        wca = list(wca)
    got = mmu.estimate_mixture_weight(affiliation.copy(order='K'), None if saliency is None else saliency.copy(order='K'), wca)
    want = tu.o_weight(affiliation, saliency, wca)
    K = affiliation.shape[-2]
    if isinstance(want, str):
        if got.shape != (K, 1) or tu.err(got, np.full((K, 1), 1 / K)) > 1e-15:
            return Fail('weight-tied-over-classes', f'weight_constant_axis={weight_constant_axis}: expected (K, 1) filled with 1/K, got {got}')
        return None
    nd = affiliation.ndim
    tuple_tied = (nd - 2) in [a % nd for a in tu.wca_axes(wca)]
    if got.shape != want.shape:
        return Fail('weight-shape', f'shape {got.shape} != {want.shape}')
    e = tu.err(got, want)
    if e > TOL:
        if tuple_tied:
            return Fail('weight-tied-over-classes-tuple', f'weight_constant_axis={tuple(weight_constant_axis)} '
                        f'(saliency {"given" if saliency is not None else "None"}): value {np.ravel(got)[:3]} instead of '
                        f'{np.ravel(want)[:3]} (equal share 1/K = {1 / K} of the renormalised mean)')
        return Fail('weight-value', f'weight_constant_axis={weight_constant_axis}: differs from the L1-renormalised '
                    f'(saliency-weighted) mean affiliation by {e:.3g}')


# ----------------------------------------------------------------------------- integer saliency == repetition
def _single_fit(trainer, y, sal, opt):
    if trainer == 'gaussian':
        m = dist.GaussianTrainer().fit(y, saliency=sal, covariance_type=opt['covariance_type'])
        return {'mean': m.mean, 'covariance': m.covariance}
    if trainer == 'cgauss':
        return {'covariance': dist.ComplexCircularSymmetricGaussianTrainer().fit(y, saliency=sal).covariance}
    if trainer == 'watson':
        m = dist.ComplexWatsonTrainer().fit(y, saliency=sal)
        return {'mode-projector': tu.proj(m.mode), 'concentration': m.concentration}
    if trainer == 'vmf':
        m = dist.VonMisesFisherTrainer().fit(y, saliency=sal)
        return {'mean': m.mean, 'concentration': m.concentration}
    if trainer == 'bingham':
        m = ComplexBinghamTrainer().fit(y, saliency=sal)
        return {'eigenvalues': m.covariance_eigenvalues,
                'covariance': tu.cov_from_eig(m.covariance_eigenvectors, m.covariance_eigenvalues)}
    if trainer == 'cacg-step':
        # y: (N, D) unit rows; one class; quadratic form opt['q'] (N,)
        q = np.asarray(opt['q'], dtype=np.float64)
        if sal is None:
            m = dist.ComplexAngularCentralGaussianTrainer()._fit(y=y.T[None], saliency=np.ones((1, len(y))), quadratic_form=q[None])
        else:
            m = dist.ComplexAngularCentralGaussianTrainer()._fit(y=y.T[None], saliency=sal[None], quadratic_form=q[None])
        return {'eigenvalues': m.covariance_eigenvalues[0],
                'covariance': tu.cov_from_eig(m.covariance_eigenvectors[0], m.covariance_eigenvalues[0])}
    raise ValueError(trainer)


@oracle
@_rejections_are_skips
def saliency_is_repetition(trainer, y, counts, opt):
    counts = np.asarray(counts, dtype=np.int64)
    a = _single_fit(trainer, y.copy(order='K'), counts.astype(np.float64), opt)
    opt2 = dict(opt)
    if 'q' in opt:
        opt2['q'] = np.repeat(np.asarray(opt['q']), counts)
    b = _single_fit(trainer, np.repeat(y, counts, axis=0), None, opt2)
    for k in a:
        e = tu.err(a[k], b[k])
        tol = 1e-6 if trainer == 'bingham' or (trainer == 'watson' and k == 'mode-projector') else 1e-9
        if e > tol:
            return Fail('saliency-vs-repetition', f'{trainer}: field {k} with integer saliency differs from the fit on the repeated data by {e:.3g}')


@oracle
def mixture_saliency_is_repetition(model, y, emb, init, counts, iterations, opt):
    """saliency depends on the frame only (same counts in every bin), so the repeated data set is rectangular"""
    counts = np.asarray(counts, dtype=np.int64)
    lead = y.ndim == 3
    sal = counts.astype(np.float64)
    if lead:
        sal = np.broadcast_to(sal, y.shape[:-1]).copy(order='K')
    try:
        a = tu.call_mixture(model, y, init, sal, iterations, opt, emb)
        b = tu.call_mixture(model, np.repeat(y, counts, axis=-2), np.repeat(init, counts, axis=-1), None, iterations, opt,
                            None if emb is None else np.repeat(emb, counts, axis=-2))
    except tu.ALLOWED_EXC as e:  # noqa
        return Skip(f'explicit rejection: {type(e).__name__}')
    if tu.ill_conditioned(model, a) or tu.ill_conditioned(model, b):
        return Skip('a class collapsed (ill-conditioned parameters): comparison dominated by rounding')
    # cBMM: the Bingham parameters come out of a bounded least-squares solver (external) that reacts to 1-ulp changes of the
    # scatter eigenvalues at the 1e-6 level (posterior_util.tolerances uses the same 1e-4 for its parameters)
    tol = 1e-4 if model == 'cbmm' else 1e-6
    wa, wb = np.asarray(a.weight, dtype=np.float64), np.asarray(b.weight, dtype=np.float64)
    if lead and tuple(tu.wca_axes(opt['weight_constant_axis'])) == (-3,) and wb.ndim and wb.shape[-1] == counts.sum():
        # one weight per (class, frame): every copy of a repeated frame carries the weight of the original frame
        rep_idx = np.repeat(np.arange(len(counts)), counts)
        if tu.err(wb, wa[..., rep_idx]) > tol:
            return Fail('mixture-weight-saliency-vs-repetition', f'{model}: per-frame weights with integer saliency differ from the fit on the repeated data')
        wb_cmp = wa
    else:
        wb_cmp = wb
    if wa.shape != wb_cmp.shape or tu.err(wa, wb_cmp) > tol:
        return Fail('mixture-weight-saliency-vs-repetition', f'{model}: weights with integer saliency differ from the fit on the repeated data')
    if model in ('gcacgmm', 'vmfcacgmm'):
        fa, fb = _int_fields(model, a), _int_fields(model, b)
    else:
        fa, fb = tu.fields_of(model, a, lead), tu.fields_of(model, b, lead)
        fa, fb = _gauge_free(model, fa), _gauge_free(model, fb)
    for k in fa:
        e = tu.err(fa[k], fb[k])
        if e > tol:
            return Fail('mixture-saliency-vs-repetition', f'{model}: field {k} with integer saliency differs from the fit on the repeated data by {e:.3g}')


def _gauge_free(model, f):
    if model == 'cwmm':
        return {'mode-projector': tu.proj(f['mode']), 'concentration': f['concentration']}
    if model in ('cacgmm', 'cbmm'):
        return {'eigenvalues': np.sort(f['eigenvalues'], axis=-1), 'covariance': tu.cov_from_eig(f['eigenvectors'], f['eigenvalues'])}
    return f


def _int_fields(model, m):
    out = {'cacg-eigenvalues': np.sort(m.cacg.covariance_eigenvalues, axis=-1),
           'cacg-covariance': tu.cov_from_eig(m.cacg.covariance_eigenvectors, m.cacg.covariance_eigenvalues)}
    if model == 'gcacgmm':
        out.update({'mean': m.gaussian.mean, 'covariance': m.gaussian.covariance})
    else:
        out.update({'mean': m.vmf.mean, 'concentration': m.vmf.concentration})
    return out


# ----------------------------------------------------------------------------- fit(n) == n alternations
def _compare_fit(model, m, lead, K, opt, w, params, spec, cacg, tol, n):
    """fitted object of the code vs oracle result; returns None or (tag, description)"""
    gw = np.asarray(m.weight, dtype=np.float64)
    integ = model in ('gcacgmm', 'vmfcacgmm')
    if isinstance(w, str):
        if not (gw.size >= 1 and np.allclose(gw, 1.0 / K, rtol=0, atol=1e-12)):
            if not isinstance(opt['weight_constant_axis'], (int, np.integer)) and not integ:
                return 'weight-tied-over-classes-tuple', f'{model}: weights tied over the classes are {np.ravel(gw)[:3]}, not 1/K'
            return 'weight-tied-over-classes', f'{model}: weights tied over the classes are {np.ravel(gw)[:3]}, not 1/K'
    else:
        if integ:
            from pb_bss.utils import unsqueeze
            gw = unsqueeze(gw, tu.wca_arg(opt['weight_constant_axis']))
        elif not lead:
            gw = gw[None]
        if gw.shape != w.shape:
            return 'mixture-weight-shape', f'{model}: weight shape {gw.shape} != {w.shape}'
        if not np.all(np.isfinite(w)):
            return 'skip', 'saliency sums to zero over the tied axes (weight undefined)'
        e = tu.err(gw, w)
        if e > tol:
            return 'mixture-weight', f'{model} n={n}: weights differ from the oracle by {e:.3g}'
    if integ:
        for k in range(K):
            if model == 'gcacgmm':
                e1 = tu.err(m.gaussian.mean[k], spec[k][0])
                e2 = tu.err(m.gaussian.covariance[k], spec[k][1])
            else:
                e1 = tu.err(m.vmf.mean[k], spec[k][0])
                e2 = tu.err(m.vmf.concentration[k], spec[k][1]) * 1e-3
            if max(e1, e2) > tol:
                return 'integration-spectral-parameters', f'{model} n={n} class {k}: errors {e1:.3g}, {e2:.3g}'
        bad = tu.compare_params('cacgmm', {'eigenvectors': m.cacg.covariance_eigenvectors,
                                           'eigenvalues': m.cacg.covariance_eigenvalues}, cacg, tol * 10)
        return ('integration-' + bad[0], f'{model} n={n}: {bad[1]}') if bad else None
    bad = tu.compare_params(model, tu.fields_of(model, m, lead), params, tol * (10 if model in ('cacgmm', 'cbmm') else 1))
    return (bad[0], f'{model} n={n}: {bad[1]}') if bad else None


def _oracle_fit(model, y, emb, init, saliency, n, opt, lead, start=None, normalise_embedding=True):
    """n-fold composition of the oracle steps from gamma0 (start=None), or ONE oracle E+M step from the code's own
    fitted model `start` (step-wise form)"""
    axes = tu.wca_arg(opt['weight_constant_axis'])
    if model in ('gcacgmm', 'vmfcacgmm'):
        w, spec, cacg = tu.int_em_oracle(model, y, emb, init, saliency, axes, n, opt, start=start,
                                         normalise_embedding=normalise_embedding)
        return w, None, spec, cacg, np.inf
    y3, g3 = (y, init) if lead else (y[None], init[None])
    s3 = None if saliency is None else (saliency if lead else saliency[None])
    fam = tu.family_of(model, opt, y.shape[-1])
    w, params, margin = tu.em_oracle(fam, y3, g3, s3, axes, n, opt.get('affiliation_eps', 0.0), opt.get('aligner'), start=start)
    return w, params, None, None, margin


@oracle
def mixture_alternation(model, y, emb, init, saliency, iterations, opt):
    """fit(initialization=gamma0, iterations=n) equals the n-fold composition of the independent oracle M-/E-steps
    (n = 1: the oracle M-step on gamma0).  When the end-to-end comparison exceeds its tolerance the same statement is
    re-examined step-wise (oracle E+M step applied to the code's own iterate n-1 must give the code's iterate n), which
    separates an update that is not the documented one from rounding drift amplified by a collapsing class."""
    lead = y.ndim == 3
    sal = None if saliency is None else saliency.copy(order='K')
    if not tu.class_mass_positive(model, init, saliency):
        return Skip('a class starts without mass')
    try:
        m = tu.call_mixture(model, y.copy(order='K'), init.copy(order='K'), sal, iterations, opt, emb)
    except tu.ALLOWED_EXC as e:
        return Skip(f'explicit rejection: {type(e).__name__}')
    tol = 1e-9 if iterations == 1 else 1e-6
    if model in ('cwmm', 'cbmm'):
        tol = max(tol, 1e-7)
    K = init.shape[-2]
    try:
        w, params, spec, cacg, margin = _oracle_fit(model, y, emb, init, saliency, iterations, opt, lead)
        if margin < 1e-7:
            return Skip('alignment decision within rounding')
        bad = _compare_fit(model, m, lead, K, opt, w, params, spec, cacg, tol, iterations)
        if bad is None and model == 'cacgmm' and iterations >= 2:
            # the same alternation reached through a CONTINUED fit (initialization=<model>): n1 iterations, then n - n1 more
            n1 = max(1, iterations // 2)
            first = tu.call_mixture(model, y.copy(order='K'), init.copy(order='K'), sal, n1, opt, emb)
            cont = tu.call_mixture(model, y.copy(order='K'), first, sal, iterations - n1, opt, emb)
            badc = _compare_fit(model, cont, lead, K, opt, w, params, spec, cacg, tol, iterations)
            if badc is not None and badc[0] != 'skip' and not tu.ill_conditioned(model, cont):
                return Fail('continued-fit-' + badc[0], f'fit(initialization=fit(gamma0, {n1}), {iterations - n1}) is not the '
                            f'{iterations}-fold alternation: ' + badc[1])
        if bad is None:
            return None
        if bad[0] == 'skip':
            return Skip(bad[1])
        if model == 'vmfcacgmm':
            # diagnose: is it the M-step on the un-normalised embedding?
            w2, p2, spec2, cacg2, _ = _oracle_fit(model, y, emb, init, saliency, iterations, opt, lead, normalise_embedding=False)
            if _compare_fit(model, m, lead, K, opt, w2, p2, spec2, cacg2, tol, iterations) is None:
                return Fail('vmfcacgmm-embedding-not-normalised', 'VMFCACGMMTrainer.fit feeds the embedding to the vMF M-step '
                            'without the unit normalisation that VMFCACGMM.predict / VonMisesFisherTrainer.fit apply: '
                            + bad[1])
        if tu.ill_conditioned(model, m):
            return Skip('a class collapsed (ill-conditioned parameters): comparison dominated by rounding')
        if iterations == 1:
            return Fail(bad[0], bad[1])
        # step-wise form, for EVERY step i-1 -> i of the history (a wrong update in an early iteration - e.g. the first
        # non-identity alignment - is invisible in the last step once the class order has become consistent)
        cur = m
        skip_reason = None
        for i in range(iterations, 1, -1):
            prev = tu.call_mixture(model, y.copy(order='K'), init.copy(order='K'), sal, i - 1, opt, emb)
            if tu.ill_conditioned(model, cur) or tu.ill_conditioned(model, prev):
                skip_reason = skip_reason or 'a class collapsed (ill-conditioned parameters): comparison dominated by rounding'
                cur = prev
                continue
            w, params, spec, cacg, margin = _oracle_fit(model, y, emb, init, saliency, 1, opt, lead, start=prev)
            if margin < 1e-7:
                skip_reason = skip_reason or 'alignment decision within rounding'
                cur = prev
                continue
            bad2 = _compare_fit(model, cur, lead, K, opt, w, params, spec, cacg, 1e-7, i)
            if bad2 is not None and bad2[0] == 'skip':
                skip_reason = skip_reason or bad2[1]
            elif bad2 is not None:
                if model == 'vmfcacgmm':
                    w2, p2, spec2, cacg2, _ = _oracle_fit(model, y, emb, init, saliency, 1, opt, lead, start=prev,
                                                          normalise_embedding=False)
                    if _compare_fit(model, cur, lead, K, opt, w2, p2, spec2, cacg2, 1e-7, i) is None:
                        return Fail('vmfcacgmm-embedding-not-normalised', 'VMFCACGMMTrainer.fit feeds the embedding to the '
                                    'vMF M-step without the unit normalisation that VMFCACGMM.predict / '
                                    'VonMisesFisherTrainer.fit apply: ' + bad2[1])
                return Fail(bad2[0], f'step-wise (iteration {i - 1} -> {i}): ' + bad2[1] + ' | end-to-end: ' + bad[1])
            cur = prev
        # the first iterate is the oracle M-step on the start value
        w, params, spec, cacg, _ = _oracle_fit(model, y, emb, init, saliency, 1, opt, lead)
        bad1 = _compare_fit(model, cur, lead, K, opt, w, params, spec, cacg, 1e-7, 1)
        if bad1 is not None and bad1[0] != 'skip' and not tu.ill_conditioned(model, cur):
            return Fail(bad1[0], 'step-wise (start value -> iteration 1): ' + bad1[1] + ' | end-to-end: ' + bad[1])
        if skip_reason:
            return Skip(skip_reason)
        return None
    except (np.linalg.LinAlgError, FloatingPointError, ValueError, ZeroDivisionError) as e:
        return Skip(f'oracle not evaluable: {type(e).__name__}')


# ----------------------------------------------------------------------------- generators
def gen_opt(rng, model, ndim3, allow_align=True):
    if model in ('gcacgmm', 'vmfcacgmm'):
        wca = [(-1,), (-3,), (-3, -1), (-3, -2, -1)][int(rng.integers(4))]
    elif ndim3:
        wca = [(-1,), -1, (-3,), -3, (-3, -1), [-3, -1], -2][int(rng.integers(7))]
    else:
        wca = [(-1,), -1, -2][int(rng.integers(3))]
    opt = {'weight_constant_axis': list(wca) if isinstance(wca, (tuple, list)) else wca}
    if model in ('gmm', 'gcacgmm'):
        opt['covariance_type'] = str(rng.choice(['full', 'diagonal', 'spherical']))
    if model in ('vmfmm', 'vmfcacgmm'):
        opt['min_concentration'] = float(rng.choice([1e-10, 1e-3, 0.5]))
        opt['max_concentration'] = float(rng.choice([500, 50, 5]))
    if model == 'cwmm':
        opt['max_concentration'] = float(rng.choice([500, 100, 20]))
        opt['spline_markers'] = int(rng.choice([1000, 300]))
    if model in ('cacgmm', 'gcacgmm', 'vmfcacgmm'):
        opt['hermitize'] = bool(rng.random() < 0.7)
        opt['covariance_norm'] = [  'eigenvalue', 'trace', False][int(rng.integers(3))]
        opt['eigenvalue_floor'] = float(rng.choice([1e-10, 1e-6, 1e-2]))
        opt['affiliation_eps'] = float(rng.choice([1e-10, 0.0, 1e-3]))
    if model == 'cbmm':
        opt['max_concentration'] = float(rng.choice([np.inf, np.inf, 50.0]))
        opt['affiliation_eps'] = float(rng.choice([0.0, 1e-10, 1e-3]))
    if model in ('gcacgmm', 'vmfcacgmm'):
        opt['spatial_weight'] = float(rng.choice([1.0, 0.5, 2.0]))
        opt['spectral_weight'] = float(rng.choice([1.0, 0.3]))
        opt['inline_permutation_alignment'] = bool(rng.random() < 0.4)
    return opt


def gen_aligner(rng, F):
    if rng.random() < 0.5:
        return {'kind': 'greedy', 'metric': str(rng.choice(['cos', 'multiply', 'euclidean']))}
    cfg = gen.dhtv_cfg(rng, F)
    cfg.update({'kind': 'dhtv', 'metric': str(rng.choice(['cos', 'multiply', 'euclidean'])),
                'algorithm': str(rng.choice(['greedy', 'optimal']))})
    return cfg


def gen_mixture_case(rng, model, n_max=8, want_align=None, integer_saliency=False):
    K = int(rng.integers(2, 4))
    if want_align and rng.random() < 0.8:
        K = int(rng.integers(3, 5))      # non-involutive mappings (3-cycles) need K >= 3
    if model in ('gcacgmm', 'vmfcacgmm'):
        F = int(rng.integers(1, 4))
        T = int(rng.integers(6, 11))
        D = int(rng.integers(2, 4))
        E = int(rng.integers(2, 4))
        y = tu.gen_complex(rng, (F, T, D))
        emb = rng.normal(size=(F, T, E)) + rng.normal(size=(1, 1, E))
        if model == 'vmfcacgmm' and rng.random() < 0.6:
            emb = tu.unit_rows(emb)         # directions, as the vMF component expects them
        init = tu.gen_affiliation(rng, F, K, T)
        opt = gen_opt(rng, model, True)
        sal, skind = tu.gen_saliency(rng, (F, T), 'none' if integer_saliency else None)
        return dict(model=model, y=y, emb=emb, init=init, saliency=sal, iterations=int(rng.integers(1, n_max + 1)), opt=opt), skind
    lead = rng.random() < 0.6 or bool(want_align)
    F = int(rng.integers(1, 4)) if lead else 1
    if want_align:
        F = int(rng.choice([1, 3, 5, 5, 7]))      # both aligners assert an odd number of bins
    D = int(rng.integers(2, 4))
    N = int(rng.integers(4 * D, 6 * D + 1)) if model == 'gmm' else int(rng.integers(D + 1, 3 * D + 4))
    if model == 'cbmm':
        N = int(rng.integers(2 * D + 2, 4 * D + 4))
    cplx = model in tu.COMPLEX_MODELS
    y = tu.gen_complex(rng, (F, N, D)) if cplx else tu.gen_real(rng, (F, N, D))
    if model == 'gmm':
        y = y + rng.normal(size=(F, 1, D))
    init = tu.gen_affiliation(rng, F, K, N, hard=rng.random() < 0.15)
    opt = gen_opt(rng, model, lead)
    if model in ('cwmm', 'cacgmm', 'cbmm') and lead and F >= 1:
        use = (rng.random() < 0.4) if want_align is None else want_align
        if use:
            opt['weight_constant_axis'] = [[-3], [-3, -1], -3][int(rng.integers(3))]
            opt['aligner'] = gen_aligner(rng, F)
            if opt['aligner']['kind'] == 'dhtv' and F % 2 == 0:     # the DHTV aligner asserts an odd number of bins
                opt['aligner'] = {'kind': 'greedy', 'metric': opt['aligner']['metric']}
            if rng.random() < 0.85 and cplx:
                # separable classes whose order is permuted per bin in the start value: the aligner then has real work to
                # do (non-identity, for K >= 3 also non-involutive mappings such as 3-cycles)
                N = max(N, 4 * K)
                lab = rng.integers(0, K, size=N)
                lab[:K] = np.arange(K)
                proto = tu.gen_complex(rng, (F, K, D))
                y = proto[:, lab, :] + 0.15 * tu.gen_complex(rng, (F, N, D))
                truth = np.moveaxis(np.eye(K)[lab], -1, 0)                       # (K, N)
                init = np.stack([truth[rng.permutation(K)] for _ in range(F)])   # (F, K, N), class order permuted per bin
                init = 0.9 * init + 0.1 / K
    sal, skind = tu.gen_saliency(rng, (F, N), 'none' if integer_saliency else None)
    if not lead:
        y, init = y[0], init[0]
        sal = None if sal is None else sal[0]
    return dict(model=model, y=y, emb=None, init=init, saliency=sal, iterations=int(rng.integers(1, n_max + 1)), opt=opt), skind


def _lead_shape(rng):
    return [(), (), (2,), (3,), (2, 2)][int(rng.integers(5))]


def search(ctx):
    rng = ctx.rng
    # (1) single-distribution trainers against the defining formulas
    for i in range(ctx.n(240, 2400)):
        if ctx.out_of_time():
            break
        lead = _lead_shape(rng)
        D = int(rng.integers(1, 5))
        N = int(rng.integers(D + 1, D + 9))
        sal, skind = tu.gen_saliency(rng, lead + (N,))
        ct = ['full', 'diagonal', 'spherical'][i % 3]
        ctx.count(f'gaussian-{ct}-sal:{skind}-lead{len(lead)}')
        yy = tu.gen_real(rng, lead + (N, D))
        off = 0.0
        if rng.random() < 0.3:
            yy = np.round(yy * 1024) / 1024                       # 10 fractional bits: yy + 2^k is exact
            off = float(rng.choice([2.0 ** 10, 2.0 ** 20, -2.0 ** 21]))
            ctx.count('gaussian-offset:2^%d' % int(np.log2(abs(off))))
        ok = ctx.run(gaussian_trainer, y=yy, saliency=sal, covariance_type=ct, offset=off)
        if i == 0:
            ctx.sample({'oracle': 'gaussian_trainer', 'shape': list(lead + (N, D)), 'saliency': skind, 'covariance_type': ct, 'held': ok})
        ctx.run(cgauss_trainer, y=tu.gen_complex(rng, lead + (N, D)), saliency=sal)
        D2 = max(D, 2)
        N2 = int(rng.integers(D2 + 1, D2 + 9))
        sal2, skind2 = tu.gen_saliency(rng, lead + (N2,))
        mc, mk = [(500, 1000), (100, 1000), (50, 300), (500, 200), (700, 1000)][int(rng.integers(5))]
        yc = tu.gen_complex(rng, lead + (N2, D2))
        if rng.random() < 0.25:   # concentrated data: top eigenvalue near 1 (upper clipping of the concentration)
            yc = yc * 1e-3 + (rng.normal(size=lead + (1, D2)) + 1j * rng.normal(size=lead + (1, D2)))
        ctx.count(f'watson-sal:{skind2}-max{mc}-markers{mk}')
        ctx.run(watson_trainer, y=yc, saliency=sal2, max_concentration=mc, spline_markers=mk)
        lo, hi = [(1e-10, 500), (1e-3, 50), (0.5, 5), (2.0, 3.0)][int(rng.integers(4))]
        yr = tu.gen_real(rng, lead + (N2, D2))
        r_ = rng.random()
        if r_ < 0.2:
            yr = yr * 1e-2 + rng.normal(size=lead + (1, D2))
        elif r_ < 0.4:        # all directions equal (positive multiples of one vector): r_bar = 1 up to rounding -> max
            yr = (rng.random(lead + (N2, 1)) + 0.1) * rng.normal(size=lead + (1, D2))
        ctx.count(f'vmf-sal:{skind2}')
        ctx.run(vmf_trainer, y=yr, saliency=sal2, min_concentration=lo, max_concentration=hi)
        # cACG: fit (no saliency, leading axes = fixed defect cf5e8f1) and the weighted single step
        norm = ['eigenvalue', 'trace', False][int(rng.integers(3))]
        floor = float(rng.choice([1e-10, 1e-6, 1e-2]))
        hz = bool(rng.random() < 0.7)
        ctx.count(f'cacg-fit-norm:{norm}-lead{len(lead)}')
        ctx.run(cacg_trainer, y=tu.gen_complex(rng, lead + (N2, D2)), iterations=int(rng.integers(1, 11)), hermitize=hz,
                covariance_norm=norm, eigenvalue_floor=floor)
        K = int(rng.integers(1, 4))
        z = tu.unit_rows_where(tu.gen_complex(rng, (N2, D2))).T.copy(order='K')
        s3, _ = tu.gen_saliency(rng, (K, N2), str(rng.choice(['uniform', 'sparse', 'integer', 'tiny-scale', 'huge-scale'])))
        ctx.run(cacg_step, z=z, saliency=s3, quadratic_form=rng.random((K, N2)) + 0.05, hermitize=hz,
                covariance_norm=norm, eigenvalue_floor=floor)
    for i in range(ctx.n(48, 400)):
        if ctx.out_of_time():
            break
        D = int(rng.integers(2, 5))
        N = int(rng.integers(2 * D, 4 * D + 1))
        ctx.run(cacg_fixed_point, y=tu.gen_complex(rng, (N, D)), iterations=300)
    for i in range(ctx.n(160, 1600)):
        if ctx.out_of_time():
            break
        lead = [(), (), (2,)][int(rng.integers(3))]
        D = int(rng.integers(2, 6))
        N = int(rng.integers(D + 2, 3 * D + 6))
        sal, skind = tu.gen_saliency(rng, lead + (N,))
        mc = float(rng.choice([np.inf, np.inf, 200.0, 20.0]))
        ctx.count(f'bingham-D{D}-sal:{skind}-max{mc}')
        ctx.run(bingham_trainer, y=tu.gen_complex(rng, lead + (N, D)), saliency=sal, max_concentration=mc)
    # (2) mixture weights: every tying option, with and without saliency
    for i in range(ctx.n(600, 6000)):
        if ctx.out_of_time():
            break
        nd3 = rng.random() < 0.7
        F, K, N = int(rng.integers(1, 4)), int(rng.integers(1, 5)), int(rng.integers(1, 7))
        aff = tu.gen_affiliation(rng, F, K, N, hard=rng.random() < 0.2)
        if rng.random() < 0.2:
            aff = np.clip(aff, 1e-3, 1 - 1e-3)
        sal, skind = tu.gen_saliency(rng, (F, N))
        if nd3:
            wca = [-1, (-1,), -3, (-3,), (-3, -1), [-3, -1], -2, 1, 2, 0, (0,), (0, 2), (-2,), (-3, -2, -1), (1,), (1, 2), (0, 1, 2), (0, 1), (-3, 1)][int(rng.integers(19))]
        else:
            aff = aff[0]
            sal = None if sal is None else sal[0]
            wca = [-1, (-1,), -2, 0, 1, (-2,), (0,), (0, 1), (1,)][int(rng.integers(9))]
        ctx.count(f'weight-wca:{wca}-sal:{"yes" if sal is not None else "no"}')
        ctx.run(mixture_weight, affiliation=aff, saliency=sal, weight_constant_axis=list(wca) if isinstance(wca, (tuple, list)) else wca,
                as_list=isinstance(wca, list))
    # (3) integer saliency == physical repetition
    for i in range(ctx.n(160, 1600)):
        if ctx.out_of_time():
            break
        trainer = ['gaussian', 'cgauss', 'watson', 'vmf', 'bingham', 'cacg-step'][i % 6]
        D = int(rng.integers(2, 4))
        N = int(rng.integers(D + 1, D + 7))
        counts = rng.integers(1, 5, size=N)
        cplx = trainer in ('cgauss', 'watson', 'bingham', 'cacg-step')
        y = tu.gen_complex(rng, (N, D)) if cplx else tu.gen_real(rng, (N, D))
        opt = {}
        if trainer == 'gaussian':
            opt['covariance_type'] = str(rng.choice(['full', 'diagonal', 'spherical']))
        if trainer == 'cacg-step':
            y = tu.unit_rows_where(y)
            opt['q'] = rng.random(N) + 0.05
        ctx.count(f'repetition-{trainer}')
        ctx.run(saliency_is_repetition, trainer=trainer, y=y, counts=counts, opt=opt)
    for i in range(ctx.n(112, 1120)):
        if ctx.out_of_time():
            break
        model = tu.MODELS[i % 7]
        case, _ = gen_mixture_case(rng, model, n_max=4, want_align=False, integer_saliency=True)
        if 'inline_permutation_alignment' in case['opt']:
            # the alignment criteria (sums over frames) are not saliency-weighted; the repetition law is stated for
            # the updates themselves (the quantifier names the aligner for the alternation clause only)
            case['opt']['inline_permutation_alignment'] = False
        if case['opt'].get('affiliation_eps', 0) > 1e-10:
            # with clipping the posteriors sum to 1 +- K*eps; the unweighted path takes the plain mean, the weighted
            # path renormalises -> the two agree up to K*eps only (the tolerance C09 states for the weights)
            case['opt']['affiliation_eps'] = 1e-10
        N = case['init'].shape[-1]
        counts = rng.integers(1, 5, size=N)
        wa = case['opt']['weight_constant_axis']
        ctx.count(f'repetition-{model}')
        ctx.run(mixture_saliency_is_repetition, model=model, y=case['y'], emb=case['emb'], init=case['init'], counts=counts,
                iterations=case['iterations'], opt=case['opt'])
    # (4) fit(n) == n alternations of the oracle updates, n = 1..8
    n_alt = ctx.n(504, 5000)
    for i in range(n_alt):
        if ctx.out_of_time():
            break
        model = tu.MODELS[i % 7]
        case, skind = gen_mixture_case(rng, model, want_align=((i // 7) % 3 != 2) if model in ('cwmm', 'cacgmm', 'cbmm') else None)
        case['iterations'] = 1 + (i // 7) % 8
        if 'aligner' in case['opt'] and case['iterations'] == 1:
            case['iterations'] = 2 + (i // 7) % 3        # the aligner first acts in the second iteration
        ctx.count(f'alternation-{model}-n{case["iterations"]}')
        ctx.count(f'alternation-{model}-align:{"aligner" in case["opt"] or bool(case["opt"].get("inline_permutation_alignment"))}')
        ok = ctx.run(mixture_alternation, **case)
        if i < 2:
            ctx.sample({'oracle': 'mixture_alternation', 'model': model, 'iterations': case['iterations'],
                        'y_shape': list(case['y'].shape), 'opt': {k: str(v) for k, v in case['opt'].items()}, 'saliency': skind, 'held': ok})


def corr(ctx):
    tu.corr_trainers(ctx, degenerate=False)

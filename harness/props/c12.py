"""C12 - GEV and PCA beamformers maximise their Rayleigh quotients; BAN only rescales."""
import numpy as np
import scipy.linalg as sl

from .. import bf_util as U
from ..core import Fail, Skip, oracle
from ..lean import cbits, fbits, parse_complex, parse_floats, run_driver

ID = 'C12'
DRIVERS = ('driver_bf',)
THEOREMS = [
    'PbBss.C12.gev_quotient_eq',
    'PbBss.C12.gev_max',
    'PbBss.C12.gev_dominates_all',
    'PbBss.C12.quotient_smul',
    'PbBss.C12.pca_max',
    'PbBss.C12.pca_scalings',
    'PbBss.C12.pca_lambda_pos',
    'PbBss.C12.rank1_props',
    'PbBss.C12.pca_top_parallel',
    'PbBss.C12.gev_atf_parallel',
    'PbBss.C12.rank1_recovers',
    'PbBss.C12.ban_factor',
    'PbBss.C12.ban_scale',
    'PbBss.C12.ban_preserves_quotient',
]
ASSUMPTIONS = [
    'scipy.linalg.eigh(A, B) contract: V^H B V = 1, V^H A V = diag(lambda) (Hermitian-definite pencil); scipy.linalg.eig '
    '(use_eig=True) is assumed to return the same eigen-directions with another column normalisation (the SNR is '
    'scale invariant: theorem quotient_smul); '
    'np.linalg.eigh contract: U unitary, U^H A U = diag(lambda), ascending.  Re-checked numerically per run: the driver '
    'uses its own Cholesky + Jacobi routines and must reproduce the code up to the eigenvector gauge',
    'np.sqrt on complex numbers enters the model as a parameter csqrt with contract |csqrt z| = sqrt|z| and '
    'csqrt(x) = sqrt(x) for real x >= 0',
    'eigenvectors are compared as projectors; cases whose relative eigenvalue gap is below 1e-6 are skipped and counted',
    'the Cython GEV variant is not built in this sandbox and is not modelled (the Python fallback runs)',
    'target PSDs are non-zero (for the zero matrix the factors sqrt(tr) and lambda_max are 0, not positive)',
]

from pb_bss.extraction import beamformer as bf  # noqa: E402
from pb_bss.extraction import beamformer_wrapper as bw  # noqa: E402

SCALINGS = [None, 'trace', 'eigenvalue']
SCODE = {None: 0, 'trace': 1, 'eigenvalue': 2}
WRAPPER_NAMES = ['pca', 'pca+mvdr', 'scaled_gev_atf+mvdr', 'mvdr_souden', 'rank1_pca+mvdr_souden',
                 'rank1_gev+mvdr_souden', 'gev', 'rank1_pca+gev', 'rank1_gev+gev', 'wmwf', 'rank1_pca+wmwf',
                 'rank1_gev+wmwf']


def tol(cond):
    return 1e-10 + 100 * U.EPS * cond


def rt(cond, k=1e-5):
    return 1e-9 * (1 + k * cond)


def _relgap(vals):
    """relative gap between the two largest eigenvalues (ascending input)"""
    vals = np.asarray(vals, dtype=np.float64)
    if len(vals) < 2:
        return 1.0
    return float((vals[-1] - vals[-2]) / max(abs(vals[-1]), 1e-300))


def _close(got, want, rel, scale=None):
    got, want = np.asarray(got), np.asarray(want)
    if got.shape != want.shape or not np.all(np.isfinite(got)):
        return False, np.inf
    s = float(np.max(np.abs(want))) if scale is None else scale
    err = float(np.max(np.abs(got - want))) if got.size else 0.0
    return err <= rel * s + 1e-300, err / max(s, 1e-300)


def _pair(rng, lead, D, tkind=None):
    noise, cmax = U.hpd_stack(rng, lead, D)
    if tkind is None and rng.random() < 0.06:
        # degenerate: all generalised eigenvalues coincide
        return noise * 10 ** rng.uniform(-2, 2), noise, cmax, 'multiple-of-noise'
    target, tkind = U.psd_target(rng, lead, D, kind=tkind)
    return target, noise, cmax, tkind


# ----------------------------------------------------------------------------- contracts of the externals (re-checked per run)
def _contract_geigh(ctx, X, N, vals, V, c):
    """scipy.linalg.eigh(X, N):  V^H N V = 1,  V^H X V = diag(vals),  vals ascending"""
    t = 100 * rt(c)
    r1 = np.max(np.abs(V.conj().T @ N @ V - np.eye(len(vals))))
    r2 = np.max(np.abs(V.conj().T @ X @ V - np.diag(vals))) / max(np.max(np.abs(vals)), 1e-300)
    ok = r1 <= t and r2 <= t and np.all(np.diff(vals) >= 0)
    ctx.corr('contract:scipy.linalg.eigh(A,B)', ok, f'residuals {r1:.3g}, {r2:.3g} (tolerance {t:.3g})', {'A': X, 'B': N})


def _contract_eigh(ctx, X, vals, Umat):
    """np.linalg.eigh(X):  U^H U = 1,  U^H X U = diag(vals),  vals ascending"""
    r1 = np.max(np.abs(Umat.conj().T @ Umat - np.eye(len(vals))))
    r2 = np.max(np.abs(Umat.conj().T @ X @ Umat - np.diag(vals))) / max(np.max(np.abs(vals)), 1e-300)
    ok = r1 <= 1e-12 and r2 <= 1e-12 and np.all(np.diff(vals) >= 0)
    ctx.corr('contract:np.linalg.eigh', ok, f'residuals {r1:.3g}, {r2:.3g}', {'A': X})


def _contract_csqrt(ctx):
    """np.sqrt on complex numbers:  |sqrt z| = sqrt |z|,  sqrt(x + 0j) = sqrt(x) for x >= 0"""
    z = U.cnormal(ctx.rng, (64,)) * 10 ** ctx.rng.uniform(-6, 6, size=64)
    z[:8] = -np.abs(z[:8].real)
    z[8:16] = np.abs(z[8:16].real)
    ok = np.allclose(np.abs(np.sqrt(z)), np.sqrt(np.abs(z)), rtol=1e-14, atol=0)
    x = np.abs(z.real)
    ok = ok and np.array_equal(np.sqrt(x + 0j), np.sqrt(x) + 0j)
    ctx.corr('contract:np.sqrt(complex)', bool(ok), 'complex square root contract violated', {'z': z})


# ----------------------------------------------------------------------------- correspondence
def corr(ctx):
    rng = ctx.rng
    _contract_csqrt(ctx)
    lines, metas = [], []

    def add(line, *meta):
        lines.append(line)
        metas.append(meta)

    n = ctx.n(150, 1500)
    for i in range(n):
        D = int(rng.integers(2, 9))
        lead = U.lead_shape(rng)
        target, noise, cmax, tkind = _pair(rng, lead, D)
        # dtype mix: a PSD handed over with a real (float or integer) dtype - e.g. a real-symmetric model of the target or of
        # the noise - next to a complex one
        dmix = str(rng.choice(['complex', 'complex', 'complex', 'real-target', 'int-target', 'real-noise']))
        if dmix == 'real-target':
            target = np.ascontiguousarray(target.real)
        elif dmix == 'int-target':
            ti = np.round(target.real * 8).astype(np.int64)
            ti = ti + np.swapaxes(ti, -1, -2)               # symmetric integer matrix; keep it only if it is still PSD
            if np.all(np.linalg.eigvalsh(ti.astype(float))[..., 0] >= 0) and np.all(np.trace(ti, axis1=-1, axis2=-2) > 0):
                target = ti
            else:
                dmix = 'complex'
        elif dmix == 'real-noise':
            noise = np.ascontiguousarray(noise.real)
        ctx.count(f'corr-dtypes:{dmix}')
        ue = bool(i % 2)
        scaling = SCALINGS[i % 3]
        ctx.count(f'corr-D{D}')
        ctx.count(f'corr-leading-axes-{len(lead)}')
        ctx.count(f'corr-target-{tkind}')
        ctx.count(f'corr-use_eig-{ue}')
        try:
            wg = bf.get_gev_vector(target.copy(order='K'), noise.copy(order='K'), use_eig=ue)
            wp = bf.get_pca_vector(target.copy(order='K'), scaling=scaling)
            vtop, ltop = bf.get_pca(target.copy(order='K'))
            e_p = bw.get_pca_rank_one_estimate(target.copy(order='K'))
            e_g = bw.get_gev_rank_one_estimate(target.copy(order='K'), noise.copy(order='K'), use_eig=ue)
            atf = bw._get_gev_atf_vector(target.copy(order='K'), noise.copy(order='K'), use_eig=ue)
            a_p = bf.get_pca_vector(target.copy(order='K'))
        except Exception as e:  # noqa
            ctx.corr('gev/pca', False, f'raised {type(e).__name__}: {e}', {'target': target, 'noise': noise})
            continue
        bw_vec = U.cnormal(rng, lead + (D,)) * 10 ** rng.uniform(-3, 3)
        if i % 10 == 9:
            bw_vec[...] = 0                     # degenerate stream: zero vector -> the `where=denominator != 0` branch
            ctx.count('corr-ban-zero-vector')
        wb = bf.blind_analytic_normalization(bw_vec.copy(order='K'), noise.copy(order='K'))
        idxs = U.slices(lead)
        if len(idxs) > 3:
            idxs = [idxs[j] for j in rng.choice(len(idxs), 3, replace=False)]
        for idx in idxs:
            X, N = target[idx], noise[idx]
            c = U.cond_of(N)
            d = {'target': X, 'noise': N, 'use_eig': ue, 'scaling': scaling}
            gvals = sl.eigh(X, N, eigvals_only=True)
            pvals = np.linalg.eigvalsh(X)
            add(f'gev {D} {cbits(X)} {cbits(N)}', 'gev', wg[idx], (gvals, c), d)
            add(f'pca {D} {SCODE[scaling]} {cbits(X)}', 'pca', wp[idx], (pvals, scaling), d)
            add(f'pcav {D} {SCODE[scaling]} {fbits([ltop[idx]])} {cbits(X)} {cbits(vtop[idx])}', 'pcav', wp[idx], None, d)
            add(f'rank1 {D} {cbits(X)} {cbits(a_p[idx])}', 'rank1-pca', e_p[idx], None, d)
            add(f'rank1 {D} {cbits(X)} {cbits(atf[idx])}', 'rank1-gev', e_g[idx], None, d)
            add(f'gevatf {D} {cbits(N)} {cbits(wg[idx])}', 'gevatf', atf[idx], None, d)
            add(f'rank1pca {D} {cbits(X)}', 'rank1pca', e_p[idx], (pvals, 1.0), d)
            add(f'rank1gev {D} {cbits(X)} {cbits(N)}', 'rank1gev', e_g[idx], (gvals, c), d)
            add(f'ban {D} {cbits(bw_vec[idx])} {cbits(N)}', 'ban', wb[idx], c, {'vector': bw_vec[idx], 'noise': N})
            # selection step on the REAL solver's output (no gauge freedom: the code makes the same deterministic call)
            if not ue:
                sv, sV = sl.eigh(X, N)
                add(f'gevsel {D} {fbits(sv)} {cbits(sV)}', 'gevsel', wg[idx], None, d)
                _contract_geigh(ctx, X, N, sv, sV, c)
            nv, nV = np.linalg.eigh(X)
            add(f'pcasel {D} {fbits(nv)} {cbits(nV)}', 'pcasel', (vtop[idx], ltop[idx]), None, d)
            _contract_eigh(ctx, X, nv, nV)
    ctx.sample({'op': 'gev/pca/rank1/ban', 'shape': list(target.shape), 'target_kind': tkind, 'use_eig': ue,
                'scaling': scaling, 'cond_max': cmax})
    out = run_driver(lines, exe='driver_bf')
    for (kind, want, aux, data), o in zip(metas, out):
        vals = parse_floats(o) if o != 'bad-op' else np.zeros(1)
        if kind == 'gev':
            gvals, c = aux
            lam, w = vals[0], vals[1:].view(np.complex128)
            q = U.rayleigh(want, data['target'], data['noise'])
            ok1 = abs(lam - q) <= rt(c) * max(abs(gvals[-1]), 1e-300)
            ctx.corr('get_gev_vector[rayleigh quotient = model lambda_max]', ok1,
                     f'model lambda_max {lam}, quotient of the code vector {q}, scipy {gvals[-1]}', data)
            gap = _relgap(gvals)
            if gap < 1e-6:
                ctx.count('degenerate-eigenspace-skipped:gev')
                continue
            ok, err = _close(U.projector(w), U.projector(want), 10 * rt(c) / gap, 1.0)
            ctx.corr('get_gev_vector[direction]', ok, f'projector difference {err:.3g} (gap {gap:.3g}, cond {c:.3g})', data)
        elif kind == 'pca':
            pvals, scaling = aux
            lam, w = vals[0], vals[1:].view(np.complex128)
            ok1 = abs(lam - pvals[-1]) <= 1e-9 * abs(pvals[-1])
            ctx.corr('get_pca[eigenvalue]', ok1, f'model {lam}, numpy {pvals[-1]}', data)
            gap = _relgap(pvals)
            if gap < 1e-6:
                ctx.count('degenerate-eigenspace-skipped:pca')
                continue
            s = float(np.real(np.vdot(want, want)))
            ok, err = _close(np.outer(w, w.conj()), np.outer(want, want.conj()), 1e-9 / gap, s)
            ctx.corr(f'get_pca_vector[{scaling}]', ok, f'w w^H difference {err:.3g} (gap {gap:.3g})', data)
        elif kind == 'pcav':
            ok, err = _close(vals.view(np.complex128), want, 1e-9)
            ctx.corr('get_pca_vector[scaling of the code eigenpair]', ok, f'max rel. difference {err:.3g}', data)
        elif kind in ('rank1-pca', 'rank1-gev'):
            ok, err = _close(vals.view(np.complex128), np.asarray(want).ravel(), 1e-9)
            ctx.corr(f'get_{kind[6:]}_rank_one_estimate[from the code atf]', ok, f'max rel. difference {err:.3g}', data)
        elif kind == 'gevatf':
            ok, err = _close(vals.view(np.complex128), want, 1e-9)
            ctx.corr('_get_gev_atf_vector', ok, f'max rel. difference {err:.3g}', data)
        elif kind in ('rank1pca', 'rank1gev'):
            ev, c = aux
            gap = _relgap(ev)
            if gap < 1e-6:
                ctx.count('degenerate-eigenspace-skipped:' + kind)
                continue
            ok, err = _close(vals.view(np.complex128), np.asarray(want).ravel(), 10 * rt(c) / gap)
            ctx.corr(f'get_{kind[5:]}_rank_one_estimate', ok, f'max rel. difference {err:.3g} (gap {gap:.3g})', data)
        elif kind == 'gevsel':
            ok, err = _close(vals.view(np.complex128), want, 1e-12)
            ctx.corr('_get_gev_vector[selection from scipy.linalg.eigh output]', ok, f'max rel. difference {err:.3g}', data)
        elif kind == 'pcasel':
            ok, err = _close(vals[1:].view(np.complex128), want[0], 1e-12)
            ok = ok and abs(vals[0] - want[1]) <= 1e-12 * abs(want[1])
            ctx.corr('get_pca[selection from np.linalg.eigh output]', ok, f'max rel. difference {err:.3g}', data)
        elif kind == 'ban':
            g, w = vals[0], vals[1:].view(np.complex128)
            ok, err = _close(w, want, rt(aux, 1e-6))
            ctx.corr('blind_analytic_normalization', ok, f'max rel. difference {err:.3g}, model gain {g}', data)


# ----------------------------------------------------------------------------- oracles on the real code
@oracle
def gev_is_principal(target, noise, use_eig, seed):
    """SNR of get_gev_vector = largest generalised eigenvalue (scipy.linalg.eigh) and >= SNR of probe vectors"""
    w = bf.get_gev_vector(target.copy(order='K'), noise.copy(order='K'), use_eig=use_eig)
    lead = target.shape[:-2]
    D = target.shape[-1]
    if w.shape != lead + (D,):
        return Fail('shape', f'result shape {w.shape} != {lead + (D,)}')
    if not np.all(np.isfinite(w)):
        return Fail('non-finite', 'non-finite beamforming vector')
    rng = np.random.default_rng(seed)
    for idx in U.slices(lead):
        X, N = target[idx], noise[idx]
        t = tol(U.cond_of(N))
        lmax = float(sl.eigh(X, N, eigvals_only=True)[-1])
        if not np.real(U.quad(w[idx], N)) > 0:
            return Fail('zero-vector', f'index {idx}: w^H Phi_nn w is not positive')
        q = U.rayleigh(w[idx], X, N)
        if not abs(q - lmax) <= t * abs(lmax):
            return Fail('quotient-not-lambda-max', f'index {idx}: SNR {q} != largest generalised eigenvalue {lmax}')
        for kind, v in U.probe_vectors(rng, X, N):
            qv = U.rayleigh(v, X, N)
            if qv > q + t * abs(lmax):
                return Fail('probe-vector-better', f'index {idx}: {kind} probe has SNR {qv} > {q}')


@oracle
def gev_dominates_wrapper(target, noise, name):
    """no beamformer get_bf_vector can produce has a larger SNR than the largest generalised eigenvalue / GEV's SNR"""
    F, D, _ = target.shape
    wg = bf.get_gev_vector(target.copy(order='K'), noise.copy(order='K'))
    kwargs = {}
    w = bw.get_bf_vector(name, target.copy(order='K'), noise.copy(order='K'), **kwargs)
    w = np.broadcast_to(w, (F, D)).astype(np.complex128)
    for f in range(F):
        X, N = target[f], noise[f]
        t = tol(U.cond_of(N))
        lmax = float(sl.eigh(X, N, eigvals_only=True)[-1])
        den = float(np.real(U.quad(w[f], N)))
        if not np.any(w[f]):
            # a zero beamformer has no SNR and cannot exceed anything (e.g. Souden's MVDR for a rank-one estimate whose
            # transfer function vanishes at the chosen reference channel: w = conj(a_ref) * mvdr = 0); not judged
            continue
        if not den > 0:
            return Fail('non-positive-noise-power', f'{name}: bin {f}: w^H Phi_nn w = {den} for a non-zero vector')
        q = float(np.real(U.quad(w[f], X))) / den
        qg = U.rayleigh(wg[f], X, N)
        if q > lmax * (1 + t) or q > qg + 2 * t * abs(lmax):
            return Fail('beamformer-beats-gev', f'{name}: bin {f}: SNR {q} > GEV {qg} / lambda_max {lmax}')


@oracle
def pca_is_principal(target, scaling, seed):
    """w^H Phi w / w^H w = lambda_max >= probes; scaled vector = positive factor times the unit-norm eigenvector"""
    w = bf.get_pca_vector(target.copy(order='K'), scaling=scaling)
    w0 = bf.get_pca_vector(target.copy(order='K'), scaling=None)
    lead = target.shape[:-2]
    D = target.shape[-1]
    if w.shape != lead + (D,):
        return Fail('shape', f'result shape {w.shape} != {lead + (D,)}')
    rng = np.random.default_rng(seed)
    eye = np.eye(D)
    for idx in U.slices(lead):
        X = target[idx]
        ev = np.linalg.eigvalsh(X)
        lmax = float(ev[-1])
        nw = float(np.linalg.norm(w[idx]))
        if not nw > 0:
            return Fail('zero-vector', f'index {idx}: zero vector')
        q = U.rayleigh(w[idx], X, eye)
        if not abs(q - lmax) <= 1e-10 * abs(lmax):
            return Fail('quotient-not-lambda-max', f'index {idx}: quotient {q} != largest eigenvalue {lmax} (scaling {scaling})')
        for kind, v in U.probe_vectors(rng, X, eye, pi_steps=8):
            qv = U.rayleigh(v, X, eye)
            if qv > q + 1e-10 * abs(lmax):
                return Fail('probe-vector-better', f'index {idx}: {kind} probe has quotient {qv} > {q}')
        factor = {None: 1.0, 'trace': float(np.sqrt(np.real(np.trace(X)))), 'eigenvalue': lmax}[scaling]
        if not factor > 0:
            return Skip('zero target matrix: factor is not positive')
        if not abs(np.linalg.norm(w0[idx]) - 1) <= 1e-12:
            return Fail('unscaled-not-unit-norm', f'index {idx}: |get_pca_vector(scaling=None)| = {np.linalg.norm(w0[idx])}')
        if not abs(nw - factor) <= 1e-10 * factor:
            return Fail('wrong-scaling-factor', f'index {idx}: |w| = {nw}, expected {factor} (scaling {scaling})')
        if not np.max(np.abs(w[idx] - factor * w0[idx])) <= 1e-10 * factor:
            return Fail('not-factor-times-unit-eigenvector', f'index {idx}: w != {factor} * unit-norm principal eigenvector')


@oracle
def rank_one_estimate_properties(target, noise, kind, use_eig, scaling=None):
    """Hermitian, rank one, trace preserving (PCA variant: for every `scaling` option of the underlying PCA vector)"""
    if kind == 'pca':
        kw = {} if scaling is None else {'scaling': scaling}
        e = bw.get_pca_rank_one_estimate(target.copy(order='K'), **kw)
    else:
        e = bw.get_gev_rank_one_estimate(target.copy(order='K'), noise.copy(order='K'), use_eig=use_eig)
    if e.shape != target.shape:
        return Fail('shape', f'estimate shape {e.shape} != {target.shape}')
    for idx in U.slices(target.shape[:-2]):
        E, X = e[idx], target[idx]
        s = np.linalg.svd(E, compute_uv=False)
        if not (np.all(np.isfinite(E)) and s[0] > 0):
            return Fail('degenerate-estimate', f'index {idx}: estimate is zero or non-finite')
        if not np.max(np.abs(E - E.conj().T)) <= 1e-12 * s[0]:
            return Fail('not-hermitian', f'index {idx}: |E - E^H| = {np.max(np.abs(E - E.conj().T)):.3g}')
        if len(s) > 1 and not s[1] <= 1e-12 * s[0]:
            return Fail('not-rank-one', f'index {idx}: singular values {s[:3]}')
        tr, trx = np.trace(E), np.trace(X)
        if not abs(tr - trx) <= 1e-12 * abs(trx):
            return Fail('trace-not-preserved', f'index {idx}: trace {tr} != {trx}')
        if not np.real(np.trace(E)) > 0:
            return Fail('not-psd', f'index {idx}: negative trace')


@oracle
def rank_one_estimate_recovers(a, sigma, noise, kind, use_eig, scaling=None):
    """exactly rank-one target sigma a a^H: the estimate equals the target, its range is the steering direction"""
    target = U.rank_one(a, sigma)
    if kind == 'pca':
        kw = {} if scaling is None else {'scaling': scaling}
        e = bw.get_pca_rank_one_estimate(target.copy(order='K'), **kw)
        atf = bf.get_pca_vector(target.copy(order='K'))
    else:
        e = bw.get_gev_rank_one_estimate(target.copy(order='K'), noise.copy(order='K'), use_eig=use_eig)
        atf = bw._get_gev_atf_vector(target.copy(order='K'), noise.copy(order='K'), use_eig=use_eig)
    for idx in U.slices(a.shape[:-1]):
        t = 1e-10 if kind == 'pca' else 10 * tol(U.cond_of(noise[idx]))
        sc = float(np.max(np.abs(target[idx])))
        if not np.max(np.abs(e[idx] - target[idx])) <= t * sc:
            return Fail('target-not-recovered', f'index {idx}: |estimate - sigma a a^H| = '
                                                f'{np.max(np.abs(e[idx] - target[idx])):.3g} > {t * sc:.3g} ({kind})')
        un, vn = atf[idx] / np.linalg.norm(atf[idx]), a[idx] / np.linalg.norm(a[idx])
        s = float(np.linalg.norm(un - vn * np.vdot(vn, un)))
        if not s <= t:
            return Fail('steering-direction-not-recovered', f'index {idx}: sine of the angle to a = {s:.3g} > {t:.3g} ({kind})')


@oracle
def ban_rescales_only(vector, noise, c_abs, c_phase):
    """BAN = positive real gain sqrt(w^H N N w)/(w^H N w) times w; independent of |c| for input c*w"""
    out = bf.blind_analytic_normalization(vector.copy(order='K'), noise.copy(order='K'))
    if out.shape != vector.shape:
        return Fail('shape', f'result shape {out.shape} != {vector.shape}')
    c = c_abs * np.exp(1j * c_phase)
    out_pos = bf.blind_analytic_normalization(c_abs * vector, noise.copy(order='K'))
    out_cx = bf.blind_analytic_normalization(c * vector, noise.copy(order='K'))
    for idx in U.slices(vector.shape[:-1]):
        w, N, o = vector[idx], noise[idx], out[idx]
        t = tol(U.cond_of(N))
        Nw = N @ w
        g = float(np.sqrt(np.real(np.vdot(Nw, Nw))) / np.real(np.vdot(w, Nw)))
        if not (np.isfinite(g) and g > 0):
            return Skip('zero input vector')
        k = int(np.argmax(np.abs(w)))
        ratio = o[k] / w[k]
        if not (abs(ratio.imag) <= t * abs(ratio) and ratio.real > 0):
            return Fail('gain-not-positive-real', f'index {idx}: out/w = {ratio}')
        if not np.max(np.abs(o - g * w)) <= t * g * np.max(np.abs(w)):
            return Fail('wrong-gain', f'index {idx}: out/w = {ratio}, expected {g}')
        sc = g * float(np.max(np.abs(w)))
        if not np.max(np.abs(out_pos[idx] - o)) <= t * sc:
            return Fail('depends-on-input-magnitude', f'index {idx}: BAN({c_abs} w) != BAN(w)')
        if not np.max(np.abs(out_cx[idx] - np.exp(1j * c_phase) * o)) <= t * sc:
            return Fail('phase-not-carried', f'index {idx}: BAN(c w) != (c/|c|) BAN(w)')


@oracle
def ban_keeps_snr(target, noise, use_eig):
    """BAN applied to the GEV vector: direction and SNR unchanged"""
    w = bf.get_gev_vector(target.copy(order='K'), noise.copy(order='K'), use_eig=use_eig)
    o = bf.blind_analytic_normalization(w.copy(order='K'), noise.copy(order='K'))
    for idx in U.slices(target.shape[:-2]):
        t = tol(U.cond_of(noise[idx]))
        q0, q1 = U.rayleigh(w[idx], target[idx], noise[idx]), U.rayleigh(o[idx], target[idx], noise[idx])
        if not abs(q0 - q1) <= 2 * t * abs(q0):
            return Fail('snr-changed', f'index {idx}: SNR {q0} -> {q1}')
        un, vn = o[idx] / np.linalg.norm(o[idx]), w[idx] / np.linalg.norm(w[idx])
        if not np.linalg.norm(un - vn) <= 1e-12:
            return Fail('direction-changed', f'index {idx}: normalised difference {np.linalg.norm(un - vn):.3g}')


# ----------------------------------------------------------------------------- search
def search(ctx):
    rng = ctx.rng
    n = ctx.n(400, 4000)
    for i in range(n):
        if ctx.out_of_time():
            break
        D = int(rng.integers(2, 9))
        lead = U.lead_shape(rng)
        target, noise, cmax, tkind = _pair(rng, lead, D)
        dmix = str(rng.choice(['complex', 'complex', 'complex', 'real-target', 'int-target', 'real-noise']))
        if dmix == 'real-target':
            target = np.ascontiguousarray(target.real)
        elif dmix == 'int-target':
            ti = np.round(target.real * 8).astype(np.int64)
            ti = ti + np.swapaxes(ti, -1, -2)
            if np.all(np.linalg.eigvalsh(ti.astype(float))[..., 0] >= 0) and np.all(np.trace(ti, axis1=-1, axis2=-2) > 0):
                target = ti
            else:
                dmix = 'complex'
        elif dmix == 'real-noise':
            noise = np.ascontiguousarray(noise.real)
        ctx.count(f'search-dtypes:{dmix}')
        ue = bool(i % 2)
        scaling = SCALINGS[i % 3]
        ctx.count(f'search-D{D}')
        ctx.count(f'search-leading-axes-{len(lead)}')
        ctx.count(f'search-target-{tkind}')
        ctx.count(f'search-use_eig-{ue}')
        ctx.count('search-cond-1e%d' % int(np.floor(np.log10(cmax) + 1e-9)))
        seed = int(rng.integers(2 ** 31))
        ok = ctx.run(gev_is_principal, target=target, noise=noise, use_eig=ue, seed=seed)
        if i < 2:
            ctx.sample({'oracle': 'gev_is_principal', 'shape': list(target.shape), 'target_kind': tkind, 'use_eig': ue,
                        'cond_max': cmax, 'held': ok})
        ctx.run(pca_is_principal, target=target, scaling=scaling, seed=seed)
        kind = ['pca', 'gev'][(i // 2) % 2]
        ctx.run(rank_one_estimate_properties, target=target, noise=noise, kind=kind, use_eig=ue, scaling=scaling)
        a, _ = U.steering(rng, lead + (D,))
        sigma = 10 ** rng.uniform(-3, 3, size=lead)
        ctx.run(rank_one_estimate_recovers, a=a, sigma=sigma, noise=noise, kind=kind, use_eig=ue, scaling=scaling)
        vec = U.cnormal(rng, lead + (D,)) * 10 ** rng.uniform(-3, 3)
        ctx.run(ban_rescales_only, vector=vec, noise=noise, c_abs=float(10 ** rng.uniform(-6, 6)),
                c_phase=float(rng.uniform(-np.pi, np.pi)))
        ctx.run(ban_keeps_snr, target=target, noise=noise, use_eig=ue)
        # every beamformer of the wrapper (needs the (F, D, D) layout for the reference-channel estimate)
        F = int(rng.integers(1, 6))
        t3, n3, _, _ = _pair(rng, (F,), D)
        base = WRAPPER_NAMES + ['ch%d' % int(rng.integers(D))]
        name = base[i % len(base)] + ('+ban' if (i // len(base)) % 2 else '')
        ctx.count('search-wrapper-' + ('ch<N>' if name.startswith('ch') else name))
        ctx.run(gev_dominates_wrapper, target=t3, noise=n3, name=name)

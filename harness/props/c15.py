"""C15 - oracle alignment is optimal and undoes any per-frequency permutation."""
import itertools

import numpy as np
from scipy.optimize import linear_sum_assignment

from .. import gen, pyref
from ..core import Fail, Skip, oracle
from ..lean import fbits, parse_ints, run_driver

ID = 'C15'
DRIVERS = ('driver',)
THEOREMS = [
    'PbBss.C15.optimal_is_max',
    'PbBss.C15.optimal_ge_every_permutation',
    'PbBss.C15.optimal_ge_greedy',
    'PbBss.C15.row_dominant_greedy',
    'PbBss.C15.row_dominant_optimal',
    'PbBss.C15.euclidean_row_dominant',
    'PbBss.C15.cos_row_dominant',
    'PbBss.C15.multiply_optimal_dominant',
    'PbBss.C15.oracle_inverts_row_dominant',
    'PbBss.C15.oracle_inverts_euclidean',
    'PbBss.C15.oracle_inverts_cos',
    'PbBss.C15.oracle_inverts_multiply_optimal',
    'PbBss.C15.oracle_inverts_multiply_greedy',
]
ASSUMPTIONS = [
    'exact inversion for cos/multiply is a real-number statement; generated references have normalised-row separation '
    '>= 1e-6 (closer rows are counted, not judged)',
]

from pb_bss import permutation_alignment as pa  # noqa: E402

METRICS = ['cos', 'euclidean', 'multiply']
ALGOS = ['greedy', 'optimal']


def corr(ctx):
    """kernel correspondence: `assign optimal` / `assign greedy` and the oracle aligner, exact"""
    rng = ctx.rng
    mats = []
    for K in (1, 2, 3):
        for vals in itertools.product((0.0, 1.0, 2.0), repeat=K * K):
            mats.append(np.array(vals).reshape(K, K))
    for K in (1, 2, 3):   # all-negative grids: totals below -K (euclidean-like scores)
        grid = list(itertools.product((-3.0, -2.0, -1.0), repeat=K * K))
        for vals in (grid if K < 3 or ctx.tier == 'thorough' else [grid[i] for i in rng.choice(len(grid), 1500, replace=False)]):
            mats.append(np.array(vals).reshape(K, K))
    for _ in range(ctx.n(300, 6000)):
        K = int(rng.integers(1, 6))
        m = rng.normal(size=(K, K)) if rng.random() < 0.6 else rng.integers(-3, 4, size=(K, K)).astype(float)
        m = m * float(rng.choice([1, 1, 10, 1e-3])) + float(rng.choice([0, 0, -1, -10, 10, -1e3]))
        mats.append(m)
        ctx.count('corr-optimal-all-negative' if np.all(m < 0) else 'corr-optimal-mixed-sign')
    out = run_driver([f'assign optimal {m.shape[0]} {fbits(m)}' for m in mats])
    for m, o in zip(mats, out):
        want = pa._mapping_from_score_matrix(m, 'optimal')
        got = parse_ints(o)
        ctx.corr('_mapping_from_score_matrix[optimal]', np.array_equal(got, want),
                 f'score={m.tolist()} code={want.tolist()} model={got.tolist()}', {'score': m})
    lines, metas = [], []
    for _ in range(ctx.n(80, 1500)):
        K = int(rng.integers(1, 5))
        F = gen.odd(rng, 1, 9)
        T = int(rng.integers(1, 8))
        ref, kind = gen.real_mask(rng, K, F, T)
        perm = gen.random_perm_field(rng, K, F)
        mask = pa.apply_mapping(ref, perm)
        metric, algo = str(rng.choice(METRICS)), str(rng.choice(ALGOS))
        lines.append(f'oracle {metric} {algo} {K} {F} {T} {fbits(mask)} {fbits(ref)}')
        metas.append((mask, ref, metric, algo))
        ctx.count('corr-oracle-' + kind)
    out = run_driver(lines)
    for (mask, ref, metric, algo), o in zip(metas, out):
        K, F, T = mask.shape
        want = pa.OraclePermutationAlignment(metric, algo).calculate_mapping(mask, ref)
        got = parse_ints(o).reshape(K, F)
        if np.array_equal(got, want):
            ctx.corr('oracle', True)
        elif pyref.ref_oracle_aligner(mask, ref, metric, algo)[1] < 1e-9:
            ctx.count('tie-within-rounding:oracle')
        else:
            ctx.corr('oracle', False, f'metric={metric} algo={algo} code={want.tolist()} model={got.tolist()}',
                     {'mask': mask, 'ref': ref, 'metric': metric, 'algo': algo})
    ctx.sample({'op': 'assign optimal', 'score': mats[-1].tolist()})


# ----------------------------------------------------------------------------- oracles on the real code
@oracle
def optimal_attains_maximum(score):
    s = np.asarray(score, dtype=np.float64)
    K = s.shape[0]
    m = pa._mapping_from_score_matrix(s, 'optimal')
    g = pa._mapping_from_score_matrix(s, 'greedy')
    if not pyref.is_perm_columns(m, K):
        return Fail('not-a-permutation', f'optimal returned {m.tolist()}')
    tot = s[np.arange(K), m].sum()
    best = max(s[np.arange(K), list(p)].sum() for p in itertools.permutations(range(K))) if K <= 6 else None
    r, c = linear_sum_assignment(-s)
    lsa = s[r, c].sum()
    tol = 1e-9 * (1 + np.abs(s).sum())
    if best is not None and tot < best - tol:
        return Fail('below-brute-force-maximum', f'optimal total {tot} < max over permutations {best}')
    if abs(tot - lsa) > tol:
        return Fail('differs-from-linear-sum-assignment', f'optimal total {tot} != linear_sum_assignment {lsa}')
    if tot < s[np.arange(K), g].sum() - tol:
        return Fail('below-greedy', f'optimal total {tot} < greedy total {s[np.arange(K), g].sum()}')


# smallest relative row separation a double-precision score can still resolve reliably:
# euclidean sees the difference itself, cos/multiply see it squared (1 - d^2/2)
SEP = {'euclidean': 1e-10, 'cos': 1e-6, 'multiply': 1e-6}
# the same for single precision inputs (eps 6e-8: squared separation must stay well above it)
SEP32 = {'euclidean': 1e-5, 'cos': 3e-2, 'multiply': 3e-2}


def _sep(reference, metric):
    return (SEP32 if np.asarray(reference).dtype == np.float32 else SEP)[metric]


def _row_separation(ref, metric):
    """min distance between (normalised) class rows of any bin"""
    K = ref.shape[0]
    r = np.asarray(ref, dtype=np.float64).reshape(K, ref.shape[1], -1)
    if metric == 'cos':
        r = pyref.vec_norm(r)
    d = np.inf
    for a in range(K):
        for b in range(a + 1, K):
            d = min(d, float(np.min(np.linalg.norm(r[a] - r[b], axis=-1))))
    scale = max(1e-300, float(np.max(np.linalg.norm(r, axis=-1))))
    return d / scale


@oracle
def oracle_undoes_permutation(reference, perm, metric, algorithm):
    K, F = perm.shape
    if K > 1 and _row_separation(reference, metric) < _sep(reference, metric):
        return Skip('rows closer than the float resolution margin (outside "pairwise distinct" with margin)')
    if metric == 'cos' and np.any(np.linalg.norm(reference.reshape(K, F, -1), axis=-1) == 0):
        return Skip('zero row has no direction')
    mask = pa.apply_mapping(reference, perm)
    al = pa.OraclePermutationAlignment(metric, algorithm)
    if reference.dtype == bool and metric == 'euclidean':
        try:
            al(mask, reference)
        except TypeError:
            return Skip('boolean masks with the euclidean metric are rejected explicitly (NumPy boolean subtract)')
    out = al(mask, reference)
    if not np.array_equal(out, reference):
        bad = [f for f in range(F) if not np.array_equal(out[:, f], reference[:, f])]
        return Fail('reference-not-restored', f'{metric}/{algorithm}: bins {bad[:5]} not restored (perm {perm[:, bad[0]].tolist()})')
    m = al.calculate_mapping(mask, reference)
    if not np.array_equal(perm[m, np.arange(F)], np.repeat(np.arange(K)[:, None], F, 1)):
        return Fail('mapping-not-inverse', 'returned mapping is not the inverse of the injected permutation')


@oracle
def oracle_resolves_global_permutation(reference, perm1, metric, algorithm):
    """frequency and time flattened: (K, F, T) -> (K, F*T), one global permutation"""
    K, F, T = reference.shape
    flat_ref = reference.reshape(K, F * T)
    if K > 1 and _row_separation(flat_ref[:, None, :], metric) < _sep(reference, metric):
        return Skip('rows closer than the float resolution margin')
    if metric == 'cos' and np.any(np.linalg.norm(flat_ref, axis=-1) == 0):
        return Skip('zero row has no direction')
    mask = flat_ref[perm1]
    al = pa.OraclePermutationAlignment(metric, algorithm)
    if reference.dtype == bool and metric == 'euclidean':
        try:
            al.calculate_mapping(mask, flat_ref)
        except TypeError:
            return Skip('boolean masks with the euclidean metric are rejected explicitly (NumPy boolean subtract)')
    m = al.calculate_mapping(mask, flat_ref)
    if np.asarray(m).shape != (K,):
        return Fail('global-mapping-shape', f'mapping shape {np.asarray(m).shape}')
    if not np.array_equal(mask[m], flat_ref):
        return Fail('global-permutation-not-resolved', f'{metric}/{algorithm}: perm {perm1.tolist()} -> mapping {m.tolist()}')


@oracle
def oracle_reused_aligner(references, perms, metric, algorithm):
    """ONE aligner object and ONE reference buffer, refilled in place scene after scene: every call must still return the
    reference of its own scene (an aligner keeps nothing from an earlier call)"""
    al = pa.OraclePermutationAlignment(metric, algorithm)
    buf = np.empty_like(references[0])
    for i, (ref, perm) in enumerate(zip(references, perms)):
        K, F = perm.shape
        if K > 1 and _row_separation(ref, metric) < _sep(ref, metric):
            return Skip('rows closer than the float resolution margin')
        if metric == 'cos' and np.any(np.linalg.norm(ref.reshape(K, F, -1), axis=-1) == 0):
            return Skip('zero row has no direction')
        np.copyto(buf, ref)
        mask = pa.apply_mapping(buf, perm)
        out = al(mask, buf)
        if not np.array_equal(out, ref):
            return Fail('reused-aligner-reference-not-restored',
                        f'{metric}/{algorithm}: scene {i} of {len(references)} through one aligner object and one reference '
                        f'buffer is not restored (a fresh aligner restores it: '
                        f'{np.array_equal(pa.OraclePermutationAlignment(metric, algorithm)(mask, ref.copy()), ref)})')


def search(ctx):
    rng = ctx.rng
    # exhaustive small integer grids, K <= 3
    for K in (1, 2, 3):
        for vals in itertools.product((0, 1, 2), repeat=K * K):
            ctx.run(optimal_attains_maximum, score=np.array(vals, dtype=np.float64).reshape(K, K))
    ctx.count('exhaustive-{0,1,2}-K<=3', 19767)
    for K in (1, 2, 3):   # all-negative grid (every permutation total <= -K)
        grid = list(itertools.product((-3, -2, -1), repeat=K * K))
        sel = grid if K < 3 or ctx.tier == 'thorough' else [grid[i] for i in rng.choice(len(grid), 1500, replace=False)]
        for vals in sel:
            ctx.run(optimal_attains_maximum, score=np.array(vals, dtype=np.float64).reshape(K, K))
        ctx.count(f'grid-{{-3,-2,-1}}-K{K}', len(sel))
    for _ in range(ctx.n(300, 6000)):
        K = int(rng.integers(1, 7))
        s = rng.normal(size=(K, K)) if rng.random() < 0.7 else rng.integers(-5, 6, size=(K, K)).astype(float)
        s = s * float(rng.choice([1, 1, 10, 1e-3])) + float(rng.choice([0, 0, -1, -10, 10, -1e3]))
        ctx.count('search-optimal-all-negative' if np.all(s < 0) else 'search-optimal-mixed-sign')
        ctx.run(optimal_attains_maximum, score=s)
    # exhaustive permutation fields K <= 3, F <= 3
    for K in (1, 2, 3):
        perms = list(itertools.permutations(range(K)))
        for F in (1, 3):
            T = 4
            ref = rng.random((K, F, T)) + 0.05
            fields = list(itertools.product(perms, repeat=F))
            for fld in fields:
                perm = np.array(fld).T.reshape(K, F)
                for metric in METRICS:
                    for algo in ALGOS:
                        ctx.run(oracle_undoes_permutation, reference=ref, perm=perm, metric=metric, algorithm=algo)
            ctx.count(f'exhaustive-fields-K{K}-F{F}', len(fields))
    for i in range(ctx.n(200, 4000)):
        if ctx.out_of_time():
            break
        K = int(rng.integers(1, 7))
        F = gen.odd(rng, 1, 15)
        T = int(rng.integers(2, 12))
        kind = rng.choice(['uniform', 'normalised', 'integer-distinct', 'sparse', 'near-duplicate-rows'])
        metric, algo = str(rng.choice(METRICS)), str(rng.choice(ALGOS))
        near = None
        if kind == 'near-duplicate-rows' and K >= 2:
            # two classes that differ only slightly (but resolvably); the injected field exchanges exactly them
            ref = rng.random((K, F, T)) + 0.1
            # the euclidean score sees the difference itself: resolvable down to ~1e-10 relative
            delta = 10.0 ** (rng.uniform(-9.5, -3) if metric == 'euclidean' else rng.uniform(-5.5, -3))
            a, b = rng.choice(K, 2, replace=False)
            ref[b] = ref[a] * (1 + delta * rng.choice([-1.0, 1.0], size=(F, T)))
            near = (int(a), int(b))
        elif kind == 'uniform' or kind == 'near-duplicate-rows':
            ref = rng.random((K, F, T))
        elif kind == 'normalised':
            ref = rng.random((K, F, T)) + 1e-3
            ref /= ref.sum(0, keepdims=True)
        elif kind == 'integer-distinct':
            ref = rng.integers(0, 5, size=(K, F, T)).astype(float)
        else:
            ref = rng.random((K, F, T)) * (rng.random((K, F, T)) < 0.4)
        ctx.count('search-ref-' + str(kind))
        if rng.random() < 0.4:
            # unnormalised masks (power-like levels, per class) and single precision inputs
            single = near is None and rng.random() < 0.5
            L = 10.0 ** (rng.uniform(-3, 5) if single else rng.uniform(-3, 9))
            lv = [np.ones(K), np.arange(1, K + 1), np.arange(K, 0, -1), rng.uniform(0.5, 2, K)][int(rng.integers(4))]
            if near is not None:
                lv = np.ones(K)
            ref = ref * (L * lv)[:, None, None]
            if single:
                ref = ref.astype(np.float32)
            ctx.count(f'search-ref-level-{"float32" if single else "float64"}-1e{int(np.floor(np.log10(L)))}')
        perm = gen.random_perm_field(rng, K, F)
        if near is not None:
            perm = np.repeat(np.arange(K)[:, None], F, 1)
            swap = rng.random(F) < 0.7
            perm[near[0], swap], perm[near[1], swap] = near[1], near[0]
        ok = ctx.run(oracle_undoes_permutation, reference=ref, perm=perm, metric=metric, algorithm=algo)
        if i == 0:
            ctx.sample({'oracle': 'oracle_undoes_permutation', 'K': K, 'F': F, 'T': T, 'metric': metric,
                        'algorithm': algo, 'perm': perm.tolist(), 'held': ok})
        p1 = rng.permutation(K)
        if near is not None:
            p1 = np.arange(K)
            p1[near[0]], p1[near[1]] = near[1], near[0]
        ctx.run(oracle_resolves_global_permutation, reference=ref, perm1=p1, metric=metric, algorithm=algo)

    # one-hot masks in the integer / boolean dtypes the module's own doctests use, with many frames (sums of products and of
    # squared differences must not be accumulated in the mask dtype)
    for i in range(ctx.n(40, 400)):
        K = int(rng.integers(2, 5))
        F = int(rng.choice([1, 3]))
        T = int(rng.choice([60, 130, 300, 520, 1000]))
        dt = [np.int8, np.uint8, np.int16, np.int64, bool][int(rng.integers(5))]
        lab = rng.integers(0, K, size=(F, T))
        lab[:, :K] = np.arange(K)           # every class occurs
        ref = np.ascontiguousarray(np.eye(K, dtype=dt)[lab].transpose(2, 0, 1))
        metric, algo = str(rng.choice(METRICS)), str(rng.choice(ALGOS))
        ctx.count(f'search-ref-one-hot-{np.dtype(dt).name}')
        ctx.run(oracle_undoes_permutation, reference=ref, perm=gen.random_perm_field(rng, K, F), metric=metric, algorithm=algo)
        ctx.run(oracle_resolves_global_permutation, reference=ref, perm1=rng.permutation(K), metric=metric, algorithm=algo)
    # one aligner object, one reference buffer refilled in place
    for i in range(ctx.n(40, 400)):
        K, F, T = int(rng.integers(2, 5)), gen.odd(rng, 1, 7), int(rng.integers(3, 12))
        n = int(rng.integers(2, 5))
        refs = [rng.random((K, F, T)) + 0.05 for _ in range(n)]
        perms = [gen.random_perm_field(rng, K, F) for _ in range(n)]
        metric, algo = str(rng.choice(METRICS)), str(rng.choice(ALGOS))
        ctx.count('search-reused-aligner-scenes', n)
        ctx.run(oracle_reused_aligner, references=refs, perms=perms, metric=metric, algorithm=algo)

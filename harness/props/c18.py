"""C18 - oracle masks satisfy their defining identities in every axis layout."""
import itertools
import math

import numpy as np

from .. import masks_util as mu
from ..core import Fail, Skip, oracle
from ..lean import cbits, fbits, ints, parse_floats, parse_complex, parse_ints, run_driver

ID = 'C18'
DRIVERS = ('driver_masks',)
THEOREMS = [
    'PbBss.C18.ibm_onehot',
    'PbBss.C18.ibm_onehot_tensor',
    'PbBss.C18.pooled_power_def',
    'PbBss.C18.wiener_range_sum',
    'PbBss.C18.irm_range_sum',
    'PbBss.C18.wiener_tensor_is_kernel',
    'PbBss.C18.icm_reconstruct',
    'PbBss.C18.psm_eq_re_icm',
    'PbBss.C18.icm_psm_tensor_is_kernel',
    'PbBss.C18.quantile_levels',
    'PbBss.C18.quantile_high_iff',
    'PbBss.C18.quantile_threshold',
    'PbBss.C18.quantile_high_count',
    'PbBss.C18.lorenz_levels',
    'PbBss.C18.lorenz_pairs',
    'PbBss.C18.lorenz_raises_iff',
    'PbBss.C18.lorenz_selection_is_prefix',
    'PbBss.C18.lorenz_tensor_rows',
    'PbBss.C18.quantile_tensor_rows',
    'PbBss.C18.mask_axis_equivariance',
    'PbBss.C18.mask_axis_equivariance_squeezed',
    'PbBss.C18.squeeze_spec',
    'PbBss.C18.transpose_spec',
    'PbBss.C18.zero_input_finite',
    'PbBss.C18.zero_input_ibm',
]
ASSUMPTIONS = [
    'complex128 inputs of moderate magnitude (no overflow of |s|^2); eps = 1e-18 unless stated',
    'threshold / arg-max decisions are compared exactly; cases whose decision margin is below 1e-9 relative are '
    'counted as ties-within-rounding (the pooled sums of the implementation and of the model may differ in the last bit)',
    'np.abs (hypot), np.angle (atan2), np.cos, np.sort and the linear-interpolation rule of np.percentile are modelled, '
    'not verified',
]

from pb_bss.extraction import mask_module as mm  # noqa: E402

EPS = mm.EPS
HAS_SENSOR = {'ideal_binary_mask': True, 'wiener_like_mask': True, 'ideal_ratio_mask': False,
              'ideal_amplitude_mask': False, 'phase_sensitive_mask': False, 'ideal_complex_mask': False}
SOURCE_MASKS = list(HAS_SENSOR)
EPS_GUARDED = ['wiener_like_mask', 'ideal_ratio_mask', 'ideal_amplitude_mask', 'phase_sensitive_mask']


def _fn(name):
    return getattr(mm, name)


def _expected_shape(shape, se, keepdims):
    s = list(shape)
    if se is not None:
        s[se] = 1
        if not keepdims:
            del s[se]
    return tuple(s)


def _out_index(idx, sa, k, se, keepdims):
    oi = mu.put(idx, {sa: k})
    if se is not None and not keepdims:
        oi = mu.drop(oi, se)
    return oi


def _pooled(sub, sa, se):
    """sub: fibre over (source[, sensor]) in position order -> list over sources of lists over sensors"""
    if se is None:
        return [[complex(v)] for v in sub]
    if sa > se:
        sub = sub.T
    return [[complex(v) for v in row] for row in sub]


def _power(vals):
    p = 0.0
    for v in vals:
        p = p + (v.real * v.real + v.imag * v.imag)
    return p


# ============================================================================= oracles on the real code
@oracle
def ibm_one_hot_at_first_maximum(signal, source_axis, sensor_axis, keepdims, exact):
    """ideal binary mask: one-hot along the source axis, at the (first) source of maximal sensor-pooled power"""
    nd = signal.ndim
    sa, se = mu.norm_axis(source_axis, nd), mu.norm_axis(sensor_axis, nd)
    m = mm.ideal_binary_mask(signal.copy(order='K'), source_axis=source_axis, sensor_axis=sensor_axis, keepdims=keepdims)
    want = _expected_shape(signal.shape, se, keepdims)
    if m.shape != want:
        return Fail('shape', f'ideal_binary_mask shape {m.shape}, expected {want}')
    if m.dtype != np.float64:
        return Fail('dtype', f'ideal_binary_mask dtype {m.dtype}')
    K = signal.shape[sa]
    for idx, sub in mu.fibers(signal, [sa] + ([se] if se is not None else [])):
        src = _pooled(sub, sa, se)
        P = [_power(v) for v in src]
        vals = [float(m[_out_index(idx, sa, k, se, keepdims)]) for k in range(K)]
        if sorted(vals) != [0.0] * (K - 1) + [1.0]:
            return Fail('not-one-hot', f'values along the source axis at {idx}: {vals}')
        ks = vals.index(1.0)
        pmax = max(P)
        tol = 0.0 if exact else 1e-12 * pmax
        if P[ks] < pmax - tol:
            return Fail('not-at-maximum', f'at {idx}: mask selects source {ks} with power {P[ks]}, powers {P}')
        for j in range(ks):
            if (exact and P[j] >= P[ks]) or src[j] == src[ks]:
                return Fail('not-first-maximum', f'at {idx}: source {j} ties with the selected source {ks} (powers {P})')


def _ratio_quantities(name, src):
    if name == 'wiener_like_mask':
        return [_power(v) for v in src]
    return [abs(v[0]) for v in src]


@oracle
def ratio_mask_range_and_sum(name, signal, source_axis, sensor_axis, keepdims, eps):
    """Wiener-like (powers) and ideal ratio (magnitudes) masks: q_k / (sum_j q_j + eps), in [0, 1], summing to
    Q/(Q+eps), i.e. to one wherever the mixture has power"""
    nd = signal.ndim
    sa, se = mu.norm_axis(source_axis, nd), mu.norm_axis(sensor_axis, nd)
    kw = dict(source_axis=source_axis, eps=eps)
    if name == 'wiener_like_mask':
        kw.update(sensor_axis=sensor_axis, keepdims=keepdims)
    m = _fn(name)(signal.copy(order='K'), **kw)
    want = _expected_shape(signal.shape, se, keepdims)
    if m.shape != want:
        return Fail('shape', f'{name} shape {m.shape}, expected {want}')
    K = signal.shape[sa]
    for idx, sub in mu.fibers(signal, [sa] + ([se] if se is not None else [])):
        q = _ratio_quantities(name, _pooled(sub, sa, se))
        Q = math.fsum(q)
        vals = [float(m[_out_index(idx, sa, k, se, keepdims)]) for k in range(K)]
        if not all(math.isfinite(v) for v in vals):
            return Fail('not-finite', f'{name} at {idx}: {vals}')
        if min(vals) < 0.0 or max(vals) > 1.0 + 1e-15:
            return Fail('out-of-range', f'{name} at {idx}: values {vals} outside [0, 1]')
        s = math.fsum(vals)
        if abs(s - Q / (Q + eps)) > 1e-12:
            return Fail('sum', f'{name} at {idx}: sum over sources {s}, expected {Q / (Q + eps)} (Q={Q}, eps={eps})')
        if Q >= 1e-6 and eps <= 1e-17 and abs(s - 1.0) > 1e-9:
            return Fail('sum-not-one', f'{name} at {idx}: sum over sources {s} where the mixture has power {Q}')
        for k in range(K):
            if abs(vals[k] - q[k] / (Q + eps)) > 1e-12 * (1 + vals[k]):
                return Fail('value', f'{name} at {idx}, source {k}: {vals[k]} != {q[k]}/({Q}+{eps})')


@oracle
def complex_and_phase_sensitive_mask(signal, source_axis, eps):
    """ideal complex mask * sum of sources = source; phase-sensitive mask = Re(icm) * |y| / (|y| + eps)"""
    nd = signal.ndim
    sa = mu.norm_axis(source_axis, nd)
    icm = mm.ideal_complex_mask(signal.copy(order='K'), source_axis=source_axis)
    psm = mm.phase_sensitive_mask(signal.copy(order='K'), source_axis=source_axis, eps=eps)
    if icm.shape != signal.shape or psm.shape != signal.shape:
        return Fail('shape', f'icm {icm.shape} psm {psm.shape} signal {signal.shape}')
    if np.iscomplexobj(psm):
        return Fail('psm-complex', 'phase_sensitive_mask is not real')
    K = signal.shape[sa]
    n_ok = 0
    for idx, sub in mu.fibers(signal, [sa]):
        s = [complex(v) for v in sub]
        y = sum(s, 0j)
        smax = max(abs(v) for v in s)
        for k in range(K):
            oi = mu.put(idx, {sa: k})
            p = float(psm[oi])
            if not math.isfinite(p):
                return Fail('psm-not-finite', f'phase_sensitive_mask at {oi}: {p}')
            if abs(y) <= 1e-9 * smax or smax == 0:
                continue        # no mixture power / ill-conditioned: the reconstruction identity says nothing
            n_ok += 1
            c = complex(icm[oi])
            if abs(c * y - s[k]) > 1e-9 * (abs(s[k]) + 1e-300) + 1e-12 * smax:
                return Fail('icm-reconstruct', f'at {oi}: icm*y = {c * y}, source = {s[k]}')
            want = (s[k] / y).real * abs(y) / (abs(y) + eps)
            if abs(p - want) > 1e-9 * (abs(s[k]) / abs(y)) + 1e-12:
                return Fail('psm-real-part', f'at {oi}: psm = {p}, Re(icm)*|y|/(|y|+eps) = {want}')
    if n_ok == 0:
        return Skip('no point with mixture power')


def _levels(weight):
    return 0.5 + weight * (1 - 0.5), 0.5 + weight * (0 - 0.5)


def _norm_axes(axis, nd):
    ax = list(axis) if isinstance(axis, (tuple, list)) else [axis]
    return [mu.norm_axis(int(a), nd) for a in ax]


@oracle
def quantile_mask_levels(signal, quantile, axis, weight):
    """quantile mask: high level exactly above the (1-q) quantile (q > 0) / below the |q| quantile (q < 0) of the
    magnitudes along `axis`; levels 0.5 +/- weight/2"""
    nd = signal.ndim
    axes = _norm_axes(axis, nd)
    qs = list(quantile) if isinstance(quantile, (tuple, list)) else [quantile]
    try:
        m = mm.quantile_mask(signal.copy(order='K'), quantile=quantile, axis=axis, weight=weight)
    except TypeError as e:
        if len(set(axes)) == nd:
            return Fail('no-independent-axis', f'quantile_mask raises {e!r} when every axis of the input is a '
                        f'statistics axis (shape {signal.shape}, axis={axis})')
        raise
    want = ((len(qs),) if isinstance(quantile, (tuple, list)) else ()) + signal.shape
    if m.shape != want:
        return Fail('shape', f'quantile_mask shape {m.shape}, expected {want}')
    if not isinstance(quantile, (tuple, list)):
        m = m[None]
    hi, lo = _levels(weight)
    mag = np.abs(signal)
    scale = float(mag.max()) if mag.size else 0.0
    undecided = 0
    for qi, q in enumerate(qs):
        frac = ((1 - q) * 100) / 100 if q >= 0 else (abs(q) * 100) / 100
        for idx, sub in mu.fibers(mag, axes):
            if sub.size < 8:
                return Skip('fewer than 8 points per row')
            thr, a_lo, a_hi, g = mu.ref_percentile(sub.ravel(), frac)
            for j in np.ndindex(*sub.shape):
                oi = mu.put(idx, dict(zip(sorted(axes), j)))
                v, x = float(m[qi][oi]), float(sub[j])
                if m.dtype == np.float32:      # single-precision input gives single-precision levels
                    v = hi if abs(v - hi) <= 2e-7 else (lo if abs(v - lo) <= 2e-7 else v)
                if v != hi and v != lo:
                    return Fail('level', f'quantile_mask value {v} at {oi} is neither {hi} nor {lo}')
                above = (x > thr) if q >= 0 else (x < thr)
                if abs(x - thr) <= (1e-6 if mag.dtype == np.float32 else 1e-12) * scale and not (g == 0.0 or a_lo == a_hi):
                    undecided += 1       # interpolated threshold within rounding of a data point
                    continue
                if (v == hi) != above:
                    return Fail('high-level-set', f'q={q} at {oi}: |x|={x}, threshold={thr} (order statistics {a_lo}, '
                                f'{a_hi}, gamma={g}), mask={v}')


@oracle
def lorenz_mask_levels(signal, sensor_axis, axis, lorenz_fraction, weight, keepdims, exact=False):
    """Lorenz mask: high level exactly on the points stronger than the weakest of the strongest points whose
    cumulative share of the power stays below the Lorenz fraction; levels 0.5 +/- weight/2"""
    nd = signal.ndim
    se = mu.norm_axis(sensor_axis, nd)
    axes = _norm_axes(axis, nd)
    power = np.abs(signal) ** 2
    if se is not None:
        power = power.sum(axis=se, keepdims=True)
    rows = []
    for idx, sub in mu.fibers(power, axes):
        if sub.size < 8:
            return Skip('fewer than 8 points per row')
        thr, margin = mu.ref_lorenz(sub.ravel(), lorenz_fraction)
        if thr is None:
            return Skip('a single point carries the Lorenz fraction (or no power)')
        if margin < 1e-12 and not exact:      # exact: integer powers, every sum and share is exact
            return Skip('tie-within-rounding: cumulative share equals the Lorenz fraction')
        rows.append((idx, sub, thr))
    try:
        m = mm.lorenz_mask(signal.copy(order='K'), sensor_axis=sensor_axis, axis=axis, lorenz_fraction=lorenz_fraction,
                           weight=weight, keepdims=keepdims)
    except ValueError as e:
        return Fail('raises', f'lorenz_mask raised {e!r} although every row has points below the Lorenz fraction')
    want = _expected_shape(signal.shape, se, keepdims)
    if m.shape != want:
        return Fail('shape', f'lorenz_mask shape {m.shape}, expected {want}')
    hi, lo = _levels(weight)
    for idx, sub, thr in rows:
        for j in np.ndindex(*sub.shape):
            oi = mu.put(idx, dict(zip(sorted(axes), j)))
            if se is not None and not keepdims:
                oi = mu.drop(oi, se)
            v, x = float(m[oi]), float(sub[j])
            if v != hi and v != lo:
                return Fail('level', f'lorenz_mask value {v} at {oi} is neither {hi} nor {lo}')
            if x != thr and abs(x - thr) <= 1e-12 * thr:
                return Skip('tie-within-rounding: power within rounding of the threshold')
            if (v == hi) != (x > thr):
                return Fail('high-level-set', f'at {oi}: power={x}, threshold={thr}, mask={v}')


def moveaxis_order(nd, src, dst):
    """axis order of np.moveaxis(x, src, dst): result axis i = input axis order[i]"""
    order = [n for n in range(nd) if n not in src]
    for d, s in sorted(zip(dst, src)):
        order.insert(d, s)
    return order


def _call(name, x, kw):
    return _fn(name)(x, **kw)


def _discrete(name):
    return name in ('ideal_binary_mask', 'lorenz_mask', 'quantile_mask')


@oracle
def axis_move_equivariance(name, signal, kwargs, src, dst, contiguous):
    """moving the source / sensor (/ statistics) axes of the input moves the same axes of the output, nothing else"""
    nd = signal.ndim
    order = moveaxis_order(nd, list(src), list(dst))
    x2 = np.moveaxis(signal, src, dst)
    if x2.shape != tuple(signal.shape[a] for a in order):
        return Fail('harness', 'moveaxis order')          # cannot happen
    if contiguous:
        x2 = np.ascontiguousarray(x2)
    kw1, kw2 = dict(kwargs), dict(kwargs)
    for key in ('source_axis', 'sensor_axis'):
        if kwargs.get(key) is not None:
            kw2[key] = order.index(mu.norm_axis(kwargs[key], nd))
    if 'axis' in kwargs:
        ax = kwargs['axis']
        if isinstance(ax, (tuple, list)):
            kw1['axis'] = tuple(ax)
            kw2['axis'] = tuple(order.index(mu.norm_axis(a, nd)) for a in ax)
        else:
            kw2['axis'] = order.index(mu.norm_axis(ax, nd))
    if 'quantile' in kwargs and isinstance(kwargs['quantile'], list):
        kw1['quantile'] = kw2['quantile'] = tuple(kwargs['quantile'])
    has_keep = 'keepdims' in kwargs
    if has_keep:
        kw1['keepdims'] = kw2['keepdims'] = True
    try:
        o1 = _call(name, signal.copy(order='K'), kw1)
    except ValueError:
        if name == 'lorenz_mask':
            return Skip('a single point carries the Lorenz fraction (or no power)')
        raise
    except TypeError:
        if name == 'quantile_mask' and len(set(_norm_axes(kwargs['axis'], nd))) == nd:
            return Skip('quantile_mask raises without an independent axis (reported by quantile_mask_levels:no-independent-axis)')
        raise
    o2 = _call(name, x2.copy(order='K'), kw2)
    lead = o1.ndim - nd       # quantile tuple adds a leading axis
    want = np.transpose(o1, list(range(lead)) + [a + lead for a in order])
    if o2.shape != want.shape:
        return Fail('shape', f'{name}: output shape {o2.shape} after the move, expected {want.shape}')
    if name == 'ideal_complex_mask':
        ok = np.isfinite(want) & np.isfinite(o2)
        close = np.abs(o2 - want) <= 1e-12 * (1 + np.abs(want))
        bad = ok & ~close
    elif _discrete(name):
        bad = o2 != want
    else:
        bad = ~(np.abs(o2 - want) <= 1e-12 * (1 + np.abs(want)))
    if np.any(bad):
        pos = tuple(int(v) for v in np.argwhere(bad)[0])
        return Fail('moved-output-differs', f'{name}{kwargs}: moving axes {src}->{dst}: output at {pos} is {o2[pos]}, '
                    f'expected {want[pos]}')
    if has_keep and kwargs.get('sensor_axis') is not None:
        kw3 = dict(kw2)
        kw3['keepdims'] = False
        o3 = _call(name, x2.copy(order='K'), kw3)
        w3 = np.squeeze(o2, kw2['sensor_axis'])
        if o3.shape != w3.shape or not np.array_equal(o3, w3):
            return Fail('keepdims', f'{name}: keepdims=False is not the squeezed keepdims=True result')


@oracle
def zero_input_is_finite(name, shape, source_axis):
    x = np.zeros(shape, dtype=np.complex128)
    m = _fn(name)(x, source_axis=source_axis)
    if m.shape != tuple(shape):
        return Fail('shape', f'{name} zero input: shape {m.shape}')
    if not np.all(np.isfinite(m)):
        return Fail('not-finite', f'{name} on an all-zero input of shape {shape}: {np.unique(m)[:4]}')
    if name != 'ideal_binary_mask' and np.any(m != 0):
        return Fail('not-zero', f'{name} on an all-zero input: values {np.unique(m)[:4]}')


# ============================================================================= generators for the search
def _axes_config(rng, nd, sensor_ok):
    sa = int(rng.integers(nd))
    se = None
    if sensor_ok and nd >= 2 and rng.random() < 0.65:
        se = int(rng.choice([a for a in range(nd) if a != sa]))
    return sa, se


def _stat_axes(rng, nd, exclude=(), p_all=0.2):
    """1 or 2 statistics axes (time / frequency); with probability p_all every available axis"""
    cand = [a for a in range(nd) if a not in exclude]
    if rng.random() < p_all or len(cand) == 1:
        n = len(cand)
    else:
        n = int(rng.integers(1, min(2, len(cand) - 1) + 1))
    return [int(a) for a in rng.choice(cand, size=n, replace=False)]


def _shape_with_rows(rng, nd, axes, min_row=8):
    """sizes 1..6 (statistics axes - F, T - larger) such that a row has at least `min_row` points"""
    shape = [int(rng.integers(1, 5)) for _ in range(nd)]
    for a in axes:
        shape[a] = int(rng.integers(2, 7))
    while int(np.prod([shape[a] for a in axes])) < min_row:
        a = int(rng.choice(axes))
        shape[a] += int(rng.integers(1, 9))
    return shape


def _spell_axes(rng, axes, nd, force_tuple=False):
    ax = [mu.axis_spelling(rng, a, nd) for a in axes]
    if len(ax) == 1 and not force_tuple and rng.random() < 0.6:
        return ax[0]
    return tuple(ax)


def _gen_q(rng):
    kind = rng.choice(['pos', 'neg', 'pair', 'grid'])
    if kind == 'pos':
        return float(rng.uniform(0.02, 0.98))
    if kind == 'neg':
        return -float(rng.uniform(0.02, 0.98))
    if kind == 'grid':       # (n-1)*q integral for typical n: the threshold is a data point (strictness matters)
        return float(rng.choice([0.25, 0.5, 0.75, -0.25, -0.5, 0.125, 0.2, -0.8, 1.0, -1.0]))
    return (float(rng.uniform(0.02, 0.5)), -float(rng.uniform(0.5, 0.98)))


def gen_exact_lorenz(rng):
    """(F, T) real-integer signal (all powers and partial sums exact) and a Lorenz fraction that EQUALS one of the
    cumulative shares: decides between `<` and `<=` in the cumulative-share test"""
    while True:
        F, T = int(rng.integers(2, 5)), int(rng.integers(4, 9))
        x = rng.integers(0, 6, size=(F, T)).astype(np.float64)
        x.ravel()[rng.integers(x.size)] = float(rng.integers(6, 12))
        d = np.sort((x ** 2).ravel())[::-1]
        tot = float(d.sum())
        c = np.cumsum(d)
        i = int(rng.integers(1, min(6, d.size)))
        if d[i] > 0 and d[i] < d[i - 1]:
            return (x * (1j if rng.random() < 0.5 else 1)).astype(np.complex128), float(c[i]) / tot


def search(ctx):
    rng = ctx.rng
    n = ctx.n(800, 12000)
    for i in range(n):
        if ctx.out_of_time(reserve=30):
            break
        # ---- source-axis masks
        shape = mu.gen_shape(rng, big_last=True)
        nd = len(shape)
        kind = str(rng.choice(mu.KINDS))
        sa, se = _axes_config(rng, nd, True)
        x = mu.gen_tensor(rng, shape, kind, sa)
        keep = bool(rng.random() < 0.5)
        sa_s, se_s = mu.axis_spelling(rng, sa, nd), mu.axis_spelling(rng, se, nd)
        ctx.count(f'search-ndim{nd}-{kind}')
        ctx.count('search-sensor-axis' if se is not None else 'search-no-sensor-axis')
        ok = ctx.run(ibm_one_hot_at_first_maximum, signal=x, source_axis=sa_s, sensor_axis=se_s, keepdims=keep,
                     exact=mu.exact_kind(kind))
        if i == 0:
            ctx.sample({'oracle': 'ibm_one_hot_at_first_maximum', 'shape': shape, 'kind': kind, 'source_axis': sa_s,
                        'sensor_axis': se_s, 'keepdims': keep, 'held': ok})
        eps = EPS if rng.random() < 0.8 else float(10.0 ** rng.uniform(-12, -1))
        ctx.run(ratio_mask_range_and_sum, name='wiener_like_mask', signal=x, source_axis=sa_s, sensor_axis=se_s,
                keepdims=keep, eps=eps)
        ctx.run(ratio_mask_range_and_sum, name='ideal_ratio_mask', signal=x, source_axis=sa_s, sensor_axis=None,
                keepdims=False, eps=eps)
        ctx.run(complex_and_phase_sensitive_mask, signal=x, source_axis=sa_s, eps=EPS)
        # ---- equivariance under axis moves (source axis and, if present, sensor axis)
        name = str(rng.choice(SOURCE_MASKS))
        kw = {'source_axis': sa_s}
        srcs = [sa]
        if HAS_SENSOR[name]:
            kw['sensor_axis'] = se_s
            kw['keepdims'] = True
            if se is not None and rng.random() < 0.7:
                srcs.append(se)
        dsts = [int(d) for d in rng.choice(nd, size=len(srcs), replace=False)]
        ctx.count(f'search-equivariance-{name}')
        ctx.run(axis_move_equivariance, name=name, signal=x, kwargs=kw, src=srcs, dst=dsts,
                contiguous=bool(rng.random() < 0.5))
        # ---- quantile mask
        ndq = int(rng.choice([1, 2, 2, 3, 3, 3, 4, 4, 4]))
        axes = _stat_axes(rng, ndq, p_all=0.08)
        shp = _shape_with_rows(rng, ndq, axes)
        qkind = str(rng.choice(['normal', 'normal', 'gauss-int', 'silent']))
        xq = mu.gen_tensor(rng, shp, qkind)
        if qkind == 'normal' and rng.random() < 0.3:
            # single-precision STFT at an arbitrary recording level (the mask depends on the ORDER of the magnitudes only)
            lvl = float(10.0 ** rng.uniform(-13, 3))
            xq = (xq * lvl).astype(np.complex64)
            ctx.count('search-quantile-complex64-level-1e%d' % (5 * int(np.floor(np.log10(lvl) / 5))))
        q = _gen_q(rng)
        w = float(rng.choice([0.999, 1.0, 0.5, float(rng.uniform(0.05, 1.0))]))
        axis_arg = _spell_axes(rng, axes, ndq)
        ctx.count(f'search-quantile-ndim{ndq}-axes{len(axes)}-{qkind}')
        ok = ctx.run(quantile_mask_levels, signal=xq, quantile=q, axis=axis_arg, weight=w)
        if i == 0:
            ctx.sample({'oracle': 'quantile_mask_levels', 'shape': shp, 'quantile': q, 'axis': axis_arg, 'weight': w,
                        'held': ok})
        dsts = [int(d) for d in rng.choice(ndq, size=len(axes), replace=False)]
        ctx.run(axis_move_equivariance, name='quantile_mask', signal=xq,
                kwargs={'quantile': list(q) if isinstance(q, tuple) else q, 'axis': axis_arg, 'weight': w},
                src=axes, dst=dsts, contiguous=bool(rng.random() < 0.5))
        # ---- Lorenz mask
        ndl = int(rng.integers(1, 5))
        sel = None
        if ndl >= 2 and rng.random() < 0.5:
            sel = int(rng.integers(ndl))
        axes = _stat_axes(rng, ndl, exclude=() if sel is None else (sel,))
        shp = _shape_with_rows(rng, ndl, axes, min_row=int(rng.choice([8, 8, 16, 40])))
        lkind = str(rng.choice(['normal', 'normal', 'gauss-int', 'silent']))
        xl = mu.gen_tensor(rng, shp, lkind)
        frac = float(rng.choice([0.98, 0.9, 0.5, float(rng.uniform(0.3, 0.995))]))
        keep = bool(rng.random() < 0.5)
        axis_arg = _spell_axes(rng, axes, ndl)
        se_l = mu.axis_spelling(rng, sel, ndl)
        ctx.count(f'search-lorenz-ndim{ndl}-axes{len(axes)}-{lkind}')
        ok = ctx.run(lorenz_mask_levels, signal=xl, sensor_axis=se_l, axis=axis_arg, lorenz_fraction=frac, weight=w,
                     keepdims=keep)
        if i == 0:
            ctx.sample({'oracle': 'lorenz_mask_levels', 'shape': shp, 'sensor_axis': se_l, 'axis': axis_arg,
                        'lorenz_fraction': frac, 'weight': w, 'keepdims': keep, 'held': ok})
        if i % 4 == 0:
            xe, fe = gen_exact_lorenz(rng)
            ctx.count('search-lorenz-exact-share-equals-fraction')
            ctx.run(lorenz_mask_levels, signal=xe, sensor_axis=None, axis=(-2, -1), lorenz_fraction=fe, weight=w,
                    keepdims=False, exact=True)
        srcs = list(axes) + ([sel] if sel is not None else [])
        dsts = [int(d) for d in rng.choice(ndl, size=len(srcs), replace=False)]
        ctx.run(axis_move_equivariance, name='lorenz_mask', signal=xl,
                kwargs={'sensor_axis': se_l, 'axis': axis_arg, 'lorenz_fraction': frac, 'weight': w, 'keepdims': True},
                src=srcs, dst=dsts, contiguous=bool(rng.random() < 0.5))
    # ---- exhaustive sweep of the axis arguments: every (ndim, source_axis, sensor_axis, keepdims, spelling)
    for nd in range(1, 5):
        size = int(rng.integers(2, 4))
        for sa in range(nd):
            for se in [None] + [a for a in range(nd) if a != sa]:
                for keep in (False, True):
                    if ctx.out_of_time(reserve=20):
                        break
                    neg = bool(rng.random() < 0.5)
                    kind = str(rng.choice(['normal', 'gauss-int', 'dup-source']))
                    x = mu.gen_tensor(rng, [size] * nd, kind, sa)
                    sa_s = sa - nd if neg else sa
                    se_s = None if se is None else (se - nd if not neg else se)
                    ctx.count('search-exhaustive-axis-sweep')
                    ctx.run(ibm_one_hot_at_first_maximum, signal=x, source_axis=sa_s, sensor_axis=se_s, keepdims=keep,
                            exact=mu.exact_kind(kind))
                    ctx.run(ratio_mask_range_and_sum, name='wiener_like_mask', signal=x, source_axis=sa_s,
                            sensor_axis=se_s, keepdims=keep, eps=EPS)
                    srcs = [sa] + ([se] if se is not None else [])
                    for dsts in itertools.permutations(range(nd), len(srcs)):
                        ctx.run(axis_move_equivariance, name=str(rng.choice(['ideal_binary_mask', 'wiener_like_mask'])),
                                signal=x, kwargs={'source_axis': sa_s, 'sensor_axis': se_s, 'keepdims': True},
                                src=srcs, dst=list(dsts), contiguous=bool(rng.random() < 0.5))
    # ---- all-zero inputs, every layout up to 4 axes
    for nd in range(1, 5):
        for sa in range(nd):
            shape = mu.gen_shape(rng, ndim=nd)
            for name in EPS_GUARDED + ['ideal_binary_mask']:
                ctx.run(zero_input_is_finite, name=name, shape=shape, source_axis=sa if rng.random() < 0.5 else sa - nd)
                ctx.count('search-zero-input')


# ============================================================================= correspondence
def _opt(a):
    return '0 0' if a is None else f'1 {int(a)}'


def _tline(op, x, params):
    return f'{op} {x.ndim} {ints(x.shape)} {params} {cbits(x)}'.replace('  ', ' ')


def _parse_tens(line, complex_=False):
    if line.strip() == 'raise':
        return 'raise'
    head, _, data = line.partition('|')
    h = parse_ints(head)
    shape = tuple(int(v) for v in h[1:1 + int(h[0])])
    vals = parse_complex(data) if complex_ else parse_floats(data)
    return vals.reshape(shape)


def _power_gap(x, sa, se):
    """relative gap between the two largest pooled powers along the source axis (keepdims layout)"""
    p = x.real ** 2 + x.imag ** 2
    if se is not None:
        p = p.sum(se, keepdims=True)
    if p.shape[sa] < 2:
        return np.full(p.shape, np.inf)
    top = np.sort(p, axis=sa)
    t1, t2 = np.take(top, [-1], axis=sa), np.take(top, [-2], axis=sa)
    with np.errstate(all='ignore'):
        gap = np.where(t1 > 0, (t1 - t2) / t1, 0.0)
    return np.broadcast_to(gap, p.shape)


def _float_close(got, want, scale=None, rtol=1e-9, atol=1e-12):
    if isinstance(got, str) or got.shape != want.shape:
        return False
    sc = np.abs(want) if scale is None else scale
    fin = np.isfinite(want)
    ok = np.where(fin, np.abs(got - want) <= atol + rtol * sc, ~np.isfinite(got))
    return bool(np.all(ok))


def _row_margin_quantile(x, q, axes, bad):
    """smallest relative distance |x - threshold| over the disagreeing points"""
    mag = np.abs(x)
    scale = float(mag.max()) or 1.0
    frac = ((1 - q) * 100) / 100 if q >= 0 else (abs(q) * 100) / 100
    worst = 0.0
    for idx, sub in mu.fibers(mag, axes):
        thr, a_lo, a_hi, g = mu.ref_percentile(sub.ravel(), frac)
        for j in np.ndindex(*sub.shape):
            oi = mu.put(idx, dict(zip(sorted(axes), j)))
            if bad[oi]:
                if g == 0.0 or a_lo == a_hi:
                    return math.inf          # the threshold is a data point: the comparison is exact
                worst = max(worst, abs(float(sub[j]) - thr) / scale)
    return worst


def corr(ctx):
    rng = ctx.rng
    lines, metas = [], []

    def add(line, **meta):
        lines.append(line)
        metas.append(meta)

    n = ctx.n(150, 2500)
    for i in range(n):
        shape = mu.gen_shape(rng, big_last=True)
        nd = len(shape)
        kind = str(rng.choice(mu.KINDS))
        sa, se = _axes_config(rng, nd, True)
        x = mu.gen_tensor(rng, shape, kind, sa)
        keep = bool(rng.random() < 0.5)
        sa_s, se_s = mu.axis_spelling(rng, sa, nd), mu.axis_spelling(rng, se, nd)
        eps = EPS if rng.random() < 0.8 else float(10.0 ** rng.uniform(-12, -1))
        ctx.count(f'corr-ndim{nd}-{kind}-{"sensor" if se is not None else "nosensor"}')
        add(_tline('ibm', x, f'{sa_s} {_opt(se_s)} {int(keep)}'), op='ideal_binary_mask', x=x,
            kw=dict(source_axis=sa_s, sensor_axis=se_s, keepdims=keep), sa=sa, se=se, keep=keep)
        add(_tline('wiener', x, f'{sa_s} {_opt(se_s)} {int(keep)} {fbits(eps)}'), op='wiener_like_mask', x=x,
            kw=dict(source_axis=sa_s, sensor_axis=se_s, keepdims=keep, eps=eps), sa=sa, se=se, keep=keep)
        for op, name in (('irm', 'ideal_ratio_mask'), ('iam', 'ideal_amplitude_mask'), ('psm', 'phase_sensitive_mask')):
            add(_tline(op, x, f'{sa_s} {fbits(eps)}'), op=name, x=x, kw=dict(source_axis=sa_s, eps=eps), sa=sa)
        add(_tline('icm', x, f'{sa_s}'), op='ideal_complex_mask', x=x, kw=dict(source_axis=sa_s), sa=sa)
        # np.moveaxis itself (used by the equivariance theorems): order and data
        srcs = [sa] + ([se] if se is not None else [])
        dsts = [int(d) for d in rng.choice(nd, size=len(srcs), replace=False)]
        add(f'moveaxis {nd} {len(srcs)} {ints(srcs)} {ints(dsts)}', op='moveaxis-order', nd=nd, src=srcs, dst=dsts)
        order = moveaxis_order(nd, srcs, dsts)
        add(_tline('transpose', x, ints(order)), op='moveaxis', x=x, src=srcs, dst=dsts)
        # quantile mask (scalar q; a tuple is the stack of the scalar results)
        ndq = int(rng.choice([2, 2, 3, 3, 4]))
        axes = _stat_axes(rng, ndq, p_all=0.0)
        shp = _shape_with_rows(rng, ndq, axes)
        xq = mu.gen_tensor(rng, shp, str(rng.choice(['normal', 'normal', 'gauss-int', 'silent'])))
        q = _gen_q(rng)
        q = q[int(rng.integers(2))] if isinstance(q, tuple) else q
        w = float(rng.choice([0.999, 1.0, float(rng.uniform(0.05, 1.0))]))
        axis_arg = _spell_axes(rng, axes, ndq)
        ax_l = list(axis_arg) if isinstance(axis_arg, tuple) else [axis_arg]
        add(_tline('quantile', xq, f'{fbits(q)} {fbits(w)} {len(ax_l)} {ints(ax_l)}'), op='quantile_mask', x=xq,
            kw=dict(quantile=q, axis=axis_arg, weight=w), axes=axes, q=q)
        # Lorenz mask
        ndl = int(rng.integers(1, 5))
        sel = int(rng.integers(ndl)) if (ndl >= 2 and rng.random() < 0.5) else None
        axes = _stat_axes(rng, ndl, exclude=() if sel is None else (sel,))
        shp = _shape_with_rows(rng, ndl, axes, min_row=int(rng.choice([8, 8, 16])))
        xl = mu.gen_tensor(rng, shp, str(rng.choice(['normal', 'normal', 'gauss-int', 'silent'])))
        frac = float(rng.choice([0.98, 0.9, 0.5, float(rng.uniform(0.3, 0.995))]))
        keep = bool(rng.random() < 0.5)
        axis_arg = _spell_axes(rng, axes, ndl)
        ax_l = list(axis_arg) if isinstance(axis_arg, tuple) else [axis_arg]
        se_l = mu.axis_spelling(rng, sel, ndl)
        add(_tline('lorenz', xl, f'{fbits(frac)} {fbits(w)} {_opt(se_l)} {int(keep)} {len(ax_l)} {ints(ax_l)}'),
            op='lorenz_mask', x=xl, kw=dict(sensor_axis=se_l, axis=axis_arg, lorenz_fraction=frac, weight=w,
                                            keepdims=keep), axes=axes, se=sel, frac=frac)
        if i % 3 == 0:
            xe, fe = gen_exact_lorenz(rng)
            add(_tline('lorenz', xe, f'{fbits(fe)} {fbits(w)} 0 0 0 2 -2 -1'), op='lorenz_mask', x=xe,
                kw=dict(sensor_axis=None, axis=(-2, -1), lorenz_fraction=fe, weight=w, keepdims=False),
                axes=[0, 1], se=None, frac=fe, exact=True)
        # np.percentile (external: modelled exactly, linear interpolation)
        row = np.abs(mu.gen_tensor(rng, [int(rng.integers(1, 30))], str(rng.choice(['normal', 'gauss-int']))))
        fr = float(rng.choice([0.0, 1.0, 0.5, 0.25, float(rng.random())]))
        add(f'pct {fbits(fr)} {row.size} {fbits(row)}', op='np.percentile', row=row, frac=fr)
    out = run_driver(lines, exe='driver_masks')
    for meta, o in zip(metas, out):
        op = meta['op']
        if op == 'moveaxis-order':
            want = moveaxis_order(meta['nd'], meta['src'], meta['dst'])
            probe = np.moveaxis(np.zeros(list(range(2, 2 + meta['nd']))), meta['src'], meta['dst']).shape
            want_np = [s - 2 for s in probe]
            got = parse_ints(o).tolist()
            ctx.corr(op, got == want_np == want, f'moveaxis order {meta} numpy={want_np} model={got}')
            continue
        if op == 'moveaxis':
            want = np.moveaxis(meta['x'], meta['src'], meta['dst'])
            got = _parse_tens(o, True)
            ctx.corr(op, not isinstance(got, str) and got.shape == want.shape and np.array_equal(got, want),
                     f'moveaxis {meta["src"]}->{meta["dst"]} of shape {meta["x"].shape}')
            continue
        if op == 'np.percentile':
            want = float(np.percentile(meta['row'], 100 * meta['frac']))
            got = float(parse_floats(o)[0])
            ctx.corr(op, abs(got - want) <= 1e-12 * (1 + abs(want)), f'percentile frac={meta["frac"]} row={meta["row"].tolist()} '
                     f'numpy={want} model={got}', {'row': meta['row'], 'frac': meta['frac']})
            continue
        x, kw = meta['x'], meta['kw']
        data = {'signal': x, 'kwargs': {k: (list(v) if isinstance(v, tuple) else v) for k, v in kw.items()}}
        try:
            want = _fn(op)(x.copy(order='K'), **kw)
        except ValueError:
            want = 'raise'
        got = _parse_tens(o, complex_=(op == 'ideal_complex_mask'))
        detail = f'{op}{data["kwargs"]} shape={x.shape}'
        if isinstance(want, str) or isinstance(got, str):
            if isinstance(want, str) and isinstance(got, str):
                ctx.corr(op, True)
            else:
                # the empty-selection decision of the Lorenz mask is a float comparison
                _, margin = min((mu.ref_lorenz(sub.ravel(), meta['frac']) for _, sub in mu.fibers(
                    (np.abs(x) ** 2).sum(meta['se'], keepdims=True) if meta['se'] is not None else np.abs(x) ** 2,
                    meta['axes'])), key=lambda t: t[1])
                if margin < 1e-9 and not meta.get('exact'):
                    ctx.count(f'tie-within-rounding:{op}')
                else:
                    ctx.corr(op, False, detail + f' code={"raise" if isinstance(want, str) else "value"} '
                             f'model={"raise" if isinstance(got, str) else "value"}', data)
            continue
        if got.shape != want.shape:
            ctx.corr(op, False, detail + f' shapes code={want.shape} model={got.shape}', data)
            continue
        if op == 'ideal_binary_mask':
            bad = got != want
            if not bad.any():
                ctx.corr(op, True)
            else:
                gap = _power_gap(x, meta['sa'], meta['se'])
                if meta['se'] is not None and not meta['keep']:
                    gap = np.squeeze(gap, meta['se'])
                if 0 < float(gap[bad].min()) and float(gap[bad].max()) < 1e-9:
                    ctx.count(f'tie-within-rounding:{op}')      # an exact tie (gap 0) is a deterministic decision
                else:
                    ctx.corr(op, False, detail + f' differs at {np.argwhere(bad)[0].tolist()}', data)
        elif op == 'quantile_mask':
            bad = got != want
            if not bad.any():
                ctx.corr(op, True)
            elif _row_margin_quantile(x, meta['q'], meta['axes'], bad) < 1e-9:
                ctx.count(f'tie-within-rounding:{op}')
            else:
                ctx.corr(op, False, detail + f' differs at {np.argwhere(bad)[0].tolist()}', data)
        elif op == 'lorenz_mask':
            bad = got != want
            if not bad.any():
                ctx.corr(op, True)
            else:
                p = (np.abs(x) ** 2).sum(meta['se'], keepdims=True) if meta['se'] is not None else np.abs(x) ** 2
                margin = min(mu.ref_lorenz(sub.ravel(), meta['frac'])[1] for _, sub in mu.fibers(p, meta['axes']))
                if margin < 1e-9 and not meta.get('exact'):
                    ctx.count(f'tie-within-rounding:{op}')
                else:
                    ctx.corr(op, False, detail + f' differs at {np.argwhere(bad)[0].tolist()} (share margin {margin:.3g})', data)
        elif op == 'ideal_complex_mask':
            ctx.corr(op, _float_close(got, want), detail, data)
        elif op == 'phase_sensitive_mask':
            y = np.abs(x.sum(meta['sa'], keepdims=True))
            ctx.corr(op, _float_close(got, want, scale=np.abs(x) / (y + kw['eps'])), detail, data)
        else:
            ctx.corr(op, _float_close(got, want), detail, data)
    ctx.sample({'op': 'corr', 'last': {k: (v if not isinstance(v, np.ndarray) else list(v.shape)) for k, v in metas[-2].items()
                                        if k != 'kw'}})

"""C01 - affiliations are valid distributions and equal the model's Bayes posterior."""
import numpy as np

from .. import posterior_util as pu
from ..core import Fail, Skip, oracle
from ..lean import fbits, cbits, ints, parse_floats, parse_complex, parse_ints, run_driver

ID = 'C01'
DRIVERS = ('driver_posterior',)
EXE = 'driver_posterior'
THEOREMS = [
    'PbBss.C01.affiliation_nonneg',
    'PbBss.C01.affiliation_le_one',
    'PbBss.C01.affiliation_sum_le_one',
    'PbBss.C01.affiliation_sum_one',
    'PbBss.C01.affiliation_bayes',
    'PbBss.C01.affiliation_masked',
    'PbBss.C01.affiliation_all_masked',
    'PbBss.C01.affiliation_max_term',
    'PbBss.C01.affiliation_shift',
    'PbBss.C01.affiliation_clip',
    'PbBss.C01.hden_of_positive_mass',
    'PbBss.C01.hden_no_mask',
    'PbBss.C01.hden_fails_when_argmax_masked',
    'PbBss.C01.affiliation_finite_special_values',
    'PbBss.C01.affiliation_nan_of_all_minus_inf',
    'PbBss.C01.predict_bayes',
    'PbBss.C01.predict_sum_one',
    'PbBss.C01.integration_density',
    'PbBss.C01.unitNormDen_pos',
    'PbBss.C01.unsqueeze_documented_options',
    'PbBss.C01.weightAt_documented_options',
    'PbBss.C01.uniformNormalized_simplex',
    'PbBss.C01.oneHot_simplex',
    'PbBss.C01.dirichletT_simplex',
    'PbBss.C01.flag_values',
    'PbBss.C01.deflation_simplex',
    'PbBss.C01.deflationSimilarity_le_one',
    'PbBss.C01.normalizeWhere_zero',
    'PbBss.C01.normalizeWhere_unit',
]
ASSUMPTIONS = [
    'theorems are over the reals: "never NaN / finite for any magnitude" is a floating-point claim only PARTLY covered: '
    'affiliation_finite_special_values proves that the routine creates no NaN in an exact special-values model (reals + '
    '+-inf + NaN, IEEE rules, no rounding, no overflow threshold) whenever one log-pdf is finite, and '
    'affiliation_nan_of_all_minus_inf that it does when all are -inf (known finding); rounding / overflow of the '
    'component log-pdfs themselves rest on the search with the degenerate / 1e+-150 stream',
    'affiliation_sum_one / affiliation_bayes need the forced hypothesis tiny <= denominator (hden); it follows from '
    'weights >= tiny when the arg-max class is active (hden_of_positive_mass); the excluded point (arg-max class masked '
    'out and every active class > ~745 nats below it) needs eigenvalue_floor <= 1e-41, which is not a setting the '
    'quantifier names: probed and reported as a note, not judged',
    'component log-pdfs are inputs of predict_bayes (their closed forms are property C07); the correspondence feeds the '
    "fitted model's own log_pdf values to the Lean model",
    'single precision is exercised inside float32\'s finite range with |sum-1| <= 2e-5; Bayes agreement 1e-9 (double) / '
    '1e-4 (single)',
    'on regular (well-conditioned) data with documented options an exception of an implicit type (TypeError, IndexError, '
    'AttributeError, KeyError, ...) is judged a failure; on the degenerate stream every raised exception counts as an '
    'explicit rejection (sklearn "ill-defined empirical covariance", finite-ness assertions, KeyError of the Bingham '
    'tables for D > 6)',
    'RNG draws of the iid initialisers / num_classes starts are captured by seeding the global NumPy RNG',
]

from pb_bss.distribution import mixture_model_utils as mmu  # noqa: E402
from pb_bss import initializer  # noqa: E402
from pb_bss.distribution.utils import _unit_norm  # noqa: E402
from pb_bss.distribution import complex_angular_central_gaussian as cacg_mod  # noqa: E402
from pb_bss.utils import unsqueeze  # noqa: E402

EXC = {}        # exception statistics of the last oracle evaluations (copied into ctx.dist by search)


def _exc(stream, name, e):
    key = f'raised[{stream}]:{name}:{type(e).__name__}'
    EXC[key] = EXC.get(key, 0) + 1


# ============================================================================= oracles on the real code
@oracle
def posterior_valid_and_bayes(model, stream, obs, emb, init, num_classes, seed, iterations, opts, mask, also_fit_predict):
    """fit -> predict (and fit_predict): documented shape, finite, [0,1], sums to one (zeros under the mask) and equal to
    Bayes' rule evaluated from the fitted model's own component log_pdf and weight fields"""
    name = model
    if init is not None:
        sal0 = (opts or {}).get('saliency')
        mass = init if sal0 is None else init * np.asarray(sal0)[..., None, :]
        if name in pu.INTEGRATION:
            mass = np.moveaxis(mass, -2, 0).reshape(init.shape[-2], -1)
        if not pu.class_mass_positive(mass):
            return Skip('a class has zero (saliency-weighted) mass in the start affiliation')
    y = obs if name in pu.COMPLEX_OBS else emb
    K = int(num_classes) if init is None else init.shape[-2]
    shape = tuple(y.shape[:-2]) + (K, y.shape[-2])
    if name in pu.INTEGRATION:
        shape = (obs.shape[0], K, obs.shape[1])
    o = dict(opts or {})
    if mask is not None:
        o['source_activity_mask'] = mask
    single = y.dtype.itemsize < 16 if np.iscomplexobj(y) else y.dtype.itemsize < 8
    try:
        m = pu.fit(name, obs, emb, init, iterations, o, num_classes=num_classes if init is None else None, seed=seed)
        g = pu.predict(name, m, obs, emb, mask=mask)
        g2 = None
        if also_fit_predict:
            g2 = pu.fit(name, obs, emb, init, iterations, o, num_classes=num_classes if init is None else None,
                        seed=seed, predict=True)
    except Exception as e:  # noqa
        _exc(stream, name, e)
        if stream == 'regular' and pu.implicit_exception(e):
            return Fail('implicit-exception-on-regular-input',
                        f'{name}: {type(e).__name__}: {str(e)[:200]} (options {o.keys()})')
        return None     # explicit rejection: allowed by the property
    # ---- the fitted model's OWN fields
    try:
        lp = pu.own_log_pdf(name, m, obs, emb)
    except Exception as e:  # noqa
        _exc(stream, name + '.log_pdf', e)
        lp = None
    w = pu.own_weight(name, m)
    if lp is not None and tuple(lp.shape) != shape:
        return Fail('own-log-pdf-shape', f'{name}: component log_pdf has shape {lp.shape}, expected {shape}')
    try:
        wfull = np.broadcast_to(w, shape)
    except ValueError:
        return Fail('weight-not-broadcastable', f'{name}: stored weight {np.shape(w)} does not broadcast to {shape}')
    # ---- specific diagnoses (stable keys of their own)
    if hasattr(m, 'cacg') and not np.isfinite(g).all():
        ev = np.asarray(m.cacg.covariance_eigenvalues)
        if np.any(np.all(ev == 0, axis=-1)):
            return Fail('cacg-all-zero-eigenvalues-nan-posterior',
                        f'{name} covariance_norm={o.get("covariance_norm", "eigenvalue")!r}: a class whose weighted scatter '
                        f'matrix is exactly zero (only zero frames assigned) gets eigenvalues {ev[np.all(ev == 0, axis=-1)][0].tolist()}'
                        f' and predict returns NaN for every frame')
    if name in pu.INTEGRATION and not np.isfinite(np.asarray(m.weight)).all() and o.get('saliency') is not None:
        return Fail('integration-weight-nan-on-zero-saliency-group',
                    f'{name} wca={o.get("weight_constant_axis")}: saliency is zero on a whole group of tied observations; '
                    f'the in-line weight formula divides 0/0 and the stored weights (hence the posteriors) are NaN')
    if np.isnan(g).any():
        # root cause search: the first iterate whose own log-pdfs are -inf for EVERY class at some observation
        dead_col = None
        for it in range(1, int(iterations) + 1):
            try:
                mi = m if it == int(iterations) else pu.fit(name, obs, emb, init, it, o,
                                                            num_classes=num_classes if init is None else None, seed=seed)
                lpi = pu.own_log_pdf(name, mi, obs, emb)
            except Exception:  # noqa
                break
            if np.isnan(lpi).any() or not np.isfinite(np.asarray(mi.weight, dtype=np.float64)).all():
                break
            if np.all(np.isneginf(lpi), axis=-2).any():
                dead_col = np.all(np.isneginf(lpi), axis=-2)
                break
        if dead_col is not None:
            i = np.argwhere(dead_col)[0].tolist()
            return Fail('all-component-log-pdfs-minus-inf-nan-posterior',
                        f'{name}: at observation {i} the log_pdf of EVERY class is -inf (the observation lies more than '
                        f'~1e154 standard deviations from every component: squared distance overflows); '
                        f'log_pdf_to_affiliation computes -inf - (-inf) and returns NaN for that column')
    if lp is not None and not np.isnan(lp).any() and np.all(wfull >= 0):
        # hypothesis "every class has non-zero mass" (hden_of_positive_mass): a class whose stored weight is exactly 0
        # (it died during EM) but whose log-pdf exceeds every class with mass by more than the exp range floors the
        # denominator; such a model is outside the property's hypothesis
        mb0 = np.ones(shape, bool) if mask is None else np.broadcast_to(mask, shape)
        top = np.take_along_axis(wfull, np.argmax(lp, axis=-2)[..., None, :], axis=-2)[..., 0, :]
        with np.errstate(divide='ignore', invalid='ignore'):
            # the terms of the sum are w_k exp(lp_k - max lp): what counts is lp_k + log w_k of the classes with mass
            # (time-dependent weights of a dying class pass through 1e-300 before they reach 0)
            best = np.where(mb0 & (wfull > 0), lp + np.log(np.where(wfull > 0, wfull, 1.0)), -np.inf).max(-2)
            gap0 = lp.max(-2) - best
        if np.any((top == 0) & np.isfinite(best) & np.isfinite(lp.max(-2)) & (gap0 > (80 if single else 700))):
            return Skip('a class without mass (stored weight 0) attains the maximal log-pdf by more than the exp range')
    if mask is not None and lp is not None and np.isfinite(lp).all() and np.isfinite(g).all():
        # the excluded point of the forced hypothesis `hden` (DESIGN.md C01): the arg-max class is inactive and every
        # active class lies so far below it that exp underflows (745 nats in double, 88 in single precision)
        mb = np.broadcast_to(mask, shape)
        act = np.where(mb & (wfull > 0), lp, -np.inf).max(-2)
        gap = lp.max(-2) - act
        hit = np.isfinite(act) & (gap > (80 if single else 700)) & (np.abs(g.sum(-2) - 1) > (2e-5 if single else 1e-12))
        if hit.any():
            i = np.argwhere(hit)[0].tolist()
            return Fail('active-column-sums-to-zero-when-argmax-class-masked',
                        f'{name} ({"single" if single else "double"} precision): at {i} the class with the largest log-pdf is '
                        f'declared inactive and the best active class lies {gap[tuple(i)]:.0f} nats below it; exp underflows, '
                        f'the denominator is floored and the column sums to {g.sum(-2)[tuple(i)]!r} although a source is active')
    # columns in which no active class has a positive stored weight carry no mass at all (Bayes' rule is 0/0 there):
    # a frame with zero saliency under weight_constant_axis=(-2,), or time-dependent weights (-3,) that were driven to
    # zero because the start put all mass of a frame on a class the mask declares inactive.  This is outside "every
    # class has non-zero mass"; such columns are treated like all-inactive ones (expected: all-zero).
    sal = o.get('saliency')
    mask_eff = mask
    dead = None
    if mask is not None or stream == 'degenerate' or (sal is not None and np.any(np.asarray(sal) == 0)):
        mb = np.ones(shape, bool) if mask is None else np.broadcast_to(mask, shape)
        dead = ~np.any(mb & (wfull > 0), axis=-2)
        if dead.any():
            mask_eff = mb & ~dead[..., None, :]
    bad = pu.check_distribution(g, shape, mask=mask_eff, single=single)
    if bad:
        return Fail('predict-' + bad[0], f'{name} predict: {bad[1]}')
    if g2 is not None:
        bad = pu.check_distribution(g2, shape, mask=None if (mask_eff is mask or mask is not None) else mask_eff,
                                    single=single) if (mask is None or mask_eff is mask) else None
        if bad:
            return Fail('fit_predict-' + bad[0], f'{name} fit_predict: {bad[1]}')
        if mask is not None and np.any(g2[~np.broadcast_to(mask, shape)] != 0):
            return Fail('fit_predict-ignores-source-activity-mask',
                        f'{name}.fit_predict(..., source_activity_mask=mask) returns model.predict(y) without the mask: '
                        f'sources declared inactive get non-zero posteriors (max {g2[~np.broadcast_to(mask, shape)].max():.3g})')
    # ---- Bayes' rule from the model's own fields
    if lp is not None and np.isfinite(lp).all() and np.all(wfull >= 0):
        want = pu.bayes_posterior(w, lp, mask)
        # evaluation of the cACG quadratic form amplifies input rounding by the eigenvalue spread
        cond = 1.0
        if hasattr(m, 'cacg'):
            ev = np.asarray(m.cacg.covariance_eigenvalues, dtype=np.float64)
            with np.errstate(all='ignore'):
                cond = float(np.nanmax(ev.max(-1) / ev.min(-1)))
        if name == 'cbmm':
            cond = max(cond, 1.0 + float(np.max(np.abs(m.complex_bingham.covariance_eigenvalues))))
        tol = min(1e-3, (2e-5 if single else 1e-9) * max(1.0, cond if np.isfinite(cond) else 1e10))
        err = np.abs(g - want)
        # a posterior is a function of log-pdf DIFFERENCES; where the log-pdfs of a column are so large (a given
        # covariance against observations of magnitude 1e140) that their spacing exceeds the tolerance, those differences
        # are rounding noise in any evaluation order: such columns are not judged
        coarse = np.max(np.abs(lp), axis=-2, keepdims=True) * 2.3e-16 > tol
        if coarse.any():
            err = np.where(np.broadcast_to(coarse, err.shape), 0.0, err)
        if err.max() > tol:
            i = np.unravel_index(np.argmax(err), err.shape)
            return Fail('posterior-differs-from-bayes-rule',
                        f'{name} wca={o.get("weight_constant_axis")}: predict {g[i]!r} vs Bayes rule of own fields '
                        f'{want[i]!r} at {list(i)} (weight shape {np.shape(m.weight)}, tolerance {tol:.2g})')
    # the E-step affiliation handed to the M-step (clipped with affiliation_eps)
    eps = float(o.get('affiliation_eps', 0.0) or 0.0)
    try:
        ge = None
        if name == 'cacgmm':
            ge = m._predict(cacg_mod.normalize_observation(obs), source_activity_mask=mask, affiliation_eps=eps)[0]
        elif name == 'cbmm':
            ge = m.predict(obs, affiliation_eps=eps)
        elif name in pu.INTEGRATION:
            e2 = emb if name == 'gcacgmm' else pu._unit(emb)
            ge = m._predict(pu._unit(obs), e2, affiliation_eps=eps,
                            inline_permutation_alignment=bool(o.get('inline_permutation_alignment', False)))[0]
    except Exception as e:  # noqa
        _exc(stream, name + '._predict', e)
        ge = None
    if ge is not None:
        bad = pu.check_distribution(ge, shape, mask=mask_eff, eps=eps, single=single)
        if bad:
            return Fail('estep-' + bad[0], f'{name} E-step affiliation (affiliation_eps={eps}): {bad[1]}')
        if eps and (ge.min() < eps * (1 - 1e-12) or ge.max() > 1 - eps * (1 - 1e-12)) and not single:
            return Fail('estep-not-clipped', f'{name}: E-step affiliation outside [eps, 1-eps] for eps={eps}')


@oracle
def kernel_valid_and_bayes(weight, log_pdf, mask, eps):
    """log_pdf_to_affiliation itself"""
    lp0 = log_pdf.copy(order='K')
    g = mmu.log_pdf_to_affiliation(weight, log_pdf.copy(order='K'), source_activity_mask=mask, affiliation_eps=eps)
    if not np.array_equal(lp0, log_pdf):
        return Fail('kernel-input-modified', 'log_pdf_to_affiliation changed its log_pdf argument')
    w = np.broadcast_to(weight, lp0.shape)
    active = np.ones(lp0.shape, bool) if mask is None else np.broadcast_to(mask, lp0.shape)
    amax = lp0.max(-2, keepdims=True)
    # hypothesis hden (tiny <= denominator): some active class with exp(lp - amax) * w comfortably above tiny
    with np.errstate(all='ignore'):
        logterm = np.where(active & (w > 0), lp0 - amax + np.log(np.where(w > 0, w, 1)), -np.inf)
    okcol = np.max(logterm, axis=-2) >= np.log(pu.TINY) + 2
    anyact = np.any(active & (w > 0), axis=-2)
    if np.any(anyact & ~okcol):
        return Skip('denominator hypothesis (hden) not met')
    bad = pu.check_distribution(g, lp0.shape, mask=mask, eps=eps)
    if bad:
        return Fail('kernel-' + bad[0], bad[1])
    if not eps:
        want = pu.bayes_posterior(w, lp0, mask)
        err = np.abs(g - want)
        if err.max() > 1e-9:
            i = np.unravel_index(np.argmax(err), err.shape)
            return Fail('kernel-differs-from-bayes-rule', f'{g[i]!r} vs {want[i]!r} at {list(i)}')
        if mask is not None and np.any(g[~active] != 0):
            return Fail('kernel-mask-not-zero', 'inactive source with non-zero posterior')
    else:
        if g.min() < eps or g.max() > 1 - eps:
            return Fail('kernel-not-clipped', f'values outside [eps, 1-eps], eps={eps}')


@oracle
def iid_initializer_valid(kind, lead, N, D, K, permutation_free, seed, alpha):
    Y = np.ones(tuple(lead) + (N, D))
    np.random.seed(seed)
    if kind == 'uniform_normalized':
        a = initializer.iid.uniform_normalized(Y, K, permutation_free=permutation_free)
    elif kind == 'dirichlet_uniform':
        a = initializer.iid.dirichlet_uniform(Y, K, permutation_free=permutation_free)
    elif kind == 'dirichlet':
        a = initializer.iid.dirichlet(Y, K, permutation_free=permutation_free, alpha=alpha)
    else:
        a = initializer.iid.one_hot(Y, K, permutation_free=permutation_free)
    bad = pu.check_distribution(a, tuple(lead) + (K, N))
    if bad:
        return Fail(f'{kind}-' + bad[0], f'{kind}(K={K}, N={N}, lead={lead}, permutation_free={permutation_free}): {bad[1]}')
    if kind == 'one_hot' and not np.all((a == 0) | (a == 1)):
        return Fail('one_hot-not-binary', 'one_hot initialiser returned a value other than 0 / 1')
    if permutation_free and len(lead) and not np.all(a == a[(0,) * len(lead)]):
        return Fail(f'{kind}-permutation-free-differs', 'permutation_free start differs between leading indices')


@oracle
def flag_initializer_values(lead, N, D, K, minimum):
    Y = np.ones(tuple(lead) + (N, D))
    a = initializer.deterministic.flag(Y, K, permutation_free=True, minimum=minimum)
    bad = pu.check_distribution(a, tuple(lead) + (K, N))
    if bad:
        return Fail('flag-' + bad[0], f'flag(K={K}, N={N}, minimum={minimum!r}): {bad[1]}')
    # segment labels: the class holding the largest value; the time axis is split into K consecutive segments, the
    # boundary frame may fall on either side of n*K/N (np.linspace rounds in floating point)
    first = np.asarray(a).reshape(-1, K, N)[0]
    lab = np.argmax(first, axis=0)
    exact = np.array([(n * K) // N for n in range(N)])
    if np.any(np.diff(lab) < 0) or np.any((lab != exact) & (lab != exact - 1)):
        return Fail('flag-segments', f'flag(K={K}, N={N}): assigned classes {lab.tolist()} are not the K consecutive segments')
    assigned = np.zeros((K, N), bool)
    assigned[lab, np.arange(N)] = True
    assigned = np.broadcast_to(assigned, a.shape)
    if minimum == 0:
        if not np.array_equal(a, assigned.astype(a.dtype)):
            return Fail('flag-not-one-hot', f'flag(K={K}, N={N}, minimum=0) is not the one-hot segment pattern')
        return None
    rest = 1 - (K - 1) * minimum
    ulp = 4 * np.finfo(np.float64).eps
    if np.any(np.abs(a[~assigned] - minimum) > ulp * minimum):
        v = a[~assigned][np.argmax(np.abs(a[~assigned] - minimum))]
        return Fail('flag-non-assigned-not-minimum', f'flag(K={K}, N={N}, minimum={minimum!r}): non-assigned class got {v!r}')
    if np.any(np.abs(a[assigned] - rest) > ulp * max(rest, minimum) * K):
        v = a[assigned][np.argmax(np.abs(a[assigned] - rest))]
        return Fail('flag-assigned-not-remainder', f'flag(K={K}, N={N}, minimum={minimum!r}): assigned class got {v!r}, '
                    f'remainder is {rest!r}')


@oracle
def deflation_initializer_valid(Y, K, permutation_free, neighbors, eps):
    try:
        a = initializer.deflation.deflationSeed(Y, K, permutation_free=permutation_free, neighbors=neighbors, eps=eps)
    except Exception as e:  # noqa
        _exc('init', 'deflationSeed', e)
        if pu.implicit_exception(e):
            return Fail('deflation-implicit-exception', f'{type(e).__name__}: {str(e)[:200]}')
        return None
    F, T, D = Y.shape
    # documented layout of this initialiser: (K, F, T), classes first
    a = np.asarray(a)
    if a.shape != (K, F, T):
        return Fail('deflation-single-source-shape' if K == 1 else 'deflation-shape',
                    f'deflationSeed(sources={K}): shape {a.shape} != documented (K, F, T) = {(K, F, T)}')
    bad = pu.check_distribution(np.moveaxis(a, 0, -2), (F, K, T))
    if bad:
        return Fail('deflation-' + bad[0], f'deflationSeed(K={K}, eps={eps}): {bad[1]}')


def masked_argmax_case(rng, single):
    """targeted configuration (DESIGN.md C01, forced hypothesis of affiliation_sum_one): a class fitted on repeated
    frames reaches the eigenvalue floor, so its log-pdf on those frames is ~23*(D-1) nats above the others; the mask
    declares exactly that class inactive there.  In-domain: default options, repeated frames, both precisions."""
    D = int(rng.integers(6, 9))
    N, K = 32, 2
    u = pu.cnormal(rng, (D,))
    y = np.concatenate([np.tile(u, (N // 2, 1)), pu.cnormal(rng, (N // 2, D))])
    init = np.zeros((K, N))
    init[0, :N // 2] = 1
    init[1, N // 2:] = 1
    mask = np.ones((K, N), bool)
    mask[0, :N // 2] = False
    if single:
        y = y.astype(np.complex64)
    return dict(model='cacgmm', stream='degenerate', obs=y, emb=None, init=init, num_classes=None, seed=0,
                iterations=int(rng.integers(1, 4)), opts={}, mask=mask, also_fit_predict=False)


def fixed_defect_cases(rng):
    """zero frames + covariance_norm 'trace'/False (all-zero scatter of a class); a frame with zero saliency in every
    frequency under time-dependent weights of the integration models; fit_predict with a source-activity mask"""
    out = []
    D, N, K = 3, 12, 2
    y = pu.cnormal(rng, (N, D))
    y[:N // 2] = 0
    init = np.zeros((K, N))
    init[0, :N // 2] = 1
    init[1, N // 2:] = 1
    for norm in ('trace', False):
        for data in (y, np.zeros_like(y)):
            out.append(dict(model='cacgmm', stream='degenerate', obs=data, emb=None, init=init, num_classes=None, seed=0,
                            iterations=2, opts={'covariance_norm': norm}, mask=None, also_fit_predict=True))
    F, T, E = 3, 10, 3
    obs, emb = pu.gen_pair(rng, [F], T, D, E, 'normal')
    sal = rng.random((F, T)) + 0.1
    sal[:, 4] = 0
    for name in ('gcacgmm', 'vmfcacgmm'):
        for wca in ((-3,), (-1,)):
            s2 = sal.copy(order='K')
            if wca == (-1,):
                s2[:] = rng.random((F, T)) + 0.1
                s2[1, :] = 0
            out.append(dict(model=name, stream='degenerate', obs=obs, emb=emb, init=pu.gen_init(rng, [F], K, T, 'soft'),
                            num_classes=None, seed=0, iterations=1,
                            opts={'weight_constant_axis': wca, 'saliency': s2}, mask=None, also_fit_predict=True))
    Kc = 3
    yc = pu.cnormal(rng, (2, 20, 4))
    out.append(dict(model='cacgmm', stream='regular', obs=yc, emb=None, init=pu.gen_init(rng, [2], Kc, 20, 'soft'),
                    num_classes=None, seed=0, iterations=3, opts={}, mask=pu.gen_mask(rng, (2, Kc, 20), 'random'),
                    also_fit_predict=True))
    return out


# ============================================================================= search
def _case(rng, name, stream, quick=True):
    """one random (model, data, options) configuration"""
    K = int(rng.integers(1, 7)) if stream != 'regular' else int(rng.integers(1, 6))
    if name == 'cacgmm' and stream == 'regular':
        K = max(K, 2)
    D = int(rng.integers(2, 9))
    if name == 'cbmm' and stream == 'regular':
        D = min(D, 6)
    E = int(rng.integers(2, 7))
    if name in pu.INTEGRATION:
        lead = [int(rng.integers(1, 4))]
    else:
        lead = [int(rng.integers(1, 4)) for _ in range(int(rng.integers(0, 3)))]
    if stream == 'regular':
        N = int(rng.integers(max(3 * D, 3 * K + 2), 3 * D + 30))
        kind = str(rng.choice(pu.OBS_KINDS_REGULAR))
        ikind = str(rng.choice(['soft', 'uniform', 'flag']))
    else:
        kind = str(rng.choice(pu.OBS_KINDS_DEGENERATE))
        N = int(rng.integers(1, D)) if kind == 'fewer' else int(rng.integers(1, 25))
        ikind = str(rng.choice(['soft', 'hard', 'flag', 'uniform']))
    obs, emb = pu.gen_pair(rng, lead, N, D, E, kind, K)
    single = rng.random() < (0.15 if stream == 'regular' else 0.3)
    if single:
        r = pu.to_single(obs, emb, kind)
        if r is None:
            single = False
        else:
            obs, emb = r
    ndim = len(lead) + 2
    opts = pu.gen_options(rng, name, ndim, F=lead[0] if len(lead) == 1 else None, K=K)
    use_nc = rng.random() < 0.2
    init = None if use_nc else pu.gen_init(rng, lead, K, N, ikind)
    mask = None
    if name == 'cacgmm' and not use_nc and K > 1 and rng.random() < 0.4:
        mask = pu.gen_mask(rng, tuple(lead) + (K, N), str(rng.choice(['random', 'all', 'some-columns-off', 'one-class-each'])))
    if name in ('cacgmm', 'cwmm', 'cbmm', 'gmm', 'vmfmm', 'gcacgmm', 'vmfcacgmm') and rng.random() < 0.3 and not use_nc:
        sal = pu.gen_saliency(rng, tuple(lead) + (N,), str(rng.choice(['random', 'binary'])))
        opts['saliency'] = sal
    if name in pu.INTEGRATION:
        obs_, emb_ = obs, emb
    elif name in pu.COMPLEX_OBS:
        obs_, emb_ = obs, None
    else:
        obs_, emb_ = None, emb
    it = int(rng.integers(1, 6)) if quick else int(rng.integers(1, 21))
    return dict(model=name, stream=stream, obs=obs_, emb=emb_, init=init, num_classes=K if use_nc else None,
                seed=int(rng.integers(0, 2 ** 31)), iterations=it, opts=opts, mask=mask,
                also_fit_predict=bool(rng.random() < 0.3)), dict(kind=kind, init=ikind, single=single, K=K, D=D, N=N,
                                                                 lead=len(lead))


def _kernel_case(rng):
    K = int(rng.integers(1, 7))
    N = int(rng.integers(1, 9))
    lead = [int(rng.integers(1, 3)) for _ in range(int(rng.integers(0, 3)))]
    shape = tuple(lead) + (K, N)
    kind = str(rng.choice(['normal', 'wide', 'huge', 'neginf', 'equal']))
    if kind == 'normal':
        lp = rng.normal(size=shape) * 5
    elif kind == 'wide':
        lp = rng.normal(size=shape) * 300
    elif kind == 'huge':
        lp = rng.uniform(-1, 1, size=shape) * 1e308
    elif kind == 'neginf':
        lp = rng.normal(size=shape) * 5
        lp[rng.random(shape) < 0.3] = -np.inf
        lp[..., 0, :] = rng.normal(size=shape[:-2] + (N,))       # at least one finite class per column
    else:
        lp = np.full(shape, float(rng.normal() * 100))
    wkind = str(rng.choice(['full', 'per-class', 'per-class-time', 'uniform', 'tiny-some']))
    if wkind == 'full':
        w = rng.dirichlet(np.ones(K), size=tuple(lead) + (N,)).swapaxes(-1, -2) + 1e-12
    elif wkind == 'per-class':
        w = rng.dirichlet(np.ones(K))[:, None] + 1e-12
    elif wkind == 'per-class-time':
        w = rng.dirichlet(np.ones(K), size=(N,)).T + 1e-12
    elif wkind == 'uniform':
        w = np.full((K, 1), 1 / K)
    else:
        w = rng.dirichlet(np.ones(K))[:, None] + 1e-12
        w[rng.integers(K)] = 1e-300
    mask = None
    if rng.random() < 0.5:
        mask = pu.gen_mask(rng, shape, str(rng.choice(['random', 'all', 'some-columns-off', 'one-class-each'])))
    eps = float(rng.choice([0.0, 0.0, 1e-10, 1e-3, 0.2]))
    if K * eps > 1:
        eps = 0.0
    return dict(weight=np.ascontiguousarray(w), log_pdf=lp, mask=mask, eps=eps), f'{kind}/{wkind}'


def search(ctx):
    rng = ctx.rng
    EXC.clear()
    quick = ctx.tier == 'quick'
    # (1) the posterior routine itself
    for i in range(ctx.n(600, 8000)):
        inp, kind = _kernel_case(rng)
        ctx.count('kernel:' + kind)
        ctx.run(kernel_valid_and_bayes, **inp)
    # (2) the seven models: regular stream (every tying option is visited for every model first), then degenerate
    sched = []
    for name in pu.MODELS:
        sched += [(name, 'regular')] * ctx.n(80, 400) + [(name, 'degenerate')] * ctx.n(90, 500)
    order = rng.permutation(len(sched))
    wca_cycle = {}
    t_models = 0.62 * ctx.budget_s
    for j in order:
        if ctx.time_left() < ctx.budget_s - t_models and quick:
            pass
        if ctx.out_of_time(reserve=20):
            ctx.note('model stream cut short by the time budget')
            break
        name, stream = sched[j]
        inp, meta = _case(rng, name, stream, quick)
        if stream == 'regular':
            # cycle deterministically through the tying options of this model
            ndim = 3 if name in pu.INTEGRATION else (inp['obs'] if inp['obs'] is not None else inp['emb']).ndim
            opts_w = pu.wca_options(name, ndim)
            c = wca_cycle.get((name, ndim), 0)
            wca_cycle[(name, ndim)] = c + 1
            inp['opts']['weight_constant_axis'] = opts_w[c % len(opts_w)]
            if 'inline_permutation_aligner' in inp['opts'] and pu.as_wca(inp['opts']['weight_constant_axis']) not in ((-3,), (-3, -1)):
                inp['opts'].pop('inline_permutation_aligner')
        ctx.count(f'model:{name}:{stream}')
        ctx.count(f'data:{meta["kind"]}')
        ctx.count(f'K={meta["K"]}')
        ctx.count(f'wca:{name}:{inp["opts"]["weight_constant_axis"]}')
        if meta['single']:
            ctx.count('single-precision')
        if inp['mask'] is not None:
            ctx.count('with-source-activity-mask')
        if 'inline_permutation_aligner' in inp['opts'] or inp['opts'].get('inline_permutation_alignment'):
            ctx.count('with-inline-aligner')
        ok = ctx.run(posterior_valid_and_bayes, **inp)
        if len(ctx.samples) < 3:
            ctx.sample({'oracle': 'posterior_valid_and_bayes', 'model': name, 'stream': stream, **meta,
                        'iterations': inp['iterations'], 'opts': {k: (v if not isinstance(v, np.ndarray) else 'array')
                                                                  for k, v in inp['opts'].items()}, 'held': ok})
    # (3) initialisers
    for i in range(ctx.n(250, 3000)):
        K = int(rng.integers(1, 7))
        N = int(rng.integers(1, 40))
        lead = [int(rng.integers(1, 4)) for _ in range(int(rng.integers(0, 3)))]
        kind = str(rng.choice(['uniform_normalized', 'dirichlet_uniform', 'dirichlet', 'one_hot']))
        ctx.count('init:' + kind)
        ctx.run(iid_initializer_valid, kind=kind, lead=lead, N=N, D=int(rng.integers(1, 5)), K=K,
                permutation_free=bool(rng.random() < 0.5), seed=int(rng.integers(0, 2 ** 31)),
                alpha=float(rng.choice([1.0, 0.5, 5.0, 0.1])))
        # flag: minimum anywhere in (0, 1/K), incl. close to both ends
        u = float(rng.choice([rng.uniform(0, 1), 10.0 ** rng.uniform(-12, 0), 1 - 10.0 ** rng.uniform(-9, 0)]))
        minimum = 0.0 if rng.random() < 0.1 else u / K
        if minimum != 0 and not (0 < minimum < 1 / K):
            minimum = 0.5 / K
        ctx.count('init:flag')
        ctx.run(flag_initializer_values, lead=lead, N=N, D=2, K=K, minimum=minimum)
    for i in range(ctx.n(6, 40)):
        if ctx.out_of_time(reserve=10):
            break
        F = 257 if (quick or rng.random() < 0.7) else 513
        nb = int(rng.integers(1, 6))
        T = int(rng.integers(2 * nb + 1, 2 * nb + 12))
        D = int(rng.integers(2, 6))
        K = int(rng.integers(1, 5))
        kind = str(rng.choice(['normal', 'clustered', 'onezero', 'mixedscale', 'zero']))
        Y, _ = pu.gen_pair(rng, [F], T, D, 2, kind, K)
        if kind == 'mixedscale':
            Y = Y / np.abs(Y).max(axis=(-1, -2), keepdims=True) * 10.0 ** rng.uniform(-100, 100, size=(F, 1, 1))
        ctx.count('init:deflation:' + kind)
        ctx.run(deflation_initializer_valid, Y=Y, K=K, permutation_free=bool(rng.random() < 0.5), neighbors=nb,
                eps=float(rng.choice([0.0, 0.0, 1e-6])), _size=K * T)
    # (4) targeted configurations: the excluded point of the forced hypothesis (both precisions, default options) and
    #     the inputs that exposed the defects fixed in /repo (known_findings.txt: 1a7e8cd, aae1612, 6c7ed20, 3f05181)
    for single in (False, True, True):
        ctx.count('targeted:masked-argmax:' + ('single' if single else 'double'))
        ctx.run(posterior_valid_and_bayes, **masked_argmax_case(rng, single))
    for inp in fixed_defect_cases(rng):
        ctx.count('targeted:fixed-defect:' + inp['model'])
        ctx.run(posterior_valid_and_bayes, **inp)
    Yd, _ = pu.gen_pair(rng, [257], 11, 3, 2, 'normal')
    ctx.count('targeted:fixed-defect:deflation-single-source')
    ctx.run(deflation_initializer_valid, Y=Yd, K=1, permutation_free=True, neighbors=2, eps=0.0, _size=11)
    for k, v in EXC.items():
        ctx.count(k, v)


# ============================================================================= correspondence
def _close(a, b, rtol=1e-9, atol=1e-300):
    """same NaN pattern, same infinities, finite values within rtol"""
    a, b = np.asarray(a, dtype=np.float64), np.asarray(b, dtype=np.float64)
    if a.shape != b.shape:
        return False
    na, nb = np.isnan(a), np.isnan(b)
    if not np.array_equal(na, nb):
        return False
    fa = ~na
    with np.errstate(all='ignore'):
        return bool(np.all((a[fa] == b[fa]) | (np.abs(a[fa] - b[fa]) <= atol + rtol * np.maximum(np.abs(a[fa]), np.abs(b[fa])))))


def _corr_kernel(ctx):
    """(i) the posterior routine itself, one observation per driver line"""
    rng = ctx.rng
    lines, metas = [], []
    for i in range(ctx.n(1500, 20000)):
        K = int(rng.integers(1, 7))
        kind = str(rng.choice(['normal', 'wide', 'span-1e308', 'neginf', 'all-neginf', 'equal', 'posinf-weightless']))
        if kind == 'normal':
            lp = rng.normal(size=K) * 5
        elif kind == 'wide':
            lp = rng.normal(size=K) * 400
        elif kind == 'span-1e308':
            lp = rng.uniform(-1, 1, size=K) * 1e308
        elif kind == 'neginf':
            lp = rng.normal(size=K) * 5
            lp[rng.random(K) < 0.4] = -np.inf
        elif kind == 'all-neginf':
            lp = np.full(K, -np.inf)
        elif kind == 'equal':
            lp = np.full(K, float(rng.normal() * 1e3))
        else:
            lp = rng.normal(size=K) * 50
        wk = str(rng.choice(['simplex', 'zeros', 'tiny', 'unnormalised']))
        w = rng.dirichlet(np.ones(K))
        if wk == 'zeros':
            w[rng.random(K) < 0.5] = 0.0
        elif wk == 'tiny':
            w = w * 10.0 ** rng.uniform(-320, -290)
        elif wk == 'unnormalised':
            w = rng.random(K) * 10.0 ** rng.uniform(-3, 3)
        mk = str(rng.choice(['none', 'none', 'random', 'all-masked', 'all-active']))
        mask = None
        if mk == 'random':
            mask = rng.random(K) < 0.6
        elif mk == 'all-masked':
            mask = np.zeros(K, bool)
        elif mk == 'all-active':
            mask = np.ones(K, bool)
        eps = float(rng.choice([0.0, 0.0, 1e-10, 1e-3, 0.3]))
        lines.append(f'aff {K} {0 if mask is None else 1} {fbits([pu.TINY])} {fbits([eps])} {fbits(w)} {fbits(lp)}'
                     + ('' if mask is None else ' ' + ints(mask.astype(int))))
        metas.append((w, lp, mask, eps, f'{kind}/{wk}/{mk}'))
        ctx.count(f'corr-aff:{kind}')
    out = run_driver(lines, exe=EXE)
    worst = 0.0
    for (w, lp, mask, eps, kind), o in zip(metas, out):
        want = mmu.log_pdf_to_affiliation(w[:, None], lp[:, None].copy(order='K'),
                                          source_activity_mask=None if mask is None else mask[:, None],
                                          affiliation_eps=eps)[:, 0]
        got = parse_floats(o)
        ok = _close(got, want)
        if ok and np.isfinite(want).all() and want.size:
            with np.errstate(all='ignore'):
                d = np.abs(got - want) / np.maximum(np.spacing(np.abs(want)), 5e-324)
            worst = max(worst, float(np.max(d)))
        ctx.corr('log_pdf_to_affiliation', ok, f'{kind}: w={w.tolist()} lp={lp.tolist()} mask={None if mask is None else mask.tolist()} '
                 f'eps={eps} code={want.tolist()} model={got.tolist()}', {'w': w, 'lp': lp, 'mask': mask, 'eps': eps})
    ctx.note(f'corr log_pdf_to_affiliation: largest deviation {worst:.1f} ulp over {len(metas)} columns')
    ctx.sample({'op': 'aff', 'w': metas[-1][0].tolist(), 'lp': metas[-1][1].tolist(), 'eps': metas[-1][3]})


def _small_fit(rng, name):
    """small fitted model of every kind, <= 1 leading axis"""
    K = int(rng.integers(1, 5))
    if name == 'cacgmm':
        K = max(K, 2)
    D = int(rng.integers(2, 5))
    E = int(rng.integers(2, 4))
    F = int(rng.integers(1, 4))
    lead = [F] if (name in pu.INTEGRATION or rng.random() < 0.8) else []
    N = int(rng.integers(2 * D + K, 2 * D + K + 8))
    obs, emb = pu.gen_pair(rng, lead, N, D, E, str(rng.choice(['normal', 'clustered'])), K)
    opts = pu.gen_options(rng, name, len(lead) + 2, F=F if lead else None, allow_aligner=False, K=K)
    opts.pop('inline_permutation_alignment', None)
    init = pu.gen_init(rng, lead, K, N, str(rng.choice(['soft', 'uniform', 'flag'])))
    mask = None
    if name == 'cacgmm' and rng.random() < 0.5:
        mask = pu.gen_mask(rng, tuple(lead) + (K, N), str(rng.choice(['random', 'some-columns-off'])))
    if rng.random() < 0.3:
        opts['saliency'] = pu.gen_saliency(rng, tuple(lead) + (N,), 'random')
    o = dict(opts)
    if mask is not None:
        o['source_activity_mask'] = mask
    m = pu.fit(name, obs, emb, init, int(rng.integers(1, 4)), o)
    return m, obs, emb, opts, mask, (F if lead else 1, K, N), bool(lead)


def _corr_predict(ctx):
    """(ii) predict of the seven models vs the Lean posterior fed with the model's own log_pdf values and stored weights"""
    rng = ctx.rng
    lines, metas = [], []
    per = ctx.n(30, 300)
    for name in pu.MODELS:
        done = 0
        tries = 0
        while done < per and tries < 4 * per:
            tries += 1
            try:
                m, obs, emb, opts, mask, (F, K, N), has_lead = _small_fit(rng, name)
            except Exception:  # noqa  (explicit rejections of a start are not the subject here)
                continue
            shape = (F, K, N)
            w = np.asarray(m.weight, dtype=np.float64)
            if name in pu.INTEGRATION:
                sp, sc = pu.stream_log_pdfs_as_predict(name, m, obs, emb)
                want = m.predict(obs, emb)
                axis = tuple(m.weight_constant_axis)
                want_shape = unsqueeze(w, axis).shape
                lines.append(f'ipredict {F} {K} {N} {len(axis)} {ints(axis)} {w.ndim} {ints(w.shape)} {fbits([pu.TINY])} '
                             f'{fbits([0.0])} {fbits([m.spatial_weight])} {fbits([m.spectral_weight])} {fbits(w)} '
                             f'{fbits(sp)} {fbits(sc)}')
                metas.append((name, want.reshape(shape), want_shape, opts, 0.0))
            else:
                lp = pu.own_log_pdf(name, m, obs, emb).reshape(shape)
                eps = float(rng.choice([0.0, 0.0, 1e-3])) if name in ('cacgmm', 'cbmm') else 0.0
                if name == 'cacgmm':
                    want = m._predict(pu.normalize_cacg(obs), source_activity_mask=mask, affiliation_eps=eps)[0]
                    if eps == 0:
                        assert np.array_equal(want, pu.predict(name, m, obs, emb, mask=mask))
                elif name == 'cbmm':
                    want = m.predict(obs, affiliation_eps=eps)
                else:
                    want = pu.predict(name, m, obs, emb)
                wshape = w.shape
                if len(wshape) > 3:
                    continue
                mk = None if mask is None else mask.reshape(shape)
                lines.append(f'predict {F} {K} {N} {0 if mk is None else 1} {len(wshape)} {ints(wshape)} {fbits([pu.TINY])} '
                             f'{fbits([eps])} {fbits(w)} {fbits(lp)}' + ('' if mk is None else ' ' + ints(mk.astype(int))))
                metas.append((name, np.asarray(want).reshape(shape), None, opts, eps))
            ctx.count(f'corr-predict:{name}:{opts["weight_constant_axis"]}')
            done += 1
    out = run_driver(lines, exe=EXE)
    for (name, want, want_shape, opts, eps), o in zip(metas, out):
        if want_shape is not None:
            sh, vals = o.split('|')
            got_shape = tuple(parse_ints(sh).tolist())
            ctx.corr('unsqueeze', got_shape == tuple(want_shape), f'{name} wca={opts["weight_constant_axis"]}: code '
                     f'{want_shape} model {got_shape}')
            got = parse_floats(vals)
        else:
            got = parse_floats(o)
        ok = got.size == want.size and _close(got.reshape(want.shape), want, rtol=1e-9, atol=1e-15)
        ctx.corr(f'predict[{name}]', ok, f'{name} wca={opts["weight_constant_axis"]} eps={eps}: max |code-model| = '
                 f'{np.max(np.abs(got.reshape(want.shape) - want)) if got.size == want.size else "size"}',
                 {'want': want, 'got': got})
    if metas:
        ctx.sample({'op': 'predict', 'model': metas[-1][0], 'shape': list(metas[-1][1].shape),
                    'wca': str(metas[-1][3]['weight_constant_axis'])})
    # exact discrete part: unsqueeze shapes and broadcast offsets, exhaustively over small shapes
    lines, wants = [], []
    for shape in [(), (3,), (2, 3), (3, 4), (2, 3, 4)]:
        for axis in [(-1,), (-3,), (-3, -1), (-2,), (-3, -2, -1), (-2, -1), (0,), (1, 2), (-4,), (5,)]:
            lines.append(f'unsq {len(shape)} {ints(shape)} {len(axis)} {ints(axis)}')
            try:
                wants.append('ok ' + ints(unsqueeze(np.zeros(shape), axis).shape))
            except (IndexError, ValueError):
                wants.append('index-error')
    for o, w_, ln in zip(run_driver(lines, exe=EXE), wants, lines):
        ctx.corr('unsqueeze', o.strip() == w_.strip(), f'{ln}: code {w_!r} model {o!r}')
    lines, wants = [], []
    for shape in [(2, 3, 4), (1, 3, 4), (2, 1, 4), (2, 3, 1), (3, 1), (1, 1, 1), (2, 1, 1), (1, 3, 1), (3, 4), (4,), ()]:
        arr = np.arange(int(np.prod(shape, dtype=int))).reshape(shape)
        full = np.broadcast_to(arr, (2, 3, 4))
        for idx in np.ndindex(2, 3, 4):
            lines.append(f'bidx {len(shape)} {ints(shape)} 3 {ints(idx)}')
            wants.append(int(full[idx]))
    for o, w_, ln in zip(run_driver(lines, exe=EXE), wants, lines):
        ctx.corr('broadcast-offset', int(o) == w_, f'{ln}: code {w_} model {o}')


def _corr_initializers(ctx):
    """(iii) initialisers with the RNG draws captured by re-seeding the global generator"""
    rng = ctx.rng
    lines, wants, ops = [], [], []
    for i in range(ctx.n(60, 1200)):
        K = int(rng.integers(1, 7))
        N = int(rng.integers(1, 12))
        lead = [int(rng.integers(1, 3)) for _ in range(int(rng.integers(0, 2)))]
        Y = np.ones(tuple(lead) + (N, 2))
        seed = int(rng.integers(0, 2 ** 31))
        pf = bool(rng.random() < 0.5)
        # uniform_normalized: the draws are the first call on the global RNG
        np.random.seed(seed)
        a = initializer.iid.uniform_normalized(Y, K, permutation_free=pf)
        np.random.seed(seed)
        u = np.random.uniform(size=(K, N) if pf else tuple(lead) + (K, N))
        u = np.broadcast_to(u, a.shape).reshape(-1, K, N)
        a2 = a.reshape(-1, K, N)
        for j in range(u.shape[0]):
            for n in range(N):
                lines.append(f'unifnorm {K} {fbits(u[j, :, n])}')
                wants.append(a2[j, :, n])
                ops.append('uniform_normalized')
        # one_hot
        np.random.seed(seed)
        a = initializer.iid.one_hot(Y, K, permutation_free=pf)
        np.random.seed(seed)
        lab = np.random.randint(K, size=N if pf else tuple(lead) + (N,))
        lab = np.broadcast_to(lab, a.shape[:-2] + (N,)).reshape(-1, N)
        a2 = a.reshape(-1, K, N)
        for j in range(lab.shape[0]):
            lines.append(f'onehot {K} {N} {ints(lab[j])}')
            wants.append(a2[j].ravel())
            ops.append('one_hot')
        # dirichlet
        alpha = float(rng.choice([1.0, 0.5, 3.0]))
        np.random.seed(seed)
        a = initializer.iid.dirichlet(Y, K, permutation_free=pf, alpha=alpha)
        np.random.seed(seed)
        d = np.random.dirichlet(np.full(K, alpha), size=N if pf else tuple(lead) + (N,))
        d = np.broadcast_to(d, a.shape[:-2] + (N, K)).reshape(-1, N, K)
        a2 = a.reshape(-1, K, N)
        for j in range(d.shape[0]):
            lines.append(f'dirichlett {K} {N} {fbits(d[j])}')
            wants.append(a2[j].ravel())
            ops.append('dirichlet')
        # flag: labels of np.linspace compared exactly, values to rounding
        lab = np.linspace(0, K, N, dtype=int, endpoint=False)
        for K2, N2 in ((K, N), (int(rng.integers(1, 21)), int(rng.integers(1, 600))), (2, 98), (6, 94), (4, 98)):
            lines.append(f'flaglabels {K2} {N2}')
            wants.append(np.linspace(0, K2, N2, dtype=int, endpoint=False))
            ops.append('flag-labels')
        minimum = float(rng.uniform(0, 1)) / K
        if 0 < minimum < 1 / K:
            a = initializer.deterministic.flag(Y, K, permutation_free=True, minimum=minimum)
            lines.append(f'flag {K} {N} {fbits([minimum])} {ints(lab)}')
            wants.append(a.reshape(-1, K, N)[0].ravel())
            ops.append('flag')
        a = initializer.deterministic.flag(Y, K, permutation_free=True, minimum=0)
        lines.append(f'onehot {K} {N} {ints(lab)}')
        wants.append(a.reshape(-1, K, N)[0].ravel())
        ops.append('flag(minimum=0)')
    out = run_driver(lines, exe=EXE)
    for o, w_, op, ln in zip(out, wants, ops, lines):
        if op == 'flag-labels':
            ok = np.array_equal(parse_ints(o) if o.strip() else np.zeros(0, int), w_)
        elif op in ('one_hot', 'flag(minimum=0)', 'dirichlet'):
            ok = np.array_equal(parse_floats(o), np.asarray(w_, dtype=np.float64))
        else:
            ok = _close(parse_floats(o), w_, rtol=1e-12)
        ctx.corr(op, ok, f'{ln[:80]}: code {np.asarray(w_).ravel()[:6]} model {o[:80]}')
    # deflation: similarities and PCA modes are captured through the documented hook / by wrapping the external
    import pb_bss.extraction as ext
    for i in range(ctx.n(2, 12)):
        F, nb = 257, int(rng.integers(1, 4))
        T = int(rng.integers(2 * nb + 1, 2 * nb + 6))
        D = int(rng.integers(2, 5))
        K = int(rng.integers(2, 5))
        Y = pu.cnormal(rng, (F, T, D))
        sims, modes = [], []
        orig = ext.get_pca_vector

        def wrapped(psd, *a, **k):
            r = orig(psd, *a, **k)
            modes.append(np.array(r))
            return r

        def hook(similarity, saliencies):
            sims.append(np.array(similarity))
            return similarity
        eps = float(rng.choice([0.0, 1e-6]))
        ext.get_pca_vector = wrapped
        try:
            post = initializer.deflation.deflationSeed(Y, K, permutation_free=bool(rng.random() < 0.5), neighbors=nb,
                                                       similarity_transform=hook, eps=eps)
        finally:
            ext.get_pca_vector = orig
        fs = rng.integers(0, F, size=ctx.n(6, 40))
        lines, wants, ops = [], [], []
        Z = Y / np.maximum(np.linalg.norm(Y, axis=-1, keepdims=True), pu.TINY)
        for f in fs:
            for t in range(T):
                lines.append(f'defltail {K - 1} {fbits([eps])} {fbits([s[f, t] for s in sims])}')
                wants.append(post[:, f, t])
                ops.append('deflation-tail')
                k = int(rng.integers(0, K - 1))
                lines.append(f'unitnorm max {D} {fbits([pu.TINY])} {cbits(modes[k][f])}')
                wants.append(None)
                ops.append(('mode', f, t, k))
        out = run_driver(lines, exe=EXE)
        sim_lines, sim_wants = [], []
        for o, w_, op in zip(out, wants, ops):
            if op == 'deflation-tail':
                ctx.corr('deflation-tail', _close(parse_floats(o), w_, rtol=1e-9, atol=1e-15),
                         f'code {w_} model {parse_floats(o)}')
            else:
                _, f, t, k = op
                sim_lines.append(f'deflsim {D} {cbits(Z[f, t])} {cbits(parse_complex(o))}')
                sim_wants.append(sims[k][f, t])
        for o, w_ in zip(run_driver(sim_lines, exe=EXE), sim_wants):
            ctx.corr('deflation-similarity', _close(parse_floats(o), [w_], rtol=1e-9, atol=1e-14),
                     f'code {w_} model {parse_floats(o)}')


def _corr_unit_norm(ctx):
    rng = ctx.rng
    lines, wants, ops = [], [], []
    for i in range(ctx.n(150, 3000)):
        D = int(rng.integers(1, 9))
        kind = str(rng.choice(['normal', 'zero', 'big', 'small', 'tiny-norm', 'real']))
        y = pu.cnormal(rng, (D,))
        if kind == 'zero':
            y[:] = 0
        elif kind == 'big':
            y *= 1e150
        elif kind == 'small':
            y *= 1e-150
        elif kind == 'tiny-norm':
            y *= 1e-20
        elif kind == 'real':
            y = y.real + 0j
        style = str(rng.choice(['plus', 'max', 'where']))
        eps = float(rng.choice([1e-4, pu.TINY, 1e-10]))
        lines.append(f'unitnorm {style} {D} {fbits([eps])} {cbits(y)}')
        wants.append(_unit_norm(y, axis=-1, eps=eps, eps_style=style))
        ops.append(f'_unit_norm[{style}]')
        ctx.count(f'corr-unit-norm:{kind}')
        if rng.random() < 0.3:
            lines.append(f'unitnorm where {D} {fbits([pu.TINY])} {cbits(y)}')
            wants.append(cacg_mod.normalize_observation(y[None, :])[:, 0])
            ops.append('cacg.normalize_observation')
    for o, w_, op, ln in zip(run_driver(lines, exe=EXE), wants, ops, lines):
        got = parse_complex(o)
        ok = _close(got.real, w_.real, rtol=1e-9, atol=1e-300) and _close(got.imag, w_.imag, rtol=1e-9, atol=1e-300)
        ctx.corr(op, ok, f'{ln[:60]}: code {w_} model {got}')


def corr(ctx):
    _corr_kernel(ctx)
    _corr_predict(ctx)
    _corr_initializers(ctx)
    _corr_unit_norm(ctx)

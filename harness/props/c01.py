"""C01 - affiliations are valid distributions and equal the model's Bayes posterior."""
import numpy as np

from .. import posterior_util as pu
from ..core import Fail, Skip, oracle
from ..lean import fbits, cbits, ints, parse_floats, parse_complex, parse_ints, run_driver

ID = 'C01'
DRIVERS = ('driver_posterior',)
EXE = 'driver_posterior'
THEOREMS = [
    'PbBss.C01.affiliation_nonneg',
    'PbBss.C01.affiliation_le_one',
    'PbBss.C01.affiliation_sum_one',
    'PbBss.C01.affiliation_bayes',
    'PbBss.C01.affiliation_masked',
    'PbBss.C01.affiliation_all_masked',
    'PbBss.C01.affiliation_max_term',
    'PbBss.C01.affiliation_shift',
    'PbBss.C01.affiliation_clip',
    'PbBss.C01.affiliation_sum_le_one',
    'PbBss.C01.hden_of_positive_mass',
    'PbBss.C01.hden_fails_when_argmax_masked',
    'PbBss.C01.predict_bayes',
    'PbBss.C01.unsqueeze_documented_options',
    'PbBss.C01.weightAt_documented_options',
    'PbBss.C01.flag_values',
    'PbBss.C01.oneHot_simplex',
    'PbBss.C01.uniformNormalized_simplex',
    'PbBss.C01.dirichletT_simplex',
    'PbBss.C01.deflation_simplex',
    'PbBss.C01.deflationSimilarity_le_one',
    'PbBss.C01.normalizeWhere_zero',
    'PbBss.C01.normalizeWhere_unit',
]
ASSUMPTIONS = [
    'theorems are over the reals: "never NaN / finite for any magnitude" is a floating-point claim NOT covered by a '
    'theorem (gap); it rests on the search with the degenerate / 1e+-150 stream',
    'affiliation_sum_one / affiliation_bayes need the forced hypothesis tiny <= denominator (hden); it follows from '
    'weights >= tiny when the arg-max class is active (hden_of_positive_mass); the excluded point (arg-max class masked '
    'out and every active class > ~745 nats below it) needs eigenvalue_floor <= 1e-41, which is not a setting the '
    'quantifier names: probed and reported as a note, not judged',
    'component log-pdfs are inputs of predict_bayes (their closed forms are property C07); the correspondence feeds the '
    "fitted model's own log_pdf values to the Lean model",
    'single precision is exercised inside float32\'s finite range with |sum-1| <= 2e-5; Bayes agreement 1e-9 (double) / '
    '1e-4 (single)',
    'on regular (well-conditioned) data with documented options an exception of an implicit type (TypeError, IndexError, '
    'AttributeError, KeyError, ...) is judged a failure; on the degenerate stream every raised exception counts as an '
    'explicit rejection (sklearn "ill-defined empirical covariance", finite-ness assertions, KeyError of the Bingham '
    'tables for D > 6)',
    'RNG draws of the iid initialisers / num_classes starts are captured by seeding the global NumPy RNG',
]

from pb_bss.distribution import mixture_model_utils as mmu  # noqa: E402
from pb_bss import initializer  # noqa: E402
from pb_bss.distribution.utils import _unit_norm  # noqa: E402
from pb_bss.distribution import complex_angular_central_gaussian as cacg_mod  # noqa: E402
from pb_bss.utils import unsqueeze  # noqa: E402

EXC = {}        # exception statistics of the last oracle evaluations (copied into ctx.dist by search)


def _exc(stream, name, e):
    key = f'raised[{stream}]:{name}:{type(e).__name__}'
    EXC[key] = EXC.get(key, 0) + 1


# ============================================================================= oracles on the real code
@oracle
def posterior_valid_and_bayes(model, stream, obs, emb, init, num_classes, seed, iterations, opts, mask, also_fit_predict):
    """fit -> predict (and fit_predict): documented shape, finite, [0,1], sums to one (zeros under the mask) and equal to
    Bayes' rule evaluated from the fitted model's own component log_pdf and weight fields"""
    name = model
    if init is not None:
        sal0 = (opts or {}).get('saliency')
        mass = init if sal0 is None else init * np.asarray(sal0)[..., None, :]
        if name in pu.INTEGRATION:
            mass = np.moveaxis(mass, -2, 0).reshape(init.shape[-2], -1)
        if not pu.class_mass_positive(mass):
            return Skip('a class has zero (saliency-weighted) mass in the start affiliation')
    y = obs if name in pu.COMPLEX_OBS else emb
    K = int(num_classes) if init is None else init.shape[-2]
    shape = tuple(y.shape[:-2]) + (K, y.shape[-2])
    if name in pu.INTEGRATION:
        shape = (obs.shape[0], K, obs.shape[1])
    o = dict(opts or {})
    if mask is not None:
        o['source_activity_mask'] = mask
    single = y.dtype.itemsize < 16 if np.iscomplexobj(y) else y.dtype.itemsize < 8
    try:
        m = pu.fit(name, obs, emb, init, iterations, o, num_classes=num_classes if init is None else None, seed=seed)
        g = pu.predict(name, m, obs, emb, mask=mask)
        g2 = None
        if also_fit_predict:
            g2 = pu.fit(name, obs, emb, init, iterations, o, num_classes=num_classes if init is None else None,
                        seed=seed, predict=True)
    except Exception as e:  # noqa
        _exc(stream, name, e)
        if stream == 'regular' and isinstance(e, pu.IMPLICIT_EXC):
            return Fail('implicit-exception-on-regular-input',
                        f'{name}: {type(e).__name__}: {str(e)[:200]} (options {o.keys()})')
        return None     # explicit rejection: allowed by the property
    # ---- the fitted model's OWN fields
    try:
        lp = pu.own_log_pdf(name, m, obs, emb)
    except Exception as e:  # noqa
        _exc(stream, name + '.log_pdf', e)
        lp = None
    w = pu.own_weight(name, m)
    if lp is not None and tuple(lp.shape) != shape:
        return Fail('own-log-pdf-shape', f'{name}: component log_pdf has shape {lp.shape}, expected {shape}')
    try:
        wfull = np.broadcast_to(w, shape)
    except ValueError:
        return Fail('weight-not-broadcastable', f'{name}: stored weight {np.shape(w)} does not broadcast to {shape}')
    # ---- specific diagnoses (stable keys of their own)
    if hasattr(m, 'cacg') and not np.isfinite(g).all():
        ev = np.asarray(m.cacg.covariance_eigenvalues)
        if np.any(np.all(ev == 0, axis=-1)):
            return Fail('cacg-all-zero-eigenvalues-nan-posterior',
                        f'{name} covariance_norm={o.get("covariance_norm", "eigenvalue")!r}: a class whose weighted scatter '
                        f'matrix is exactly zero (only zero frames assigned) gets eigenvalues {ev[np.all(ev == 0, axis=-1)][0].tolist()}'
                        f' and predict returns NaN for every frame')
    if name in pu.INTEGRATION and not np.isfinite(np.asarray(m.weight)).all() and o.get('saliency') is not None:
        return Fail('integration-weight-nan-on-zero-saliency-group',
                    f'{name} wca={o.get("weight_constant_axis")}: saliency is zero on a whole group of tied observations; '
                    f'the in-line weight formula divides 0/0 and the stored weights (hence the posteriors) are NaN')
    if mask is not None and lp is not None and np.isfinite(lp).all() and np.isfinite(g).all():
        # the excluded point of the forced hypothesis `hden` (DESIGN.md C01): the arg-max class is inactive and every
        # active class lies so far below it that exp underflows (745 nats in double, 88 in single precision)
        mb = np.broadcast_to(mask, shape)
        act = np.where(mb & (wfull > 0), lp, -np.inf).max(-2)
        gap = lp.max(-2) - act
        hit = np.isfinite(act) & (gap > (80 if single else 700)) & (np.abs(g.sum(-2) - 1) > (2e-5 if single else 1e-12))
        if hit.any():
            i = np.argwhere(hit)[0].tolist()
            return Fail('active-column-sums-to-zero-when-argmax-class-masked',
                        f'{name} ({"single" if single else "double"} precision): at {i} the class with the largest log-pdf is '
                        f'declared inactive and the best active class lies {gap[tuple(i)]:.0f} nats below it; exp underflows, '
                        f'the denominator is floored and the column sums to {g.sum(-2)[tuple(i)]!r} although a source is active')
    # columns in which no active class has a positive stored weight carry no mass at all (Bayes' rule is 0/0 there):
    # a frame with zero saliency under weight_constant_axis=(-2,), or time-dependent weights (-3,) that were driven to
    # zero because the start put all mass of a frame on a class the mask declares inactive.  This is outside "every
    # class has non-zero mass"; such columns are treated like all-inactive ones (expected: all-zero).
    sal = o.get('saliency')
    mask_eff = mask
    dead = None
    if mask is not None or stream == 'degenerate' or (sal is not None and np.any(np.asarray(sal) == 0)):
        mb = np.ones(shape, bool) if mask is None else np.broadcast_to(mask, shape)
        dead = ~np.any(mb & (wfull > 0), axis=-2)
        if dead.any():
            mask_eff = mb & ~dead[..., None, :]
    bad = pu.check_distribution(g, shape, mask=mask_eff, single=single)
    if bad:
        return Fail('predict-' + bad[0], f'{name} predict: {bad[1]}')
    if g2 is not None:
        bad = pu.check_distribution(g2, shape, mask=None if (mask_eff is mask or mask is not None) else mask_eff,
                                    single=single) if (mask is None or mask_eff is mask) else None
        if bad:
            return Fail('fit_predict-' + bad[0], f'{name} fit_predict: {bad[1]}')
        if mask is not None and np.any(g2[~np.broadcast_to(mask, shape)] != 0):
            return Fail('fit_predict-ignores-source-activity-mask',
                        f'{name}.fit_predict(..., source_activity_mask=mask) returns model.predict(y) without the mask: '
                        f'sources declared inactive get non-zero posteriors (max {g2[~np.broadcast_to(mask, shape)].max():.3g})')
    # ---- Bayes' rule from the model's own fields
    if lp is not None and np.isfinite(lp).all() and np.all(wfull >= 0):
        want = pu.bayes_posterior(w, lp, mask)
        # evaluation of the cACG quadratic form amplifies input rounding by the eigenvalue spread
        cond = 1.0
        if hasattr(m, 'cacg'):
            ev = np.asarray(m.cacg.covariance_eigenvalues, dtype=np.float64)
            with np.errstate(all='ignore'):
                cond = float(np.nanmax(ev.max(-1) / ev.min(-1)))
        if name == 'cbmm':
            cond = max(cond, 1.0 + float(np.max(np.abs(m.complex_bingham.covariance_eigenvalues))))
        tol = min(1e-3, (2e-5 if single else 1e-9) * max(1.0, cond if np.isfinite(cond) else 1e10))
        err = np.abs(g - want)
        if err.max() > tol:
            i = np.unravel_index(np.argmax(err), err.shape)
            return Fail('posterior-differs-from-bayes-rule',
                        f'{name} wca={o.get("weight_constant_axis")}: predict {g[i]!r} vs Bayes rule of own fields '
                        f'{want[i]!r} at {list(i)} (weight shape {np.shape(m.weight)}, tolerance {tol:.2g})')
    # the E-step affiliation handed to the M-step (clipped with affiliation_eps)
    eps = float(o.get('affiliation_eps', 0.0) or 0.0)
    try:
        ge = None
        if name == 'cacgmm':
            ge = m._predict(cacg_mod.normalize_observation(obs), source_activity_mask=mask, affiliation_eps=eps)[0]
        elif name == 'cbmm':
            ge = m.predict(obs, affiliation_eps=eps)
        elif name in pu.INTEGRATION:
            e2 = emb if name == 'gcacgmm' else pu._unit(emb)
            ge = m._predict(pu._unit(obs), e2, affiliation_eps=eps,
                            inline_permutation_alignment=bool(o.get('inline_permutation_alignment', False)))[0]
    except Exception as e:  # noqa
        _exc(stream, name + '._predict', e)
        ge = None
    if ge is not None:
        bad = pu.check_distribution(ge, shape, mask=mask_eff, eps=eps, single=single)
        if bad:
            return Fail('estep-' + bad[0], f'{name} E-step affiliation (affiliation_eps={eps}): {bad[1]}')
        if eps and (ge.min() < eps * (1 - 1e-12) or ge.max() > 1 - eps * (1 - 1e-12)) and not single:
            return Fail('estep-not-clipped', f'{name}: E-step affiliation outside [eps, 1-eps] for eps={eps}')


@oracle
def kernel_valid_and_bayes(weight, log_pdf, mask, eps):
    """log_pdf_to_affiliation itself"""
    lp0 = log_pdf.copy()
    g = mmu.log_pdf_to_affiliation(weight, log_pdf.copy(), source_activity_mask=mask, affiliation_eps=eps)
    if not np.array_equal(lp0, log_pdf):
        return Fail('kernel-input-modified', 'log_pdf_to_affiliation changed its log_pdf argument')
    w = np.broadcast_to(weight, lp0.shape)
    active = np.ones(lp0.shape, bool) if mask is None else np.broadcast_to(mask, lp0.shape)
    amax = lp0.max(-2, keepdims=True)
    # hypothesis hden (tiny <= denominator): some active class with exp(lp - amax) * w comfortably above tiny
    with np.errstate(all='ignore'):
        logterm = np.where(active & (w > 0), lp0 - amax + np.log(np.where(w > 0, w, 1)), -np.inf)
    okcol = np.max(logterm, axis=-2) >= np.log(pu.TINY) + 2
    anyact = np.any(active & (w > 0), axis=-2)
    if np.any(anyact & ~okcol):
        return Skip('denominator hypothesis (hden) not met')
    bad = pu.check_distribution(g, lp0.shape, mask=mask, eps=eps)
    if bad:
        return Fail('kernel-' + bad[0], bad[1])
    if not eps:
        want = pu.bayes_posterior(w, lp0, mask)
        err = np.abs(g - want)
        if err.max() > 1e-9:
            i = np.unravel_index(np.argmax(err), err.shape)
            return Fail('kernel-differs-from-bayes-rule', f'{g[i]!r} vs {want[i]!r} at {list(i)}')
        if mask is not None and np.any(g[~active] != 0):
            return Fail('kernel-mask-not-zero', 'inactive source with non-zero posterior')
    else:
        if g.min() < eps or g.max() > 1 - eps:
            return Fail('kernel-not-clipped', f'values outside [eps, 1-eps], eps={eps}')


@oracle
def iid_initializer_valid(kind, lead, N, D, K, permutation_free, seed, alpha):
    Y = np.ones(tuple(lead) + (N, D))
    np.random.seed(seed)
    if kind == 'uniform_normalized':
        a = initializer.iid.uniform_normalized(Y, K, permutation_free=permutation_free)
    elif kind == 'dirichlet_uniform':
        a = initializer.iid.dirichlet_uniform(Y, K, permutation_free=permutation_free)
    elif kind == 'dirichlet':
        a = initializer.iid.dirichlet(Y, K, permutation_free=permutation_free, alpha=alpha)
    else:
        a = initializer.iid.one_hot(Y, K, permutation_free=permutation_free)
    bad = pu.check_distribution(a, tuple(lead) + (K, N))
    if bad:
        return Fail(f'{kind}-' + bad[0], f'{kind}(K={K}, N={N}, lead={lead}, permutation_free={permutation_free}): {bad[1]}')
    if kind == 'one_hot' and not np.all((a == 0) | (a == 1)):
        return Fail('one_hot-not-binary', 'one_hot initialiser returned a value other than 0 / 1')
    if permutation_free and len(lead) and not np.all(a == a[(0,) * len(lead)]):
        return Fail(f'{kind}-permutation-free-differs', 'permutation_free start differs between leading indices')


@oracle
def flag_initializer_values(lead, N, D, K, minimum):
    Y = np.ones(tuple(lead) + (N, D))
    a = initializer.deterministic.flag(Y, K, permutation_free=True, minimum=minimum)
    bad = pu.check_distribution(a, tuple(lead) + (K, N))
    if bad:
        return Fail('flag-' + bad[0], f'flag(K={K}, N={N}, minimum={minimum!r}): {bad[1]}')
    lab = np.array([(n * K) // N for n in range(N)])
    assigned = np.zeros((K, N), bool)
    assigned[lab, np.arange(N)] = True
    assigned = np.broadcast_to(assigned, a.shape)
    if minimum == 0:
        if not np.array_equal(a, assigned.astype(a.dtype)):
            return Fail('flag-not-one-hot', f'flag(K={K}, N={N}, minimum=0) is not the one-hot segment pattern')
        return None
    rest = 1 - (K - 1) * minimum
    ulp = 4 * np.finfo(np.float64).eps
    if np.any(np.abs(a[~assigned] - minimum) > ulp * minimum):
        v = a[~assigned][np.argmax(np.abs(a[~assigned] - minimum))]
        return Fail('flag-non-assigned-not-minimum', f'flag(K={K}, N={N}, minimum={minimum!r}): non-assigned class got {v!r}')
    if np.any(np.abs(a[assigned] - rest) > ulp * max(rest, minimum) * K):
        v = a[assigned][np.argmax(np.abs(a[assigned] - rest))]
        return Fail('flag-assigned-not-remainder', f'flag(K={K}, N={N}, minimum={minimum!r}): assigned class got {v!r}, '
                    f'remainder is {rest!r}')


@oracle
def deflation_initializer_valid(Y, K, permutation_free, neighbors, eps):
    try:
        a = initializer.deflation.deflationSeed(Y, K, permutation_free=permutation_free, neighbors=neighbors, eps=eps)
    except Exception as e:  # noqa
        _exc('init', 'deflationSeed', e)
        if isinstance(e, pu.IMPLICIT_EXC):
            return Fail('deflation-implicit-exception', f'{type(e).__name__}: {str(e)[:200]}')
        return None
    F, T, D = Y.shape
    # documented layout of this initialiser: (K, F, T), classes first
    a = np.asarray(a)
    if a.shape != (K, F, T):
        return Fail('deflation-single-source-shape' if K == 1 else 'deflation-shape',
                    f'deflationSeed(sources={K}): shape {a.shape} != documented (K, F, T) = {(K, F, T)}')
    bad = pu.check_distribution(np.moveaxis(a, 0, -2), (F, K, T))
    if bad:
        return Fail('deflation-' + bad[0], f'deflationSeed(K={K}, eps={eps}): {bad[1]}')


def masked_argmax_case(rng, single):
    """targeted configuration (DESIGN.md C01, forced hypothesis of affiliation_sum_one): a class fitted on repeated
    frames reaches the eigenvalue floor, so its log-pdf on those frames is ~23*(D-1) nats above the others; the mask
    declares exactly that class inactive there.  In-domain: default options, repeated frames, both precisions."""
    D = int(rng.integers(6, 9))
    N, K = 32, 2
    u = pu.cnormal(rng, (D,))
    y = np.concatenate([np.tile(u, (N // 2, 1)), pu.cnormal(rng, (N // 2, D))])
    init = np.zeros((K, N))
    init[0, :N // 2] = 1
    init[1, N // 2:] = 1
    mask = np.ones((K, N), bool)
    mask[0, :N // 2] = False
    if single:
        y = y.astype(np.complex64)
    return dict(model='cacgmm', stream='degenerate', obs=y, emb=None, init=init, num_classes=None, seed=0,
                iterations=int(rng.integers(1, 4)), opts={}, mask=mask, also_fit_predict=False)


# ============================================================================= search
def _case(rng, name, stream, quick=True):
    """one random (model, data, options) configuration"""
    K = int(rng.integers(1, 7)) if stream != 'regular' else int(rng.integers(1, 6))
    if name == 'cacgmm' and stream == 'regular':
        K = max(K, 2)
    D = int(rng.integers(2, 9))
    if name == 'cbmm' and stream == 'regular':
        D = min(D, 6)
    E = int(rng.integers(2, 7))
    if name in pu.INTEGRATION:
        lead = [int(rng.integers(1, 4))]
    else:
        lead = [int(rng.integers(1, 4)) for _ in range(int(rng.integers(0, 3)))]
    if stream == 'regular':
        N = int(rng.integers(max(3 * D, 3 * K + 2), 3 * D + 30))
        kind = str(rng.choice(pu.OBS_KINDS_REGULAR))
        ikind = str(rng.choice(['soft', 'uniform', 'flag']))
    else:
        kind = str(rng.choice(pu.OBS_KINDS_DEGENERATE))
        N = int(rng.integers(1, D)) if kind == 'fewer' else int(rng.integers(1, 25))
        ikind = str(rng.choice(['soft', 'hard', 'flag', 'uniform']))
    obs, emb = pu.gen_pair(rng, lead, N, D, E, kind, K)
    single = rng.random() < (0.15 if stream == 'regular' else 0.3)
    if single:
        r = pu.to_single(obs, emb, kind)
        if r is None:
            single = False
        else:
            obs, emb = r
    ndim = len(lead) + 2
    opts = pu.gen_options(rng, name, ndim, F=lead[0] if len(lead) == 1 else None, K=K)
    use_nc = rng.random() < 0.2
    init = None if use_nc else pu.gen_init(rng, lead, K, N, ikind)
    mask = None
    if name == 'cacgmm' and not use_nc and K > 1 and rng.random() < 0.4:
        mask = pu.gen_mask(rng, tuple(lead) + (K, N), str(rng.choice(['random', 'all', 'some-columns-off', 'one-class-each'])))
    if name in ('cacgmm', 'cwmm', 'cbmm', 'gmm', 'vmfmm', 'gcacgmm', 'vmfcacgmm') and rng.random() < 0.3 and not use_nc:
        sal = pu.gen_saliency(rng, tuple(lead) + (N,), str(rng.choice(['random', 'binary'])))
        opts['saliency'] = sal
    if name in pu.INTEGRATION:
        obs_, emb_ = obs, emb
    elif name in pu.COMPLEX_OBS:
        obs_, emb_ = obs, None
    else:
        obs_, emb_ = None, emb
    it = int(rng.integers(1, 6)) if quick else int(rng.integers(1, 21))
    return dict(model=name, stream=stream, obs=obs_, emb=emb_, init=init, num_classes=K if use_nc else None,
                seed=int(rng.integers(0, 2 ** 31)), iterations=it, opts=opts, mask=mask,
                also_fit_predict=bool(rng.random() < 0.3)), dict(kind=kind, init=ikind, single=single, K=K, D=D, N=N,
                                                                 lead=len(lead))


def _kernel_case(rng):
    K = int(rng.integers(1, 7))
    N = int(rng.integers(1, 9))
    lead = [int(rng.integers(1, 3)) for _ in range(int(rng.integers(0, 3)))]
    shape = tuple(lead) + (K, N)
    kind = str(rng.choice(['normal', 'wide', 'huge', 'neginf', 'equal']))
    if kind == 'normal':
        lp = rng.normal(size=shape) * 5
    elif kind == 'wide':
        lp = rng.normal(size=shape) * 300
    elif kind == 'huge':
        lp = rng.uniform(-1, 1, size=shape) * 1e308
    elif kind == 'neginf':
        lp = rng.normal(size=shape) * 5
        lp[rng.random(shape) < 0.3] = -np.inf
        lp[..., 0, :] = rng.normal(size=shape[:-2] + (N,))       # at least one finite class per column
    else:
        lp = np.full(shape, float(rng.normal() * 100))
    wkind = str(rng.choice(['full', 'per-class', 'per-class-time', 'uniform', 'tiny-some']))
    if wkind == 'full':
        w = rng.dirichlet(np.ones(K), size=tuple(lead) + (N,)).swapaxes(-1, -2) + 1e-12
    elif wkind == 'per-class':
        w = rng.dirichlet(np.ones(K))[:, None] + 1e-12
    elif wkind == 'per-class-time':
        w = rng.dirichlet(np.ones(K), size=(N,)).T + 1e-12
    elif wkind == 'uniform':
        w = np.full((K, 1), 1 / K)
    else:
        w = rng.dirichlet(np.ones(K))[:, None] + 1e-12
        w[rng.integers(K)] = 1e-300
    mask = None
    if rng.random() < 0.5:
        mask = pu.gen_mask(rng, shape, str(rng.choice(['random', 'all', 'some-columns-off', 'one-class-each'])))
    eps = float(rng.choice([0.0, 0.0, 1e-10, 1e-3, 0.2]))
    if K * eps > 1:
        eps = 0.0
    return dict(weight=np.ascontiguousarray(w), log_pdf=lp, mask=mask, eps=eps), f'{kind}/{wkind}'


def search(ctx):
    rng = ctx.rng
    EXC.clear()
    quick = ctx.tier == 'quick'
    # (1) the posterior routine itself
    for i in range(ctx.n(300, 6000)):
        inp, kind = _kernel_case(rng)
        ctx.count('kernel:' + kind)
        ctx.run(kernel_valid_and_bayes, **inp)
    # (2) the seven models: regular stream (every tying option is visited for every model first), then degenerate
    sched = []
    for name in pu.MODELS:
        sched += [(name, 'regular')] * ctx.n(10, 150) + [(name, 'degenerate')] * ctx.n(12, 250)
    order = rng.permutation(len(sched))
    wca_cycle = {}
    t_models = 0.62 * ctx.budget_s
    for j in order:
        if ctx.time_left() < ctx.budget_s - t_models and quick:
            pass
        if ctx.out_of_time(reserve=20):
            ctx.note('model stream cut short by the time budget')
            break
        name, stream = sched[j]
        inp, meta = _case(rng, name, stream, quick)
        if stream == 'regular':
            # cycle deterministically through the tying options of this model
            ndim = 3 if name in pu.INTEGRATION else (inp['obs'] if inp['obs'] is not None else inp['emb']).ndim
            opts_w = pu.wca_options(name, ndim)
            c = wca_cycle.get((name, ndim), 0)
            wca_cycle[(name, ndim)] = c + 1
            inp['opts']['weight_constant_axis'] = opts_w[c % len(opts_w)]
            if 'inline_permutation_aligner' in inp['opts'] and pu.as_wca(inp['opts']['weight_constant_axis']) not in ((-3,), (-3, -1)):
                inp['opts'].pop('inline_permutation_aligner')
        ctx.count(f'model:{name}:{stream}')
        ctx.count(f'data:{meta["kind"]}')
        ctx.count(f'K={meta["K"]}')
        ctx.count(f'wca:{name}:{inp["opts"]["weight_constant_axis"]}')
        if meta['single']:
            ctx.count('single-precision')
        if inp['mask'] is not None:
            ctx.count('with-source-activity-mask')
        if 'inline_permutation_aligner' in inp['opts'] or inp['opts'].get('inline_permutation_alignment'):
            ctx.count('with-inline-aligner')
        ok = ctx.run(posterior_valid_and_bayes, **inp)
        if len(ctx.samples) < 3:
            ctx.sample({'oracle': 'posterior_valid_and_bayes', 'model': name, 'stream': stream, **meta,
                        'iterations': inp['iterations'], 'opts': {k: (v if not isinstance(v, np.ndarray) else 'array')
                                                                  for k, v in inp['opts'].items()}, 'held': ok})
    # (3) initialisers
    for i in range(ctx.n(120, 2500)):
        K = int(rng.integers(1, 7))
        N = int(rng.integers(1, 40))
        lead = [int(rng.integers(1, 4)) for _ in range(int(rng.integers(0, 3)))]
        kind = str(rng.choice(['uniform_normalized', 'dirichlet_uniform', 'dirichlet', 'one_hot']))
        ctx.count('init:' + kind)
        ctx.run(iid_initializer_valid, kind=kind, lead=lead, N=N, D=int(rng.integers(1, 5)), K=K,
                permutation_free=bool(rng.random() < 0.5), seed=int(rng.integers(0, 2 ** 31)),
                alpha=float(rng.choice([1.0, 0.5, 5.0, 0.1])))
        # flag: minimum anywhere in (0, 1/K), incl. close to both ends
        u = float(rng.choice([rng.uniform(0, 1), 10.0 ** rng.uniform(-12, 0), 1 - 10.0 ** rng.uniform(-9, 0)]))
        minimum = 0.0 if rng.random() < 0.1 else u / K
        if minimum != 0 and not (0 < minimum < 1 / K):
            minimum = 0.5 / K
        ctx.count('init:flag')
        ctx.run(flag_initializer_values, lead=lead, N=N, D=2, K=K, minimum=minimum)
    for i in range(ctx.n(4, 40)):
        if ctx.out_of_time(reserve=10):
            break
        F = 257 if (quick or rng.random() < 0.7) else 513
        nb = int(rng.integers(1, 6))
        T = int(rng.integers(2 * nb + 1, 2 * nb + 12))
        D = int(rng.integers(2, 6))
        K = int(rng.integers(1, 5))
        kind = str(rng.choice(['normal', 'clustered', 'onezero', 'mixedscale', 'zero']))
        Y, _ = pu.gen_pair(rng, [F], T, D, 2, kind, K)
        if kind == 'mixedscale':
            Y = Y / np.abs(Y).max(axis=(-1, -2), keepdims=True) * 10.0 ** rng.uniform(-100, 100, size=(F, 1, 1))
        ctx.count('init:deflation:' + kind)
        ctx.run(deflation_initializer_valid, Y=Y, K=K, permutation_free=bool(rng.random() < 0.5), neighbors=nb,
                eps=float(rng.choice([0.0, 0.0, 1e-6])), _size=K * T)
    # (4) the excluded point of the forced hypothesis, targeted (both precisions, default options)
    for single in (False, True, True):
        ctx.count('targeted:masked-argmax:' + ('single' if single else 'double'))
        ctx.run(posterior_valid_and_bayes, **masked_argmax_case(rng, single))
    for k, v in EXC.items():
        ctx.count(k, v)


# ============================================================================= correspondence
def corr(ctx):
    pass

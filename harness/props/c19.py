"""C19 - SI-SDR and invasive SXR metrics obey their defining identities."""
import itertools
import math

import numpy as np

from .. import masks_util as mu
from ..core import Fail, Skip, oracle
from ..lean import fbits, ints, parse_floats, parse_ints, run_driver

ID = 'C19'
DRIVERS = ('driver_metrics',)
THEOREMS = [
    'PbBss.C19.sisdr_def',
    'PbBss.C19.sisdr_scale',
    'PbBss.C19.sisdr_leading_index',
    'PbBss.C19.input_sxr_decomp',
    'PbBss.C19.input_sxr_decomp_avg_channels',
    'PbBss.C19.input_sxr_single_source',
    'PbBss.C19.input_sxr_sdr_le_avg_sources',
    'PbBss.C19.input_sxr_sdr_le_avg_both',
    'PbBss.C19.input_sxr_common_scale',
    'PbBss.C19.input_sxr_image_scale',
    'PbBss.C19.output_sxr_selection_max',
    'PbBss.C19.output_sxr_selection_first_max',
    'PbBss.C19.output_sxr_too_few_outputs',
    'PbBss.C19.output_sxr_decomp',
    'PbBss.C19.output_sxr_sdr_le_avg',
    'PbBss.C19.output_sxr_common_scale',
    'PbBss.C19.output_sxr_image_scale',
    'PbBss.C19.output_sxr_image_scale_avg',
    'PbBss.C19.output_sxr_perm_invariant',
    'PbBss.C19.set_get_snr',
    'PbBss.C19.return_dict_shape',
]
ASSUMPTIONS = [
    'real float64 signals with non-zero reference / image / noise power (the implementation returns nan or inf otherwise)',
    'output selection compared exactly; constellations whose best two selections differ by less than 1e-9 relative '
    'are counted as ties-within-rounding (the permutation-invariance clause is stated for tie-free inputs)',
    'np.log10 is modelled as log(x)/log(10), 10**x as exp(x*log(10)); values compared to 1e-9 relative',
]

from pb_bss.evaluation import sxr_module as sx  # noqa: E402
from pb_bss.evaluation.module_si_sdr import si_sdr  # noqa: E402

DB_TOL = 1e-8


# ============================================================================= helpers
def _unpack(res, return_dict):
    """(problem or None, (sdr, sir, snr)) after checking the container the call returned"""
    if return_dict is False:
        if isinstance(res, dict) or not isinstance(res, tuple) or len(res) != 3:
            return f'return_dict=False returned {type(res).__name__}', None
        if getattr(res, '_fields', None) != ('sdr', 'sir', 'snr'):
            return f'result tuple has fields {getattr(res, "_fields", None)}', None
        return None, tuple(res)
    prefix = '' if return_dict is True else return_dict
    if not isinstance(res, dict):
        return f'return_dict={return_dict!r} returned {type(res).__name__}, not a dict', None
    keys = [prefix + k for k in ('sdr', 'sir', 'snr')]
    if sorted(res) != sorted(keys):
        return f'return_dict={return_dict!r}: keys {sorted(res)}, expected {sorted(keys)}', None
    return None, tuple(res[k] for k in keys)


def _powers(x):
    """mean power over the last axis, loop level"""
    x = np.asarray(x)
    out = np.zeros(x.shape[:-1])
    for idx in np.ndindex(*x.shape[:-1]):
        out[idx] = math.fsum(float(v) * float(v) for v in x[idx]) / x.shape[-1]
    return out


def _db_ratio(s, x):
    with np.errstate(all='ignore'):
        return 10 * np.log10(np.asarray(s, dtype=float) / np.asarray(x, dtype=float))


def _ref_input_sxr(images, noise, average_sources, average_channels):
    S, N = _powers(images), _powers(noise)
    K, D = S.shape
    I = np.array([[math.fsum(S[n, d] for n in range(K) if n != k) for d in range(D)] for k in range(K)])
    if average_channels:
        S, I, N = S.mean(-1), I.mean(-1), N.mean(-1)
    out = [_db_ratio(S, I + N), _db_ratio(S, I), _db_ratio(S, N)]
    if average_sources:
        out = [np.mean(v, axis=0) for v in out]
    return out


def _ref_output_sxr(image_contribution, noise_contribution, average_sources):
    """returns (values, selection, margin)"""
    S, N = _powers(image_contribution), _powers(noise_contribution)
    Ks, Kt = S.shape
    best, second, sel = -math.inf, -math.inf, None
    for p in itertools.permutations(range(Kt), Ks):
        v = math.fsum(S[k, p[k]] for k in range(Ks))
        if v > best:
            second, best, sel = best, v, p
        elif v > second:
            second = v
    margin = (best - second) / best if math.isfinite(second) and best > 0 else math.inf
    SS = np.array([S[k, sel[k]] for k in range(Ks)])
    II = np.array([math.fsum(S[n, sel[k]] for n in range(Ks) if n != k) for k in range(Ks)])
    NN = np.array([N[sel[k]] for k in range(Ks)])
    out = [_db_ratio(SS, II + NN), _db_ratio(SS, II), _db_ratio(SS, NN)]
    if average_sources:
        out = [np.mean(v) for v in out]
    return out, sel, margin


def _decomposition_problem(sdr, sir, snr):
    """1/SDR = 1/SIR + 1/SNR in the linear domain, per source"""
    sdr, sir, snr = (np.asarray(v, dtype=float) for v in (sdr, sir, snr))
    lhs = 10 ** (-sdr / 10)
    rhs = 10 ** (-sir / 10) + 10 ** (-snr / 10)
    with np.errstate(all='ignore'):
        bad = ~((np.abs(lhs - rhs) <= 1e-9 * rhs) | ((lhs == rhs) & np.isinf(lhs)))   # a silent source: inf = inf
    if np.any(bad):
        pos = tuple(int(v) for v in np.argwhere(bad)[0])
        return f'1/SDR = {lhs[pos]} but 1/SIR + 1/SNR = {rhs[pos]} at {pos}'
    return None


def _le_min_problem(sdr, sir, snr):
    sdr, sir, snr = (np.asarray(v, dtype=float) for v in (sdr, sir, snr))
    if np.any(sdr > np.minimum(sir, snr) + 1e-9):
        return f'SDR {sdr.tolist()} exceeds min(SIR {sir.tolist()}, SNR {snr.tolist()})'
    return None


def _triple_close(a, b, tol=DB_TOL):
    return all(mu.close_db(x, y, tol) for x, y in zip(a, b))


# ============================================================================= oracles: si_sdr
@oracle
def si_sdr_definition(reference, estimation):
    """si_sdr = 10 log10(|alpha s|^2 / |s_hat - alpha s|^2), alpha = <s, s_hat> / |s|^2 (the minimiser of the residual)"""
    v = si_sdr(reference.copy(order='K'), estimation.copy(order='K'))
    if np.shape(v) != ():
        return Fail('shape', f'si_sdr of two vectors has shape {np.shape(v)}')
    s = [float(t) for t in reference]
    e = [float(t) for t in estimation]
    energy = math.fsum(a * a for a in s)
    alpha = math.fsum(a * b for a, b in zip(s, e)) / energy
    res = math.fsum((b - alpha * a) ** 2 for a, b in zip(s, e))
    want = 10 * math.log10(math.fsum((alpha * a) ** 2 for a in s) / res)
    if not abs(float(v) - want) <= 1e-7 * (1 + abs(want)):
        return Fail('value', f'si_sdr = {float(v)}, definition gives {want} (alpha = {alpha})')
    # alpha is optimal: no other scaling of the reference leaves a smaller residual
    for a2 in (alpha * (1 + 1e-3), alpha * (1 - 1e-3), alpha + 1e-3, alpha - 1e-3, 0.0, 1.0):
        r2 = math.fsum((b - a2 * a) ** 2 for a, b in zip(s, e))
        if r2 < res * (1 - 1e-12):
            return Fail('alpha-not-optimal', f'scaling {a2} leaves residual {r2} < {res} of alpha = {alpha}')


@oracle
def si_sdr_scale_invariance(reference, estimation, a, b):
    v0 = si_sdr(reference.copy(order='K'), estimation.copy(order='K'))
    v1 = si_sdr(a * reference, b * estimation)
    if not mu.close_db(v1, v0, 1e-7):
        return Fail('scale', f'si_sdr(a s, b s_hat) = {np.asarray(v1).tolist()} != si_sdr(s, s_hat) = '
                    f'{np.asarray(v0).tolist()} for a={a}, b={b}')


@oracle
def si_sdr_leading_independence(reference, estimation):
    """acts independently per leading index (including broadcasting of the leading axes)"""
    v = np.asarray(si_sdr(reference.copy(order='K'), estimation.copy(order='K')))
    E, R = np.broadcast_arrays(estimation, reference)
    if v.shape != R.shape[:-1]:
        return Fail('shape', f'si_sdr shape {v.shape} for broadcast shape {R.shape}')
    for idx in np.ndindex(*v.shape):
        one = float(si_sdr(np.array(R[idx]), np.array(E[idx])))
        if not mu.close_db(v[idx], one, 1e-9):
            return Fail('leading-index', f'si_sdr[{idx}] = {v[idx]} but si_sdr of that slice alone = {one}')


# ============================================================================= oracles: input_sxr / output_sxr
@oracle
def input_sxr_identities(images, noise, average_sources, average_channels, return_dict, c):
    res = sx.input_sxr(images.copy(order='K'), noise.copy(order='K'), average_sources, average_channels, return_dict=return_dict)
    prob, got = _unpack(res, return_dict)
    if prob:
        return Fail('return-container', 'input_sxr: ' + prob)
    want = _ref_input_sxr(images, noise, average_sources, average_channels)
    if not _triple_close(got, want):
        return Fail('definition', f'input_sxr = {[np.asarray(g).tolist() for g in got]}, powers give '
                    f'{[np.asarray(w).tolist() for w in want]}')
    per = tuple(sx.input_sxr(images.copy(order='K'), noise.copy(order='K'), False, average_channels))
    p = _decomposition_problem(*per)
    if p:
        return Fail('decomposition', 'input_sxr: ' + p)
    p = _le_min_problem(*got) or _le_min_problem(*per)
    if p:
        return Fail('sdr-above-min', 'input_sxr: ' + p)
    both = tuple(sx.input_sxr(c * images, c * noise, average_sources, average_channels))
    if not _triple_close(both, got):
        return Fail('common-scale', f'input_sxr changes under a common rescaling by {c}: '
                    f'{[np.asarray(g).tolist() for g in both]} vs {[np.asarray(g).tolist() for g in got]}')
    img = tuple(sx.input_sxr(c * images, noise.copy(order='K'), average_sources, average_channels))
    shift = 20 * math.log10(abs(c))
    if not mu.close_db(img[2], np.asarray(got[2]) + shift, DB_TOL):
        return Fail('image-scale-snr', f'scaling the images by {c}: SNR {np.asarray(img[2]).tolist()} != '
                    f'{(np.asarray(got[2]) + shift).tolist()}')
    if not mu.close_db(img[1], got[1], DB_TOL):
        return Fail('image-scale-sir', f'scaling the images by {c} changes SIR: {np.asarray(img[1]).tolist()} vs '
                    f'{np.asarray(got[1]).tolist()}')


@oracle
def output_sxr_identities(image_contribution, noise_contribution, average_sources, return_dict, c, all_permutations):
    Ks, Kt, T = image_contribution.shape
    if Kt < Ks:
        return Skip('fewer outputs than sources: no injective selection exists')
    want, sel, margin = _ref_output_sxr(image_contribution, noise_contribution, average_sources)
    if margin < 1e-9:
        return Skip('tie-within-rounding: two output selections capture the same power')
    res = sx.output_sxr(image_contribution.copy(order='K'), noise_contribution.copy(order='K'), average_sources, return_dict)
    prob, got = _unpack(res, return_dict)
    if prob:
        return Fail('return-container', 'output_sxr: ' + prob)
    if not _triple_close(got, want):
        return Fail('selection-or-definition', f'output_sxr = {[np.asarray(g).tolist() for g in got]}; the selection '
                    f'{sel} capturing the most source power gives {[np.asarray(w).tolist() for w in want]}')
    per = tuple(sx.output_sxr(image_contribution.copy(order='K'), noise_contribution.copy(order='K'), False))
    p = _decomposition_problem(*per)
    if p:
        return Fail('decomposition', 'output_sxr: ' + p)
    p = _le_min_problem(*got) or _le_min_problem(*per)
    if p:
        return Fail('sdr-above-min', 'output_sxr: ' + p)
    both = tuple(sx.output_sxr(c * image_contribution, c * noise_contribution, average_sources))
    if not _triple_close(both, got):
        return Fail('common-scale', f'output_sxr changes under a common rescaling by {c}')
    img = tuple(sx.output_sxr(c * image_contribution, noise_contribution.copy(order='K'), average_sources))
    shift = 20 * math.log10(abs(c))
    if not mu.close_db(img[2], np.asarray(got[2]) + shift, DB_TOL):
        return Fail('image-scale-snr', f'scaling the image contributions by {c}: SNR {np.asarray(img[2]).tolist()} != '
                    f'{(np.asarray(got[2]) + shift).tolist()}')
    if not mu.close_db(img[1], got[1], DB_TOL):
        return Fail('image-scale-sir', f'scaling the image contributions by {c} changes SIR')
    perms = list(itertools.permutations(range(Kt)))
    if not all_permutations:
        perms = perms[:1] + perms[-1:] + perms[len(perms) // 2:len(perms) // 2 + 2]
    for p in perms:
        p = list(p)
        r2 = tuple(sx.output_sxr(np.ascontiguousarray(image_contribution[:, p]),
                                 np.ascontiguousarray(noise_contribution[p]), average_sources))
        if not _triple_close(r2, got, 1e-9):
            return Fail('output-order', f'output_sxr depends on the order of the outputs: order {p} gives '
                        f'{[np.asarray(g).tolist() for g in r2]} instead of {[np.asarray(g).tolist() for g in got]}')


@oracle
def return_dict_container(function, return_dict, K, D, T, seed):
    """return_dict=True or a prefix string yields a dict with (prefixed) keys - for both functions"""
    rng = np.random.default_rng(seed)
    a, n = rng.normal(size=(K, D, T)), rng.normal(size=(D, T))
    if function == 'input_sxr':
        tup = sx.input_sxr(a, n)
        res = sx.input_sxr(a, n, return_dict=return_dict)
    else:
        tup = sx.output_sxr(a, n)
        res = sx.output_sxr(a, n, return_dict=return_dict)
    prob, got = _unpack(res, return_dict)
    if prob:
        return Fail(f'{function}-container', f'{function}: {prob}')
    if not all(np.array_equal(x, y, equal_nan=True) for x, y in zip(got, tuple(tup))):
        return Fail(f'{function}-values', f'{function}: values in the dict differ from the tuple result')


# ============================================================================= oracles: get_snr / set_snr
@oracle
def set_snr_then_get_snr(X, N, snr, axis, inplace, pass_current):
    cur = None
    if pass_current:
        cur = sx.get_snr(X, N, axis=axis, keepdims=True)
    N0 = N.copy(order='K')
    N1 = N.copy(order='K')
    out = sx.set_snr(X, N1, snr, current_snr=cur, axis=axis, inplace=inplace)
    if inplace:
        if out is not None:
            return Fail('inplace-returns', 'set_snr(inplace=True) returned a value')
        N2 = N1
    else:
        if not (isinstance(out, tuple) and len(out) == 2):
            return Fail('not-inplace-return', f'set_snr(inplace=False) returned {type(out).__name__}')
        N2 = out[1]
        if not np.array_equal(N1, N0):
            return Fail('not-inplace-modifies', 'set_snr(inplace=False) modified the noise')
    got = np.asarray(sx.get_snr(X, N2, axis=axis))
    if not np.all(np.abs(got - snr) <= 1e-9 * (1 + abs(snr))):
        return Fail('snr-not-reached', f'get_snr after set_snr(snr={snr}, axis={axis}) = {got.ravel()[:4].tolist()}')
    # get_snr itself: 10 log10 of the ratio of the mean powers
    px = np.mean(np.abs(np.asarray(X, dtype=np.result_type(X, np.float64))) ** 2, axis=axis)
    pn = np.mean(np.abs(np.asarray(N0, dtype=np.result_type(N0, np.float64))) ** 2, axis=axis)
    g0 = np.asarray(sx.get_snr(X, N0, axis=axis))
    if not np.all(np.abs(g0 - 10 * np.log10(px / pn)) <= 1e-9 * (1 + np.abs(g0))):
        return Fail('get-snr-definition', 'get_snr differs from 10 log10(mean |X|^2 / mean |N|^2)')


# ============================================================================= generators
def _log_uniform(rng, lo, hi):
    return float(10.0 ** rng.uniform(math.log10(lo), math.log10(hi)))


def gen_T(rng, tier):
    kind = rng.choice(['small', 'mid', 'large'], p=[0.55, 0.35, 0.10])
    if kind == 'small':
        return int(rng.integers(8, 33))
    if kind == 'mid':
        return int(rng.integers(33, 513))
    return int(rng.choice([1024, 2048, 4096, int(rng.integers(513, 4097))]))


def gen_scale(rng):
    c = _log_uniform(rng, 1e-6, 1e6)
    if rng.random() < 0.15:
        c = float(rng.choice([1e-6, 1e6, 1.0]))
    return -c if rng.random() < 0.3 else c


def gen_pair(rng, T):
    """reference and estimate with a controlled SI-SDR between about -30 and +60 dB"""
    s = rng.normal(size=T)
    if rng.random() < 0.15:
        # a nearly perfect estimate (SI-SDR 100..150 dB): the residual must be formed before its energy is taken
        return s, rng.normal() * s + rng.normal(size=T) * _log_uniform(rng, 3e-8, 1e-5)
    e = rng.normal() * s + rng.normal(size=T) * _log_uniform(rng, 1e-3, 30) + (rng.normal() if rng.random() < 0.3 else 0)
    return s, e


def gen_images(rng, K, D, T):
    """source images with very different levels + noise"""
    lev = np.array([[_log_uniform(rng, 1e-2, 1e2) for _ in range(D)] for _ in range(K)])
    return rng.normal(size=(K, D, T)) * lev[:, :, None], rng.normal(size=(D, T)) * _log_uniform(rng, 1e-2, 1e2)


RETURN_DICTS = [False, True, 'prefix_', 'input_', 'x']


def _as_pcm(rng, *arrays):
    """the same real signals as 16-bit PCM samples (what scipy.io.wavfile.read returns): a common gain puts the largest
    sample at 3000..30000, then rounding to int16"""
    out = []
    for a in arrays:        # every signal at its own recording gain, so that none of them rounds to silence
        g = float(rng.uniform(3000, 30000)) / (float(np.max(np.abs(a))) or 1.0)
        out.append(np.round(a * g).astype(np.int16))
    if not all(np.all(np.any(o != 0, axis=-1)) for o in out):
        return list(arrays)     # a weak channel would round to silence (zero power is outside the identities): keep floats
    return out


def search(ctx):
    rng = ctx.rng
    # return_dict decision logic: full option matrix for both functions (detects the fixed defect 9a096bd)
    for fn in ('input_sxr', 'output_sxr'):
        for rd in RETURN_DICTS:
            for K, D in ((1, 1), (2, 2), (2, 3), (3, 5)):
                ctx.run(return_dict_container, function=fn, return_dict=rd, K=K, D=D, T=16, seed=int(rng.integers(1 << 30)))
                ctx.count(f'search-return_dict-{fn}-{rd!r}')
    n = ctx.n(400, 6000)
    for i in range(n):
        if ctx.out_of_time(reserve=30):
            break
        T = gen_T(rng, ctx.tier)
        ctx.count('search-T<=32' if T <= 32 else ('search-T<=512' if T <= 512 else 'search-T>512'))
        # ---- si_sdr
        s, e = gen_pair(rng, T)
        ok = ctx.run(si_sdr_definition, reference=s, estimation=e)
        if i == 0:
            ctx.sample({'oracle': 'si_sdr_definition', 'T': T, 'held': ok, 'si_sdr': float(si_sdr(s, e))})
        ctx.run(si_sdr_scale_invariance, reference=s, estimation=e, a=gen_scale(rng), b=gen_scale(rng))
        lead = [int(v) for v in rng.integers(1, 4, size=int(rng.integers(1, 3)))]
        Tb = min(T, 64)
        R = rng.normal(size=lead + [Tb])
        E = R * rng.normal(size=lead + [1]) + rng.normal(size=lead + [Tb])
        bkind = str(rng.choice(['same', 'ref-1d', 'est-lead1']))
        if bkind == 'ref-1d':
            R = R[(0,) * len(lead)]
        elif bkind == 'est-lead1':
            E = E[:1]
        ctx.count(f'search-si_sdr-batch-{bkind}')
        ctx.run(si_sdr_leading_independence, reference=R, estimation=E)
        ctx.run(si_sdr_scale_invariance, reference=R, estimation=E, a=gen_scale(rng), b=gen_scale(rng))
        # ---- input_sxr
        K, D = int(rng.integers(1, 5)), int(rng.integers(1, 6))
        images, noise = gen_images(rng, K, D, T)
        avs, avc = bool(rng.random() < 0.5), bool(rng.random() < 0.5)
        rd = RETURN_DICTS[int(rng.integers(len(RETURN_DICTS)))]
        ctx.count(f'search-input_sxr-K{K}-avs{int(avs)}-avc{int(avc)}-rd{rd!r}')
        if rng.random() < 0.15:
            images, noise = _as_pcm(rng, images, noise)
            ctx.count('search-input_sxr-int16')
        ok = ctx.run(input_sxr_identities, images=images, noise=noise, average_sources=avs, average_channels=avc,
                     return_dict=rd, c=gen_scale(rng))
        if i == 0:
            ctx.sample({'oracle': 'input_sxr_identities', 'K': K, 'D': D, 'T': T, 'average_sources': avs,
                        'average_channels': avc, 'return_dict': rd, 'held': ok})
        # ---- output_sxr
        Ks = int(rng.integers(1, 5))
        Kt = int(rng.integers(Ks, 6))
        To = T if Kt < 5 else min(T, 512)
        lev = np.array([[_log_uniform(rng, 1e-2, 1e1) for _ in range(Kt)] for _ in range(Ks)])
        if rng.random() < 0.6:       # a separated constellation: output sel[k] carries source k
            tgt = rng.permutation(Kt)[:Ks]
            lev[np.arange(Ks), tgt] *= 30
        ic = rng.normal(size=(Ks, Kt, To)) * lev[:, :, None]
        nc = rng.normal(size=(Kt, To)) * _log_uniform(rng, 1e-2, 1e1)
        avs = bool(rng.random() < 0.5)
        rd = RETURN_DICTS[int(rng.integers(len(RETURN_DICTS)))]
        ctx.count(f'search-output_sxr-Ks{Ks}-Kt{Kt}-avs{int(avs)}-rd{rd!r}')
        if rng.random() < 0.15:
            ic, nc = _as_pcm(rng, ic, nc)
            ctx.count('search-output_sxr-int16')
        ok = ctx.run(output_sxr_identities, image_contribution=ic, noise_contribution=nc, average_sources=avs,
                     return_dict=rd, c=gen_scale(rng), all_permutations=True)
        if i == 0:
            ctx.sample({'oracle': 'output_sxr_identities', 'K_source': Ks, 'K_target': Kt, 'T': To,
                        'average_sources': avs, 'return_dict': rd, 'held': ok})
        # ---- set_snr / get_snr
        shape = [int(v) for v in rng.integers(1, 5, size=int(rng.integers(0, 3)))] + [min(T, 256)]
        cplx = bool(rng.random() < 0.4)
        X = rng.normal(size=shape) * _log_uniform(rng, 1e-6, 1e6)
        N = rng.normal(size=shape) * _log_uniform(rng, 1e-6, 1e6)
        if cplx:
            X = X + 1j * rng.normal(size=shape)
            N = N + 1j * rng.normal(size=shape) * abs(N).mean()
        axis = None if rng.random() < 0.5 else int(rng.integers(-len(shape), len(shape)))
        if axis is not None and shape[axis] < 2:
            axis = -1
        ctx.count(f'search-set_snr-axis{"None" if axis is None else "int"}-{"complex" if cplx else "real"}')
        inplace = bool(rng.random() < 0.5)
        if not cplx and not inplace and rng.random() < 0.2:
            X, N = _as_pcm(rng, X, N)      # (in-place scaling of an integer array is rejected by NumPy itself)
            ctx.count('search-set_snr-int16')
        ctx.run(set_snr_then_get_snr, X=X, N=N, snr=float(rng.uniform(-40, 40)), axis=axis,
                inplace=inplace, pass_current=bool(rng.random() < 0.3))


# ============================================================================= correspondence
def _groups(line):
    return [g.strip() for g in line.split('|')]


def _classify(fn, arg):
    """what the real call returns for this return_dict argument"""
    rng = np.random.default_rng(0)
    a, n = rng.normal(size=(2, 2, 8)), rng.normal(size=(2, 8))
    try:
        r = fn(a, n, return_dict=arg)
    except TypeError:
        return 'typeerror'
    if isinstance(r, dict):
        return 'dict ' + ' '.join(','.join(str(ord(c)) for c in k) for k in r)
    if isinstance(r, tuple):
        return 'tuple'
    return 'other ' + type(r).__name__


def _retarg_tokens(arg):
    if isinstance(arg, bool):
        return f'bool {int(arg)} 0'
    if isinstance(arg, str):
        return f'str {int(bool(arg))} {len(arg)} ' + ' '.join(str(ord(c)) for c in arg)
    return f'other {int(bool(arg))} 0'


RETARGS = [False, True, 'prefix_', 'input_', 'x', '', 'sdr', None, 0, 1, 2.5, 0.0, [], [1], (), ('a',), {}, {'a': 1}]


def _vals_close(got, want, tol=1e-9):
    got, want = np.asarray(got, dtype=float).ravel(), np.asarray(want, dtype=float).ravel()
    return got.shape == want.shape and mu.close_db(got, want, tol)


def corr(ctx):
    rng = ctx.rng
    lines, metas = [], []

    def add(line, **meta):
        lines.append(line)
        metas.append(meta)

    for fn in ('input_sxr', 'output_sxr'):
        for arg in RETARGS:
            add(f'retdict {fn} {_retarg_tokens(arg)}', op=f'return_dict[{fn}]', fn=fn, arg=arg)
    n = ctx.n(150, 2000)
    for i in range(n):
        T = gen_T(rng, ctx.tier)
        if T > 512 and i % 5:
            T = int(rng.integers(8, 513))
        ctx.count('corr-T<=32' if T <= 32 else ('corr-T<=512' if T <= 512 else 'corr-T>512'))
        # si_sdr on a batch
        B = int(rng.integers(1, 5))
        R = rng.normal(size=(B, T)) * _log_uniform(rng, 1e-3, 1e3)
        E = R * rng.normal(size=(B, 1)) + rng.normal(size=(B, T)) * _log_uniform(rng, 1e-3, 30) * abs(R).mean()
        add(f'sisdr {B} {T} {fbits(R)} {fbits(E)}', op='si_sdr', R=R, E=E)
        # get_snr / set_snr
        X = rng.normal(size=T) * _log_uniform(rng, 1e-6, 1e6)
        N = rng.normal(size=T) * _log_uniform(rng, 1e-6, 1e6)
        add(f'getsnr {T} {fbits(X)} {fbits(N)}', op='get_snr', X=X, N=N)
        Xc, Nc = X + 1j * rng.normal(size=T) * abs(X).mean(), N + 1j * rng.normal(size=T) * abs(N).mean()
        add(f'getsnrc {T} {fbits(Xc.real)} {fbits(Xc.imag)} {fbits(Nc.real)} {fbits(Nc.imag)}', op='get_snr[complex]',
            X=Xc, N=Nc)
        snr = float(rng.uniform(-40, 40))
        add(f'setsnr {T} {fbits(snr)} {fbits(X)} {fbits(N)}', op='set_snr', X=X, N=N, snr=snr)
        # input_sxr, all option combinations
        K, D = int(rng.integers(1, 5)), int(rng.integers(1, 6))
        images, noise = gen_images(rng, K, D, T)
        for avs in (False, True):
            for avc in (False, True):
                add(f'insxr {K} {D} {T} {int(avs)} {int(avc)} {fbits(images)} {fbits(noise)}', op='input_sxr',
                    images=images, noise=noise, avs=avs, avc=avc)
        # output_sxr
        Ks = int(rng.integers(1, 5))
        Kt = int(rng.integers(max(1, Ks - (1 if rng.random() < 0.1 else 0)), 6))
        lev = np.array([[_log_uniform(rng, 1e-2, 1e1) for _ in range(Kt)] for _ in range(Ks)])
        tied = bool(rng.random() < 0.15)
        ic = rng.normal(size=(Ks, Kt, T)) * lev[:, :, None]
        if tied and Kt > 1:      # two identical outputs: exact tie of the mutual power, first maximum decides
            ic[:, 1] = ic[:, 0]
        nc = rng.normal(size=(Kt, T)) * _log_uniform(rng, 1e-2, 1e1)
        for avs in (False, True):
            add(f'outsxr {Ks} {Kt} {T} {int(avs)} {fbits(ic)} {fbits(nc)}', op='output_sxr', ic=ic, nc=nc, avs=avs,
                tied=tied)
        ctx.count(f'corr-output_sxr-Ks{Ks}-Kt{Kt}{"-tied" if tied else ""}')
    out = run_driver(lines, exe='driver_metrics')
    for meta, o in zip(metas, out):
        op = meta['op']
        if op.startswith('return_dict'):
            want = _classify(getattr(sx, meta['fn']), meta['arg'])
            ctx.corr(op, o.strip() == want, f'{meta["fn"]}(return_dict={meta["arg"]!r}): code {want!r}, model {o.strip()!r}')
        elif op == 'si_sdr':
            want = si_sdr(meta['R'], meta['E'])
            ctx.corr(op, _vals_close(parse_floats(o), want), f'si_sdr code={np.asarray(want).tolist()} '
                     f'model={parse_floats(o).tolist()}', {'reference': meta['R'], 'estimation': meta['E']})
        elif op.startswith('get_snr'):
            want = sx.get_snr(meta['X'], meta['N'])
            ctx.corr(op, _vals_close(parse_floats(o), want), f'get_snr code={want} model={parse_floats(o).tolist()}',
                     {'X': meta['X'], 'N': meta['N']})
        elif op == 'set_snr':
            _, want = sx.set_snr(meta['X'], meta['N'].copy(order='K'), meta['snr'], inplace=False)
            got = parse_floats(o)
            ok = got.shape == want.shape and bool(np.all(np.abs(got - want) <= 1e-9 * np.abs(want)))
            N2 = meta['N'].copy(order='K')
            sx.set_snr(meta['X'], N2, meta['snr'])          # in place
            ok = ok and np.array_equal(N2, want)
            ctx.corr(op, ok, f'set_snr(snr={meta["snr"]}) rescaled noise differs', {'X': meta['X'], 'N': meta['N'],
                                                                                   'snr': meta['snr']})
        elif op == 'input_sxr':
            want = sx.input_sxr(meta['images'], meta['noise'], meta['avs'], meta['avc'])
            got = [parse_floats(g) for g in _groups(o)]
            ok = len(got) == 3 and all(_vals_close(g, w) for g, w in zip(got, want))
            ctx.corr(op, ok, f'input_sxr(avs={meta["avs"]}, avc={meta["avc"]}) shape={meta["images"].shape} '
                     f'code={[np.asarray(w).tolist() for w in want]} model={[g.tolist() for g in got]}',
                     {'images': meta['images'], 'noise': meta['noise']})
        elif op == 'output_sxr':
            ic, nc = meta['ic'], meta['nc']
            try:
                want = sx.output_sxr(ic, nc, meta['avs'])
            except AssertionError:
                want = 'raise'
            if o.strip() == 'raise' or want == 'raise':
                ctx.corr(op, o.strip() == want, f'output_sxr shape={ic.shape}: code {"raises" if want == "raise" else "returns"}, '
                         f'model {o.strip()[:20]}')
                continue
            g = _groups(o)
            sel = parse_ints(g[0]).tolist()
            got = [parse_floats(v) for v in g[1:]]
            _, ref_sel, margin = _ref_output_sxr(ic, nc, meta['avs'])
            ok = all(_vals_close(a, b) for a, b in zip(got, want)) and (sel == list(ref_sel) or meta['tied'])
            if ok:
                ctx.corr(op, True)
            elif margin < 1e-9 and not meta['tied']:
                ctx.count('tie-within-rounding:output_sxr')
            else:
                ctx.corr(op, False, f'output_sxr shape={ic.shape} avs={meta["avs"]}: model selection {sel}, reference '
                         f'{list(ref_sel)} (margin {margin:.3g}); code={[np.asarray(w).tolist() for w in want]} '
                         f'model={[v.tolist() for v in got]}', {'image_contribution': ic, 'noise_contribution': nc})
    ctx.sample({'op': 'corr', 'lines': len(lines)})

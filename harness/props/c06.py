"""C06 - leading (frequency/batch) axes are independent problems.

search: stacked call vs per-slice calls on the REAL code (different content per slice, 1..3 leading axes of sizes
1..5 incl. singleton axes) for every distribution trainer, every log_pdf and every mixture trainer with per-slice
weights; singleton leading axes of an initial affiliation behave as if repeated.
corr:   the reversed-index tensor-layer transcriptions (lean/PbBss/Model/Tensor.lean) executed by `driver_tensor`
on the full stacked arrays, compared element-wise with NumPy / the real pb_bss functions.
"""
import numpy as np

from .. import tensor_util as tu
from .. import posterior_util as ppu
import contextlib
from ..core import Fail, Skip, oracle
from ..lean import run_driver

ID = 'C06'
DRIVERS = ('driver_tensor',)
THEOREMS = ['PbBss.C06.' + t for t in [
    # generic family: primitives addressed from the end of the shape commute with fixing the leading indices
    'map_slices', 'zipWith_slices', 'reduceKeep_slices', 'reduceDrop_slices', 'cumprodFromEnd_slices',
    'cumsumFromEnd_slices', 'expandDims_slices', 'swapaxes_slices', 'reshape_pair_slices',
    # transcriptions of pb_bss functions
    'posterior_slices', 'mixtureWeight_slices', 'gaussianFit_slices', 'gaussianLogPdf_slices',
    'diagonalGaussianLogPdf_slices', 'sphericalGaussianLogPdf_slices', 'diagonalPostInit_slices',
    'diagonalPostInit_standalone', 'sphericalPostInit_slices', 'sphericalPostInit_standalone', 'fullPostInit_slices',
    'fullPostInit_standalone',
    'vmfFit_slices', 'vmfLogPdf_slices', 'scatter_slices', 'watsonLogPdf_slices', 'binghamLogPdf_slices',
    'cacgNormalize_slices', 'cacgStart_slices', 'cacgFitCovariance_slices', 'cacgEigenvalueNorm_slices',
    'cacgLogPdf_slices',
    # a mixture trainer: the EM loop of GMMTrainer
    'reshape_pair_class_slices', 'gmmMStep_slices', 'gmmPredict_slices', 'gmmFit_slices', 'goodLead_of_check',
    'gmmFit_slices_shaped', 'gmmFitPredict_slices_shaped',
    # the EM loops of the directional mixture trainers (Model/TensorEm.lean): per-matrix externals with the class axis in
    # the core, get_pca with its reshapes, VMFMMTrainer / CWMMTrainer / CACGMMTrainer (M-step, E-step, any number of iterations)
    'mapCore_class_slices', 'getPca_slices',
    'vmfmmMStep_slices', 'vmfmmPredict_slices', 'vmfmmStep_slices', 'vmfmmFit_slices', 'vmfmmFit_slices_shaped', 'vmfmmFitPredict_slices',
    'vmfmmTrainerFit_slices',
    'cwmmMStep_slices', 'cwmmPredict_slices', 'cwmmStep_slices', 'cwmmFit_slices', 'cwmmFit_slices_shaped', 'cwmmFitPredict_slices_shaped',
    'cwmmTrainerFit_slices_shaped',
    'cacgmmMStep_slices', 'cacgmmPredict_slices', 'cacgmmStep_slices', 'cacgmmFit_slices', 'cacgmmFit_slices_shaped', 'cacgmmFitPredict_slices',
    'cacgmmTrainerFit_slices',
    # singleton leading axes
    'broadcastLead_slices', 'singleton_init_weights',
    # counter-witnesses
    'cumprod_axis0_not_slicewise', 'postInit_without_reshape_back_wrong_shape',
    'em_sliced_fit_noninterference',
    'em_sliced_fit_eq_single',
    'em_mstep_local_cacg',
    'em_mstep_local_gcacgmm',
]]
ASSUMPTIONS = [
    'theorems are about the reversed-index tensor-layer transcriptions in lean/PbBss/Model/Tensor.lean and Model/TensorEm.lean; they '
    'are tied to /repo by the element-wise correspondence run of the compiled model on full stacked arrays (NumPy semantics of einsum / '
    'broadcasting / reshape are modelled, not verified); the theorems are structural (no property of the scalar type is used) and '
    'therefore hold verbatim for the Float instance the driver executes',
    'transcribed WITH a slice theorem: log_pdf_to_affiliation (mask, clipping, any broadcast weight), estimate_mixture_weight for '
    'weight_constant_axis=(-1,), GaussianTrainer._fit (3 covariance types), the 3 Gaussian log_pdf and __post_init__ (reshape pairs), '
    'GMMTrainer._m_step / GMM.predict / GMMTrainer._fit for any number of iterations, VonMisesFisherTrainer._fit and log_pdf, the '
    'scatter matrix of the complex Gaussian / Watson / Bingham trainers, ComplexWatson.log_pdf, ComplexBingham.log_pdf, cACG '
    'normalize_observation, _fit up to eigh, eigenvalue normalisation, _log_pdf and the start value of fit; get_pca (reshape(-1,D,D), '
    'per-matrix eigh, last eigenpair, reshape back); _m_step / predict / _fit (any number of iterations) and the public fit '
    '(normalisation, default saliency, broadcast_to of the initial affiliation) of VMFMMTrainer, CWMMTrainer and CACGMMTrainer '
    '(weight_constant_axis=(-1,), covariance_norm=eigenvalue, no inline aligner, no source-activity mask)',
    'NOT transcribed (claim = stacked-vs-slice search on the real code only): ComplexCircularSymmetricGaussian.log_pdf (slogdet / '
    'solve), the eigenvalue solver of the Bingham trainer and the EM loop of CBMMTrainer (its M-step and E-step building blocks above '
    'are), weight_constant_axis other than (-1,), inline permutation alignment, source-activity masks inside the cACGMM loop',
    'external routines: per-matrix ones (sklearn precision Cholesky = parameter `chol`, np.linalg.eigh = parameter `eigh` of ONE matrix) '
    'are applied to a stack through `mapCore`, i.e. the model ASSUMES that sklearn / NumPy treat the matrices of a stack independently '
    '(the theorems then hold for every such routine); elementwise ones (log_norm of vMF / Watson = `lnorm D` via ive / hyp1f1, the '
    'Watson concentration spline = `kinv`) are arbitrary functions applied with `map` (nothing assumed); least_squares of the Bingham '
    'trainer is not modelled; log_norm values of the stand-alone vMF / Watson / Bingham log_pdf are inputs of the model',
    'correspondence of the EM loops: the driver runs vmfmm* / cwmm* / cacgmm* on stacked inputs (1..3 problems on 1..2 leading axes, K 2..3) '
    'with eigh = its own Jacobi routine (compared gauge-free: projector of the Watson mode, U diag(l) U^H of the cACG; Watson cases whose '
    'two largest scatter eigenvalues are closer than 1e-4 relative are skipped and counted) and with log_norm / the concentration '
    'spline given as (argument, value) tables of the REAL calls read at the nearest argument (the model\'s arguments differ from the '
    'code\'s by rounding only); tolerance 1e-8 per M-step, x10 per further iteration, scaled by 1/eigen-gap (Watson) resp. 1/min '
    'eigenvalue (cACG), capped at 1e-4',
    'cwmmFit_slices has a shape hypothesis on the scatter stacks of the iterates (needed by the reshape inside get_pca) which the driver '
    'checks on every executed case; cwmmFit_slices_shaped discharges it for inputs without broadcasting in the leading axes; the vMF and '
    'cACG loops need no such hypothesis (no reshape)',
    'gmmFit_slices_shaped assumes inputs without broadcasting in the leading axes (y (*lead,N,D), affiliation (*lead,K,N), saliency '
    '(*lead,N)); the general gmmFit_slices has a shape hypothesis on the iterates which the driver checks on every executed case',
    'search tolerances: closed-form fields 1e-9 relative; one EM iteration 1e-7; several iterations: E-step of the final model 1e-8 '
    'absolute against a stand-alone model with the same parameters, end-to-end tolerance scaled by the conditioning of the fitted '
    'covariance (rounding amplified by 1/eigenvalue-floor is not cross-talk); Bingham eigenvalues (least_squares) 1e-5; eigenvectors '
    'compared as projectors / through U diag(l) U^H; observed deviations on the unchanged tree are below 1e-13 for well conditioned slices',
]

from pb_bss.distribution import gaussian as G  # noqa: E402
from pb_bss.distribution import gmm as GMM_  # noqa: E402
from pb_bss.distribution import cacgmm as CACGMM_  # noqa: E402
from pb_bss.distribution import cwmm as CWMM_  # noqa: E402
from pb_bss.distribution import cbmm as CBMM_  # noqa: E402
from pb_bss.distribution import vmfmm as VMFMM_  # noqa: E402
from pb_bss.distribution import complex_angular_central_gaussian as CACG_  # noqa: E402
from pb_bss.distribution import complex_watson as CW_  # noqa: E402
from pb_bss.distribution import complex_bingham as CB_  # noqa: E402
from pb_bss.distribution import von_mises_fisher as VMF_  # noqa: E402
from pb_bss.distribution import complex_circular_symmetric_gaussian as CG_  # noqa: E402
from pb_bss.distribution import mixture_model_utils as mmu  # noqa: E402

DIST_KINDS = ['gauss-full', 'gauss-diagonal', 'gauss-spherical', 'cgauss', 'vmf', 'watson', 'cacg', 'bingham']
COMPLEX_KINDS = {'cgauss', 'watson', 'cacg', 'bingham'}
MIX_KINDS = ['gmm-full', 'gmm-diagonal', 'gmm-spherical', 'cacgmm', 'cwmm', 'cbmm', 'vmfmm']
COMPLEX_MIX = {'cacgmm', 'cwmm', 'cbmm'}

RTOL = 1e-9          # one closed-form step: stacked and stand-alone differ by summation order only
RTOL_EM = 1e-7       # a few EM iterations amplify the rounding differences
RTOL_SOLVER = 1e-5   # Bingham eigenvalues come out of scipy.optimize.least_squares (termination tolerance 1e-8)


# ----------------------------------------------------------------------------- adapters around the real classes
def _fit_dist(kind, y, saliency, trainers, opts=None):
    opts = opts or {}
    if kind.startswith('gauss-'):
        return G.GaussianTrainer().fit(y, saliency=saliency, covariance_type=kind.split('-')[1])
    if kind == 'cgauss':
        return CG_.ComplexCircularSymmetricGaussianTrainer().fit(y, saliency=saliency)
    if kind == 'vmf':
        return VMF_.VonMisesFisherTrainer().fit(y, saliency=saliency)
    if kind == 'watson':
        return trainers.setdefault('watson', CW_.ComplexWatsonTrainer()).fit(y, saliency=saliency)
    if kind == 'cacg':
        assert saliency is None     # the stand-alone cACG trainer implements saliency=None only
        return CACG_.ComplexAngularCentralGaussianTrainer().fit(y, iterations=3, **opts)
    if kind == 'bingham':
        return trainers.setdefault('bingham', CB_.ComplexBinghamTrainer()).fit(y, saliency=saliency)
    raise ValueError(kind)


def _make_dist(kind, p):
    if kind == 'gauss-full':
        return G.Gaussian(mean=p['mean'], covariance=p['covariance'])
    if kind == 'gauss-diagonal':
        return G.DiagonalGaussian(mean=p['mean'], covariance=p['covariance'])
    if kind == 'gauss-spherical':
        return G.SphericalGaussian(mean=p['mean'], covariance=p['covariance'])
    if kind == 'cgauss':
        return CG_.ComplexCircularSymmetricGaussian(covariance=p['covariance'])
    if kind == 'vmf':
        return VMF_.VonMisesFisher(mean=p['mean'], concentration=p['concentration'])
    if kind == 'watson':
        return CW_.ComplexWatson(mode=p['mode'], concentration=p['concentration'])
    if kind == 'cacg':
        return CACG_.ComplexAngularCentralGaussian(covariance_eigenvectors=p['covariance_eigenvectors'],
                                                   covariance_eigenvalues=p['covariance_eigenvalues'])
    if kind == 'bingham':
        return CB_.ComplexBingham(covariance_eigenvectors=p['covariance_eigenvectors'],
                                  covariance_eigenvalues=p['covariance_eigenvalues'])
    raise ValueError(kind)


# fields of a component model: name -> (core rank, how to compare)
def _dist_fields(kind, m):
    """list of (name, array, core_rank, rtol); gauge freedoms removed (eigenvectors as projectors / reconstruction)"""
    if kind == 'gauss-full':
        return [('mean', m.mean, 1, RTOL), ('covariance', m.covariance, 2, RTOL),
                ('precision_cholesky', m.precision_cholesky, 2, 1e-7),
                ('log_det_precision_cholesky', m.log_det_precision_cholesky, 0, 1e-8)]
    if kind == 'gauss-diagonal':
        return [('mean', m.mean, 1, RTOL), ('covariance', m.covariance, 1, RTOL),
                ('precision_cholesky', m.precision_cholesky, 1, RTOL),
                ('log_det_precision_cholesky', m.log_det_precision_cholesky, 0, 1e-8)]
    if kind == 'gauss-spherical':
        return [('mean', m.mean, 1, RTOL), ('covariance', m.covariance, 0, RTOL),
                ('precision_cholesky', m.precision_cholesky, 0, RTOL),
                ('log_det_precision_cholesky', m.log_det_precision_cholesky, 0, 1e-8)]
    if kind == 'cgauss':
        return [('covariance', m.covariance, 2, RTOL)]
    if kind == 'vmf':
        return [('mean', m.mean, 1, RTOL), ('concentration', m.concentration, 0, 1e-8)]
    if kind == 'watson':
        return [('mode-projector', tu.projector(m.mode), 2, 1e-7), ('concentration', m.concentration, 0, 1e-7)]
    if kind == 'cacg':
        return [('covariance_eigenvalues', m.covariance_eigenvalues, 1, 1e-7),
                ('covariance_eigenvectors-shape', np.zeros(np.shape(m.covariance_eigenvectors)), 2, 0.0),
                ('covariance(U diag U^H)', tu.reconstruct(m.covariance_eigenvectors, m.covariance_eigenvalues), 2, 1e-7)]
    if kind == 'bingham':
        return [('covariance_eigenvalues', m.covariance_eigenvalues, 1, RTOL_SOLVER),
                ('covariance_eigenvectors-shape', np.zeros(np.shape(m.covariance_eigenvectors)), 2, 0.0),
                ('covariance(U diag U^H)', tu.reconstruct(m.covariance_eigenvectors, m.covariance_eigenvalues), 2,
                 RTOL_SOLVER)]
    raise ValueError(kind)


def _eigvec_fields(kind, m):
    """(vecs, vals) of models that carry an eigen-decomposition (columns = eigenvectors), else None"""
    if kind in ('cacg', 'bingham'):
        return m.covariance_eigenvectors, m.covariance_eigenvalues
    return None


def _compare_fields(kind, stacked, alone, idx, loosen=1.0, atol=0.0):
    """compare every field of the stacked model at leading index `idx` with the stand-alone model"""
    fs = _dist_fields(kind, stacked)
    fa = _dist_fields(kind, alone)
    for (name, a, c, rtol), (_, b, _, _) in zip(fs, fa):
        a = np.asarray(a)
        b = np.asarray(b)
        if a.ndim < len(idx) + c:
            return name, f'stacked field has shape {a.shape}: fewer than {len(idx)} leading + {c} core axes'
        try:
            s = a[idx]
        except IndexError as e:
            return name, f'stacked field of shape {a.shape} cannot be indexed at {idx}: {e}'
        ok, err = tu.close(s, b, rtol * loosen, atol=atol if 'covariance' in name else 0.0)
        if not ok:
            return name, (f'stacked[{idx}] has shape {s.shape}, stand-alone {b.shape}' if s.shape != b.shape else
                          f'stacked[{idx}] differs from the stand-alone result by {err:.3g} relative (tolerance {rtol * loosen:g})')
    ev_s, ev_a = _eigvec_fields(kind, stacked), _eigvec_fields(kind, alone)
    if ev_s is not None:
        try:
            ps = dict(tu.eig_projectors(np.asarray(ev_s[0])[idx], np.asarray(ev_s[1])[idx]))
            pa = dict(tu.eig_projectors(ev_a[0], ev_a[1]))
        except IndexError:
            return 'eigenvector-projector', 'stacked eigenvectors cannot be indexed'
        tol = (RTOL_SOLVER if kind == 'bingham' else 1e-6) * loosen
        for i in ps:
            if i in pa and not tu.close(ps[i], pa[i], 0.0, atol=tol)[0]:
                return 'eigenvector-projector', f'projector of eigenvector {i} differs at {idx} by {np.abs(ps[i] - pa[i]).max():.3g}'
    return None


def _cond_factor(kind, m):
    """rounding differences (1e-16) are amplified by the conditioning of the fitted covariance before they reach the
    next EM iterate: tolerance factor max(1, cond * 1e-6) (1 for well conditioned slices)"""
    try:
        if kind in ('cacg',):
            ev = np.asarray(m.covariance_eigenvalues, dtype=float)
            c = float(np.max(ev.max(-1) / np.maximum(ev.min(-1), 1e-300)))
        elif kind == 'gauss-full':
            # a class collapsing onto a point has a tiny variance next to the other classes' (for D = 1 its own condition
            # number is 1): spread of the eigenvalues over ALL classes of the model
            ev = np.linalg.eigvalsh(np.asarray(m.covariance, dtype=float))
            c = float(np.max(ev) / max(float(np.min(ev)), 1e-300))
        elif kind in ('gauss-diagonal', 'gauss-spherical'):
            v = np.asarray(m.covariance, dtype=float)
            c = float(np.max(v) / max(float(np.min(v)), 1e-300))
        elif kind == 'cgauss':
            c = float(np.max(np.linalg.cond(np.asarray(m.covariance))))
        elif kind == 'vmf':
            c = float(np.max(np.asarray(m.concentration))) * 1e3
        elif kind in ('watson',):
            c = float(np.max(np.asarray(m.concentration))) * 1e3
        elif kind == 'bingham':
            c = float(np.max(-np.asarray(m.covariance_eigenvalues))) * 1e3
        else:
            c = 1.0
    except Exception:  # noqa
        c = 1.0
    if not np.isfinite(c):
        c = 1e16
    return max(1.0, c * 1e-6)


def _take(x, idx):
    return None if x is None else x[idx]


# ----------------------------------------------------------------------------- oracles on the real code
@oracle
def trainer_slices(kind, y, saliency, opts=None):
    """<Distribution>Trainer().fit on a stack == fit on every slice alone (parameters, then log_pdf of the slice);
    `opts`: non-default trainer options (cACG: covariance_norm, eigenvalue_floor)"""
    lead = y.shape[:-2]
    trainers = {}
    alone = {}
    # Bingham: the bounded least-squares solver inside the M-step is an external (DESIGN.md 2.1); its values are recorded
    # while the slices are fitted alone and replayed for matching inputs in the stacked fit, so that the two runs can be
    # compared to rounding (1e-9) instead of to the solver's own tolerance (1e-5)
    tape = ppu.BinghamSolverTape() if kind == 'bingham' else None
    rec = tape.record() if tape else contextlib.nullcontext()
    with rec:
        for idx in np.ndindex(*lead):
            try:
                alone[idx] = _fit_dist(kind, y[idx].copy(order='K'), _take(saliency, idx), trainers, opts)
            except (AssertionError, np.linalg.LinAlgError, ValueError, FloatingPointError) as e:
                return Skip(f'slice alone raises {type(e).__name__} ({kind})')
    if kind.startswith('gauss-'):
        for idx, m in alone.items():
            cov = np.asarray(m.covariance, dtype=float)
            smallest = float(np.min(np.linalg.eigvalsh(cov))) if kind == 'gauss-full' else float(np.min(cov))
            if smallest <= 1e-20 * float(np.max(np.abs(y[idx])) ** 2):
                return Skip('a Gaussian fitted on identical frames (covariance = rounding noise)')
    try:
        with (tape.replay(1) if tape else contextlib.nullcontext()):
            stacked = _fit_dist(kind, y.copy(order='K'), saliency, trainers, opts)
    except ppu.TapeMismatch as e:
        return Fail('bingham:stacked-scatter-eigenvalues', f'bingham trainer, leading shape {lead}: {e}')
    except Exception as e:  # noqa
        return Fail(f'{kind}:stacked-fit-raises-{type(e).__name__}',
                    f'{kind} trainer: every slice fits alone, the stack of leading shape {lead} raises {type(e).__name__}: {e}')
    for idx in np.ndindex(*lead):
        factor = min(_cond_factor(kind, alone[idx]) * 100.0, 1e5) if kind == 'cacg' else 1.0   # 3 fixed-point iterations
        if tape:
            factor = 1e-3        # solver values replayed: RTOL_SOLVER * 1e-3 = 1e-8
        bad = _compare_fields(kind, stacked, alone[idx], idx, loosen=factor)
        if bad:
            return Fail(f'{kind}:fit:{bad[0]}', f'{kind} trainer, leading shape {lead}: field {bad[0]}: {bad[1]}')
    # the fitted stack evaluates each slice like the stand-alone model does
    want = {}
    for idx in np.ndindex(*lead):
        try:
            want[idx] = alone[idx].log_pdf(y[idx])
        except (AssertionError, np.linalg.LinAlgError, FloatingPointError) as e:
            return Skip(f'log_pdf of the slice alone raises {type(e).__name__} ({kind})')
    try:
        lp = stacked.log_pdf(y)
    except Exception as e:  # noqa
        return Fail(f'{kind}:stacked-log_pdf-raises-{type(e).__name__}',
                    f'{kind}: log_pdf of the fitted stack (leading shape {lead}) raises {type(e).__name__}: {e}')
    for idx in np.ndindex(*lead):
        ok, err = tu.close(np.asarray(lp)[idx] if np.ndim(lp) >= len(lead) else lp, want[idx],
                           RTOL_SOLVER if kind == 'bingham' else 1e-6)
        if not ok:
            return Fail(f'{kind}:fit:log_pdf', f'{kind}: log_pdf of the fitted stack at {idx} differs from the stand-alone '
                        f'model ({err:.3g} relative; shapes {np.shape(lp)} vs {np.shape(want[idx])})')


@oracle
def from_covariance_slices(covariance, covariance_norm, eigenvalue_floor):
    """ComplexAngularCentralGaussian.from_covariance on a stack of covariance matrices == on every matrix alone
    (every covariance_norm option, floors that do clip)"""
    lead = covariance.shape[:-2]
    norm = {'eigenvalue': 'eigenvalue', 'trace': 'trace', 'none': False}[covariance_norm]
    try:
        stacked = CACG_.ComplexAngularCentralGaussian.from_covariance(covariance.copy(order='K'), covariance_norm=norm,
                                                                      eigenvalue_floor=eigenvalue_floor)
    except (AssertionError, np.linalg.LinAlgError) as e:
        return Skip(f'stack raises {type(e).__name__}')
    for idx in np.ndindex(*lead):
        alone = CACG_.ComplexAngularCentralGaussian.from_covariance(covariance[idx].copy(order='K'), covariance_norm=norm,
                                                                    eigenvalue_floor=eigenvalue_floor)
        a, b = np.sort(stacked.covariance_eigenvalues[idx]), np.sort(alone.covariance_eigenvalues)
        ok, err = tu.close(a, b, 1e-9)
        if not ok:
            return Fail('cacg:from_covariance:eigenvalues',
                        f'from_covariance(covariance_norm={norm!r}, eigenvalue_floor={eigenvalue_floor}): eigenvalues at '
                        f'{idx} of the stack {lead} are {a.tolist()}, alone {b.tolist()}')


def _slice_params(p, idx):
    return {k: v[idx] for k, v in p.items()}


@oracle
def log_pdf_slices(kind, params, y, layout):
    """model(stacked parameters).log_pdf(stacked y)[idx] == model(parameters[idx]).log_pdf(y[idx]).

    layout 'plain': parameters and y share the leading axes; layout 'class-axis': parameters carry an extra class
    axis (lead..., K, ...) and y a singleton there (lead..., 1, N, D), as every mixture model calls log_pdf."""
    nlead = y.ndim - 2 - (1 if layout == 'class-axis' else 0)
    lead = y.shape[:nlead]
    alone_m, alone_lp = {}, {}
    for idx in np.ndindex(*lead):
        try:
            alone_m[idx] = _make_dist(kind, _slice_params(params, idx))
            alone_lp[idx] = alone_m[idx].log_pdf(y[idx])
        except (AssertionError, np.linalg.LinAlgError, FloatingPointError) as e:
            return Skip(f'slice alone raises {type(e).__name__} ({kind})')
    try:
        m = _make_dist(kind, params)
    except Exception as e:  # noqa
        return Fail(f'{kind}:stacked-init-raises-{type(e).__name__}',
                    f'{kind}: constructing the model from parameters with leading shape {lead} raises {type(e).__name__}: {e}')
    try:
        lp = np.asarray(m.log_pdf(y))
    except Exception as e:  # noqa
        return Fail(f'{kind}:stacked-log_pdf-raises-{type(e).__name__}',
                    f'{kind}.log_pdf ({layout}) with leading shape {lead} raises {type(e).__name__}: {e}')
    for idx in np.ndindex(*lead):
        bad = _compare_fields(kind, m, alone_m[idx], idx)
        if bad:
            return Fail(f'{kind}:init:{bad[0]}', f'{kind} ({layout}), leading shape {lead}: field {bad[0]}: {bad[1]}')
        want = np.asarray(alone_lp[idx])
        if lp.ndim < len(lead):
            return Fail(f'{kind}:log_pdf-shape', f'log_pdf has shape {lp.shape} for leading shape {lead}')
        ok, err = tu.close(lp[idx], want, 1e-8)
        if not ok:
            return Fail(f'{kind}:log_pdf', f'{kind}.log_pdf ({layout}), leading shape {lead}: value at {idx} differs from the '
                        f'stand-alone call ({err:.3g} relative; shapes {lp[idx].shape} vs {want.shape})')
    if layout == 'class-axis':
        # additionally: class k of slice idx alone (no class axis at all)
        K = next(iter(params.values())).shape[nlead]
        for idx in np.ndindex(*lead):
            for k in range(K):
                one = _make_dist(kind, _slice_params(params, idx + (k,)))
                want = np.asarray(one.log_pdf(y[idx + (0,)]))
                ok, err = tu.close(lp[idx + (k,)], want, 1e-8)
                if not ok:
                    return Fail(f'{kind}:log_pdf-class', f'{kind}.log_pdf (class axis), leading shape {lead}: class {k} at {idx} '
                                f'differs from the model of that class alone ({err:.3g} relative; shapes '
                                f'{lp[idx + (k,)].shape} vs {want.shape})')


def _mix_trainer(kind, D):
    if kind.startswith('gmm-'):
        return GMM_.GMMTrainer()
    if kind == 'cacgmm':
        return CACGMM_.CACGMMTrainer()
    if kind == 'cwmm':
        return CWMM_.CWMMTrainer(dimension=D)
    if kind == 'cbmm':
        return CBMM_.CBMMTrainer(dimension=D)
    if kind == 'vmfmm':
        return VMFMM_.VMFMMTrainer()
    raise ValueError(kind)


def _wca(w):
    """JSON-safe weight_constant_axis: 'tuple' -> (-1,), 'list' -> [-1], 'int' -> -1, 'uniform' -> -2"""
    return {'tuple': (-1,), 'list': [-1], 'int': -1, 'uniform': -2}[w]


def _mix_fit(kind, trainer, y, init, saliency, iterations, wca, opts=None):
    kw = dict(initialization=init, iterations=iterations, saliency=saliency, weight_constant_axis=_wca(wca))
    kw.update(opts or {})
    if kind.startswith('gmm-'):
        kw['covariance_type'] = kind.split('-')[1]
    return trainer.fit(y, **kw)


def _mix_parts(kind, m):
    """(weight, component kind, component model)"""
    if kind.startswith('gmm-'):
        return m.weight, 'gauss-' + kind.split('-')[1], m.gaussian
    if kind == 'cacgmm':
        return m.weight, 'cacg', m.cacg
    if kind == 'cwmm':
        return m.weight, 'watson', m.complex_watson
    if kind == 'cbmm':
        return m.weight, 'bingham', m.complex_bingham
    if kind == 'vmfmm':
        return m.weight, 'vmf', m.vmf
    raise ValueError(kind)


def _rebuild(kind, stacked, idx, wca):
    """a stand-alone mixture model object made of the stacked model's fields at leading index `idx`"""
    w, ck, comp = _mix_parts(kind, stacked)
    w = np.asarray(w)
    if wca != 'uniform':
        w = w[tuple(i if w.shape[j] != 1 else 0 for j, i in enumerate(idx))]
    if ck.startswith('gauss-'):
        cm = _make_dist(ck, {'mean': comp.mean[idx], 'covariance': comp.covariance[idx]})
        return GMM_.GMM(weight=w, gaussian=cm)
    if ck == 'cacg':
        cm = _make_dist(ck, {'covariance_eigenvectors': comp.covariance_eigenvectors[idx],
                             'covariance_eigenvalues': comp.covariance_eigenvalues[idx]})
        return CACGMM_.CACGMM(weight=w, cacg=cm)
    if ck == 'watson':
        return CWMM_.CWMM(weight=w, complex_watson=_make_dist(ck, {'mode': comp.mode[idx], 'concentration': comp.concentration[idx]}))
    if ck == 'bingham':
        cm = _make_dist(ck, {'covariance_eigenvectors': comp.covariance_eigenvectors[idx],
                             'covariance_eigenvalues': comp.covariance_eigenvalues[idx]})
        return CBMM_.CBMM(weight=w, complex_bingham=cm)
    if ck == 'vmf':
        return VMFMM_.VMFMM(vmf=_make_dist(ck, {'mean': comp.mean[idx], 'concentration': comp.concentration[idx]}), weight=w)
    raise ValueError(kind)


def _compare_mixtures(kind, stacked, alone, idx, y_stack_pred, y_alone, wca, tol_scale):
    # a Gaussian class collapsed onto duplicated frames has a covariance that IS rounding noise (1e-32 for data of size 1):
    # covariances are compared with an absolute floor of 1e-24 times the squared data scale
    cov_atol = 1e-24 * float(np.max(np.abs(y_alone)) ** 2) if kind.startswith('gmm-') else 0.0
    ws, ck, cs = _mix_parts(kind, stacked)
    wa, _, ca = _mix_parts(kind, alone)
    ws = np.asarray(ws)
    wa = np.asarray(wa)
    if wca == 'uniform':
        if ws.shape != wa.shape or not np.array_equal(ws, wa):
            return 'weight', f'uniform weights differ: {ws.shape} vs {wa.shape}'
    else:
        if ws.ndim != wa.ndim + len(idx):
            return 'weight', f'stacked weight has shape {ws.shape}, stand-alone {wa.shape}'
        bidx = tuple(i if ws.shape[j] != 1 else 0 for j, i in enumerate(idx))
        ok, err = tu.close(ws[bidx], wa, min(RTOL_EM * tol_scale, 1e-2))
        if not ok:
            return 'weight', f'mixture weight at {idx} differs from the stand-alone fit ({err:.3g} relative; {ws[bidx].shape} vs {wa.shape})'
    bad = _compare_fields(ck, cs, ca, idx, loosen=min(100.0 * tol_scale, 1e5), atol=cov_atol)
    if bad:
        return 'component-' + bad[0], bad[1]
    pa = alone.predict(y_alone)
    ok, err = tu.close(np.asarray(y_stack_pred)[idx], pa, 0.0, atol=min((RTOL_SOLVER if kind == 'cbmm' else 1e-6) * tol_scale, 1e-2))
    if not ok:
        return 'predict', f'posterior of the stacked model at {idx} differs from the stand-alone model ({err:.3g}; ' \
                          f'{np.asarray(y_stack_pred)[idx].shape} vs {np.shape(pa)})'
    return None


@oracle
def mixture_slices(kind, y, initialization, saliency, iterations, wca, opts=None):
    """<Mixture>Trainer().fit(stack, per-slice weights) == fit of every slice alone (weights, components, posteriors).

    One iteration (one M-step + E-step) is compared tightly.  For several iterations the E-step of the final stacked
    model is compared tightly against a stand-alone model made of its own fields, and the end-to-end result against the
    stand-alone fit with a tolerance that grows with the conditioning of the fitted covariances (rounding differences of
    1e-16 are amplified by 1/eigenvalue-floor before they reach the next iterate; they are not cross-talk)."""
    lead = y.shape[:-2]
    D = y.shape[-1]
    trainer = _mix_trainer(kind, D)
    alone = {}
    for idx in np.ndindex(*lead):
        try:
            alone[idx] = _mix_fit(kind, trainer, y[idx].copy(order='K'), initialization[idx].copy(order='K'), _take(saliency, idx), iterations, wca, opts)
            alone[idx].predict(y[idx])
        except (AssertionError, np.linalg.LinAlgError, ValueError, FloatingPointError) as e:
            return Skip(f'slice alone raises {type(e).__name__} ({kind})')
    if kind.startswith('gmm-'):
        for idx, m in alone.items():
            cov = np.asarray(m.gaussian.covariance, dtype=float)
            smallest = float(np.min(np.linalg.eigvalsh(cov))) if kind == 'gmm-full' else float(np.min(cov))
            if smallest <= 1e-20 * float(np.max(np.abs(y[idx])) ** 2):
                # a class sitting on duplicated frames: its covariance and everything derived from it is rounding noise
                return Skip('a Gaussian class collapsed onto identical frames (covariance = rounding noise)')
    try:
        stacked = _mix_fit(kind, trainer, y.copy(order='K'), initialization.copy(order='K'), saliency, iterations, wca, opts)
        pred = stacked.predict(y)
    except Exception as e:  # noqa
        return Fail(f'{kind}:stacked-fit-raises-{type(e).__name__}',
                    f'{kind} trainer: every slice fits alone, the stack of leading shape {lead} raises {type(e).__name__}: {e}')
    ck = _mix_parts(kind, stacked)[1]
    for idx in np.ndindex(*lead):
        factor = 1.0 if iterations == 1 else _cond_factor(ck, _mix_parts(kind, alone[idx])[2]) * 10.0 ** (iterations - 1)
        bad = _compare_mixtures(kind, stacked, alone[idx], idx, pred, y[idx], wca, tol_scale=factor)
        if bad:
            return Fail(f'{kind}:{bad[0]}', f'{kind} trainer ({iterations} iterations, weight_constant_axis={_wca(wca)}), '
                        f'leading shape {lead}: {bad[1]} [tolerance factor {factor:.3g}]')
        if iterations > 1:
            try:
                want = _rebuild(kind, stacked, idx, wca).predict(y[idx])
            except (AssertionError, np.linalg.LinAlgError, ValueError, FloatingPointError):
                continue
            ok, err = tu.close(np.asarray(pred)[idx], want, 0.0, atol=1e-8)
            if not ok:
                return Fail(f'{kind}:e-step', f'{kind} ({iterations} iterations), leading shape {lead}: posterior of the stacked model '
                            f'at {idx} differs by {err:.3g} from the posterior of a stand-alone model with the same parameters')


@oracle
def singleton_init_repeated(kind, y, initialization, iterations):
    """an initial affiliation whose leading axes are (partly) singletons behaves like the repeated affiliation"""
    lead = y.shape[:-2]
    D = y.shape[-1]
    full = np.ascontiguousarray(np.broadcast_to(initialization, lead + initialization.shape[-2:]))
    trainer = _mix_trainer(kind, D)
    # cBMM: the bounded least-squares solver inside the M-step is an external whose result reacts to 1-ulp changes of its input
    # at the 1e-3 level (DESIGN.md 2.1): its values are recorded in the reference run and replayed for matching inputs
    tape = ppu.BinghamSolverTape() if kind == 'cbmm' else None
    try:
        with (tape.record() if tape else contextlib.nullcontext()):
            ref = _mix_fit(kind, trainer, y.copy(order='K'), full.copy(order='K'), None, iterations, 'tuple')
        ref_pred = ref.predict(y)
    except (AssertionError, np.linalg.LinAlgError, ValueError, FloatingPointError) as e:
        return Skip(f'repeated affiliation raises {type(e).__name__} ({kind})')
    try:
        with (tape.replay(iterations) if tape else contextlib.nullcontext()):
            got = _mix_fit(kind, trainer, y.copy(order='K'), initialization.copy(order='K'), None, iterations, 'tuple')
        got_pred = got.predict(y)
    except ppu.TapeMismatch as e:
        return Fail('cbmm:singleton-init-scatter-eigenvalues', f'cbmm trainer, singleton initialization: {e}')
    except Exception as e:  # noqa
        return Fail(f'{kind}:singleton-init-raises-{type(e).__name__}',
                    f'{kind} trainer: initialization of shape {initialization.shape} for y {y.shape} raises {type(e).__name__}: {e}')
    wg, ck, cg = _mix_parts(kind, got)
    wr, _, cr = _mix_parts(kind, ref)
    try:
        wgb = np.broadcast_to(wg, np.shape(wr))
    except ValueError:
        return Fail(f'{kind}:singleton-init-weight-shape', f'weight shape {np.shape(wg)} is not broadcastable to {np.shape(wr)}')
    ok, err = tu.close(wgb, wr, RTOL_EM * iterations)
    if not ok:
        return Fail(f'{kind}:singleton-init-weight', f'weights differ from the repeated-affiliation fit by {err:.3g}')
    for idx in np.ndindex(*lead):
        sub_g = _SliceView(ck, cg, idx)
        sub_r = _SliceView(ck, cr, idx)
        for (name, a, c, rtol), (_, b, _, _) in zip(sub_g.fields(), sub_r.fields()):
            ok, err = tu.close(a, b, rtol * 100 * iterations)
            if not ok:
                return Fail(f'{kind}:singleton-init-{name}', f'{kind}: field {name} at {idx} differs from the repeated-affiliation '
                            f'fit ({err:.3g} relative; shapes {np.shape(a)} vs {np.shape(b)})')
    ok, err = tu.close(got_pred, ref_pred, 0.0, atol=(RTOL_SOLVER if kind == 'cbmm' else 1e-6) * iterations)
    if not ok:
        return Fail(f'{kind}:singleton-init-predict', f'posteriors differ from the repeated-affiliation fit by {err:.3g} '
                    f'(shapes {np.shape(got_pred)} vs {np.shape(ref_pred)})')


class _SliceView:
    """fields of a component model at one leading index (all fields of the fitted mixtures have full leading shape)"""

    def __init__(self, kind, model, idx):
        self.kind, self.model, self.idx = kind, model, idx

    def fields(self):
        out = []
        for name, a, c, rtol in _dist_fields(self.kind, self.model):
            out.append((name, np.asarray(a)[self.idx], c, rtol))
        return out


# ----------------------------------------------------------------------------- generators
DEGENERATE = ['none', 'none', 'none', 'zero-frame', 'dup-frames', 'huge-slice', 'tiny-slice', 'equal-slices', 'near-equal-slices']


def _gen_y(rng, kind, lead, N, D, degenerate='none'):
    """observations (lead..., N, D), different content per slice; `degenerate` plants one special slice / frame so that
    cross-talk between a degenerate slice and its neighbours would show"""
    cx = kind in COMPLEX_KINDS or kind in COMPLEX_MIX
    y = tu.slice_contents(rng, lead, (N, D), complex_=cx)
    idx = tuple(int(rng.integers(0, s)) for s in lead)
    if degenerate == 'zero-frame':
        y[idx + (int(rng.integers(0, N)),)] = 0
    elif degenerate == 'dup-frames':
        y[idx] = y[idx + (0,)]
    elif degenerate == 'huge-slice':
        y[idx] *= 1e150
    elif degenerate == 'tiny-slice':
        y[idx] *= 1e-150
    elif degenerate == 'equal-slices':
        y[...] = y[idx]
    elif degenerate == 'near-equal-slices':
        # neighbouring problems that agree to ~6 digits but are not identical (adjacent frequency bins): anything keyed
        # on rounded statistics would share one result between them
        base = y[idx].copy()
        for j in np.ndindex(*lead):
            y[j] = base * (1 + 2e-6 * rng.normal(size=base.shape)) if j != idx else base
    return y


def _gen_saliency(rng, lead, N):
    s = rng.random(tuple(lead) + (N,)) + 0.05
    if rng.random() < 0.3:
        s[..., int(rng.integers(0, N))] = 0.0
    return s


def _gen_params(rng, kind, lead, D):
    """stacked parameters of a component model, different content per slice"""
    lead = tuple(lead)
    if kind == 'gauss-full':
        return {'mean': rng.normal(size=lead + (D,)) * 2, 'covariance': tu.spd(rng, lead, D)}
    if kind == 'gauss-diagonal':
        return {'mean': rng.normal(size=lead + (D,)) * 2, 'covariance': np.exp(rng.normal(size=lead + (D,)))}
    if kind == 'gauss-spherical':
        return {'mean': rng.normal(size=lead + (D,)) * 2, 'covariance': np.exp(rng.normal(size=lead))}
    if kind == 'cgauss':
        return {'covariance': tu.spd(rng, lead, D, complex_=True)}
    if kind == 'vmf':
        m = rng.normal(size=lead + (D,))
        return {'mean': m / np.linalg.norm(m, axis=-1, keepdims=True), 'concentration': np.exp(rng.normal(size=lead) * 1.5)}
    if kind == 'watson':
        m = rng.normal(size=lead + (D,)) + 1j * rng.normal(size=lead + (D,))
        conc = np.exp(rng.normal(size=lead) * 1.5)
        if rng.random() < 0.4 and conc.size > 1:
            # one nearly noise-free slice (concentration up to 650, reachable with max_concentration=650) next to diffuse ones
            conc.reshape(-1)[int(rng.integers(conc.size))] = float(rng.choice([120.0, 480.0, 620.0, 650.0]))
        return {'mode': m / np.linalg.norm(m, axis=-1, keepdims=True), 'concentration': conc}
    if kind == 'cacg':
        ev = np.sort(np.exp(rng.normal(size=lead + (D,))), axis=-1)
        return {'covariance_eigenvectors': tu.unitary(rng, lead, D), 'covariance_eigenvalues': ev / ev[..., -1:]}
    if kind == 'bingham':
        ev = -np.sort(-(rng.random(lead + (D,)) * 5 + 0.1 * np.arange(D)), axis=-1)
        return {'covariance_eigenvectors': tu.unitary(rng, lead, D), 'covariance_eigenvalues': ev - ev[..., :1]}
    raise ValueError(kind)


def _gen_init(rng, lead, K, N):
    a = rng.random(tuple(lead) + (K, N)) + 0.05
    if rng.random() < 0.25:       # hard (one-hot) start with every class populated
        a = np.zeros(tuple(lead) + (K, N))
        for idx in np.ndindex(*lead):
            lab = np.concatenate([np.arange(K), rng.integers(0, K, size=N - K)])
            rng.shuffle(lab)
            a[idx + (lab, np.arange(N))] = 1.0
        a = a * 0.98 + 0.01
    return a / a.sum(-2, keepdims=True)


def _dims(rng, kind):
    cx = kind in COMPLEX_KINDS or kind in COMPLEX_MIX
    if kind in ('bingham', 'cbmm'):
        D = int(rng.integers(2, 5))
    elif cx or kind in ('vmf', 'vmfmm'):
        D = int(rng.integers(2, 5))
    else:
        D = int(rng.integers(1, 5))
    return D


# configurations that exposed the three fixed defects (known_findings.txt): always run first
def _regression_cases(rng):
    out = []
    # eb73118: Diagonal/SphericalGaussian with more than one leading axis (flattened log_det broadcast / raised)
    for kind in ('gauss-diagonal', 'gauss-spherical'):
        for lead in ((2, 3), (3, 1, 2), (4,)):
            D, N = 3, 6
            out.append(('log_pdf', kind, dict(params=_gen_params(rng, kind, lead, D),
                                              y=_gen_y(rng, kind, lead, N, D), layout='plain')))
            K = 2
            out.append(('log_pdf', kind, dict(params=_gen_params(rng, kind, lead + (K,), D),
                                              y=_gen_y(rng, kind, lead + (1,), N, D), layout='class-axis')))
            out.append(('fit', kind, dict(y=_gen_y(rng, kind, lead, N, D), saliency=None)))
    # d40e2c0: DiagonalGaussian.log_pdf with K == D mixed classes silently, raised otherwise
    for lead in ((3,), (2, 2)):
        for K, D in ((3, 3), (2, 3)):
            out.append(('log_pdf', 'gauss-diagonal', dict(params=_gen_params(rng, 'gauss-diagonal', lead + (K,), D),
                                                           y=_gen_y(rng, 'gauss-diagonal', lead + (1,), 5, D),
                                                           layout='class-axis')))
            y = _gen_y(rng, 'gmm-diagonal', lead, 8, D)
            out.append(('mixture', 'gmm-diagonal', dict(y=y, initialization=_gen_init(rng, lead, K, 8), saliency=None,
                                                        iterations=2, wca='tuple')))
    # cf5e8f1: ComplexAngularCentralGaussianTrainer.fit with leading axes (np.ones(*independent, N))
    for lead in ((2,), (1, 3), (2, 1, 2)):
        out.append(('fit', 'cacg', dict(y=_gen_y(rng, 'cacg', lead, 7, 3), saliency=None)))
    return out


def search(ctx):
    rng = ctx.rng
    for what, kind, kw in _regression_cases(rng):
        ctx.count(f'regression-{what}-{kind}')
        if what == 'log_pdf':
            ctx.run(log_pdf_slices, kind=kind, **kw)
        elif what == 'fit':
            ctx.run(trainer_slices, kind=kind, **kw)
        else:
            ctx.run(mixture_slices, kind=kind, **kw)
    quick = ctx.tier == 'quick'
    cap = 30 if quick else 125
    # (1) distribution trainers and log_pdf
    n = ctx.n(30, 900)
    for i in range(n):
        for kind in DIST_KINDS:
            if ctx.out_of_time(reserve=40):
                break
            lead = tu.lead_shape(rng, max_total=cap)
            D = _dims(rng, kind)
            N = int(rng.integers(D + 2, D + 9))
            deg = str(rng.choice(DEGENERATE))
            y = _gen_y(rng, kind, lead, N, D, deg)
            sal = None if (kind == 'cacg' or rng.random() < 0.4) else _gen_saliency(rng, lead, N)
            ctx.count(f'lead-ndim-{len(lead)}')
            ctx.count(f'degenerate-{deg}')
            ctx.count('lead-with-singleton' if 1 in lead else 'lead-without-singleton')
            opts = None
            if kind == 'cacg' and rng.random() < 0.7:
                opts = {'covariance_norm': ['eigenvalue', 'trace', False][int(rng.integers(3))],
                        'eigenvalue_floor': float(rng.choice([1e-10, 1e-2, 0.2]))}
                ctx.count(f'cacg-options:{opts["covariance_norm"]}:{opts["eigenvalue_floor"]}')
            ok = ctx.run(trainer_slices, kind=kind, y=y, saliency=sal, opts=opts)
            if kind == 'cacg':
                # stack of covariance matrices with very different scales and ranks per slice
                cl = tu.lead_shape(rng, max_total=cap)
                A = (rng.normal(size=cl + (D, D)) + 1j * rng.normal(size=cl + (D, D))) \
                    * 10.0 ** rng.uniform(-2, 2, size=cl + (1, 1))
                if rng.random() < 0.5:
                    A[..., :, int(rng.integers(1, D)):] = 0       # rank-deficient slices: the floor clips
                cov = A @ np.conj(np.swapaxes(A, -1, -2))
                ctx.run(from_covariance_slices, covariance=cov,
                        covariance_norm=str(rng.choice(['eigenvalue', 'trace', 'none'])),
                        eigenvalue_floor=float(rng.choice([1e-10, 1e-2, 0.2])))
            if i == 0:
                ctx.sample({'oracle': 'trainer_slices', 'kind': kind, 'lead': list(lead), 'N': N, 'D': D,
                            'saliency': sal is not None, 'held': ok})
            lead = tu.lead_shape(rng, max_total=cap)
            layout = 'plain' if rng.random() < 0.5 else 'class-axis'
            K = int(rng.integers(1, 4))
            if layout == 'plain':
                params = _gen_params(rng, kind, lead, D)
                yy = _gen_y(rng, kind, lead, N, D)
            else:
                params = _gen_params(rng, kind, lead + (K,), D)
                yy = _gen_y(rng, kind, lead + (1,), N, D)
            if kind in ('watson', 'bingham'):      # these log_pdf expect unit-norm observations (no internal normalisation)
                yy = yy / np.linalg.norm(yy, axis=-1, keepdims=True)
            ctx.count(f'log_pdf-{layout}')
            ctx.run(log_pdf_slices, kind=kind, params=params, y=yy, layout=layout)
    # (2) mixture trainers with per-slice weights
    n = ctx.n(14, 400)
    for i in range(n):
        for kind in MIX_KINDS:
            if ctx.out_of_time(reserve=25):
                break
            lead = tu.lead_shape(rng, max_total=12 if quick else 60)
            D = _dims(rng, kind)
            K = int(rng.integers(2, 4))
            N = int(rng.integers(K * (D + 2), K * (D + 2) + 8))
            deg = str(rng.choice(DEGENERATE))
            y = _gen_y(rng, kind, lead, N, D, deg)
            ctx.count(f'mixture-degenerate-{deg}')
            init = _gen_init(rng, lead, K, N)
            sal = None if rng.random() < 0.5 else _gen_saliency(rng, lead, N)
            iterations = int(rng.integers(1, 4))
            wca = str(rng.choice(['tuple', 'tuple', 'int', 'list', 'uniform']))
            ctx.count(f'mixture-{kind}-it{iterations}-{wca}')
            ctx.count(f'mixture-lead-ndim-{len(lead)}')
            mopts = None
            if kind == 'cacgmm' and rng.random() < 0.6:
                mopts = {'covariance_norm': ['eigenvalue', 'trace', False][int(rng.integers(3))],
                         'eigenvalue_floor': float(rng.choice([1e-10, 1e-2]))}
                ctx.count(f'cacgmm-options:{mopts["covariance_norm"]}:{mopts["eigenvalue_floor"]}')
            ok = ctx.run(mixture_slices, kind=kind, y=y, initialization=init, saliency=sal, iterations=iterations, wca=wca,
                         opts=mopts)
            if i == 0:
                ctx.sample({'oracle': 'mixture_slices', 'kind': kind, 'lead': list(lead), 'K': K, 'N': N, 'D': D,
                            'iterations': iterations, 'weight_constant_axis': wca, 'held': ok})
    # (3) singleton leading axes of the initial affiliation
    n = ctx.n(8, 240)
    for i in range(n):
        for kind in MIX_KINDS:
            if ctx.out_of_time(reserve=5):
                break
            lead = tu.lead_shape(rng, max_total=12 if quick else 60, force_singleton=False)
            keep = rng.random(len(lead)) < 0.4
            ilead = tuple(s if k else 1 for s, k in zip(lead, keep))
            D = _dims(rng, kind)
            K = int(rng.integers(2, 4))
            N = int(rng.integers(K * (D + 2), K * (D + 2) + 8))
            y = _gen_y(rng, kind, lead, N, D)
            init = _gen_init(rng, ilead, K, N)
            ctx.count(f'singleton-init-{kind}')
            ctx.run(singleton_init_repeated, kind=kind, y=y, initialization=init, iterations=int(rng.integers(1, 4)))
    # (3b) two leading axes, both larger than one, with the singleton of the initial affiliation BEHIND resp. IN FRONT
    # of a full axis: (a, 1, K, N) and (1, b, K, N) against y of leading shape (a, b) - a flat/cyclic repetition
    # (np.resize instead of np.broadcast_to) is only visible in the first of the two layouts
    for kind in MIX_KINDS:
        for pattern in ('behind', 'front'):
            if ctx.out_of_time(reserve=5):
                break
            a, b = int(rng.integers(2, 4)), int(rng.integers(2, 4))
            ilead = (a, 1) if pattern == 'behind' else (1, b)
            D = _dims(rng, kind)
            K = int(rng.integers(2, 4))
            N = int(rng.integers(K * (D + 2), K * (D + 2) + 6))
            y = _gen_y(rng, kind, (a, b), N, D)
            init = _gen_init(rng, ilead, K, N)
            ctx.count(f'singleton-init-{pattern}-{kind}')
            ctx.run(singleton_init_repeated, kind=kind, y=y, initialization=init, iterations=int(rng.integers(1, 3)))


# ----------------------------------------------------------------------------- correspondence (tensor layer vs NumPy / pb_bss)
LOG2PI = float(np.log(2 * np.pi))


def _rev(xs):
    xs = [int(x) for x in xs][::-1]
    return f'{len(xs)} ' + ' '.join(map(str, xs)) if xs else '0'


def _cmp_tensor(ctx, op, line_out, want, detail, data=None, rtol=1e-9, multi=None, raw=None, canon=None):
    """compare the driver's answer (one tensor, or several separated by '|') with NumPy's.  `raw`: which of the driver's
    tensors are complex (default: as the expected ones); `canon`: gauge removal applied to the driver's tensors first
    (eigenvector phase); `rtol` may be one number or one per output"""
    wants = want if isinstance(want, (list, tuple)) else [want]
    try:
        gots = tu.parse_tensors(line_out, raw if raw is not None else [np.iscomplexobj(w) for w in wants])
        if canon is not None:
            gots = canon(gots)
    except Exception as e:  # noqa
        return ctx.corr(op, False, f'{detail}: unparsable driver answer {line_out[:80]!r} ({e})', data)
    if len(gots) != len(wants):
        return ctx.corr(op, False, f'{detail}: {len(gots)} outputs in the model, {len(wants)} expected', data)
    rtols = rtol if isinstance(rtol, (list, tuple)) else [rtol] * len(wants)
    for i, (g, w, rtol) in enumerate(zip(gots, wants, rtols)):
        w = np.asarray(w, dtype=np.complex128 if np.iscomplexobj(w) else np.float64)
        if g.shape != w.shape:
            return ctx.corr(op, False, f'{detail}: output {i} has shape {g.shape} in the model, {w.shape} in NumPy', data)
        ok, err = tu.close(g, w, rtol)
        if not ok:
            return ctx.corr(op, False, f'{detail}: output {i} differs by {err:.3g} relative (model vs code)', data)
    return ctx.corr(op, True)


def _prim_cases(rng, n):
    """(line, expected ndarray, description) for the primitives of the tensor layer, checked against NumPy"""
    out = []
    for _ in range(n):
        lead = tu.lead_shape(rng, max_total=30)
        c = int(rng.integers(1, 4))
        core = tuple(int(rng.integers(1, 5)) for _ in range(c))
        t = rng.normal(size=lead + core)
        T = tu.ttok(t)
        k = int(rng.integers(0, c))
        which = str(rng.choice(['reduce', 'scan', 'cumprod0', 'expand', 'swap', 'zip', 'bcast', 'flatten', 'fixlead']))
        if which == 'reduce':
            fn = str(rng.choice(['sum', 'mean', 'amax']))
            keep = bool(rng.integers(0, 2))
            want = {'sum': np.sum, 'mean': np.mean, 'amax': np.amax}[fn](t, axis=-(k + 1), keepdims=keep)
            out.append((f'reduce {fn} {k} {int(keep)} {T}', want, f'np.{fn}(axis=-{k + 1}, keepdims={keep}) on shape {t.shape}'))
        elif which == 'scan':
            fn = str(rng.choice(['cumsum', 'cumprod']))
            want = getattr(np, fn)(t, axis=-(k + 1))
            out.append((f'scan {fn} {k} {T}', want, f'np.{fn}(axis=-{k + 1}) on shape {t.shape}'))
        elif which == 'cumprod0':
            ax = int(rng.integers(0, t.ndim))
            out.append((f'scan cumprod0 {ax} {T}', np.cumprod(t, axis=ax), f'np.cumprod(axis={ax}) (non-negative) on shape {t.shape}'))
        elif which == 'expand':
            kk = int(rng.integers(0, c + 1))
            out.append((f'expand {kk} {T}', np.expand_dims(t, t.ndim - kk), f'expand_dims at -{kk + 1} on shape {t.shape}'))
        elif which == 'swap':
            i, j = int(rng.integers(0, c)), int(rng.integers(0, c))
            out.append((f'swap {i} {j} {T}', np.swapaxes(t, -(i + 1), -(j + 1)), f'swapaxes(-{i + 1}, -{j + 1}) on shape {t.shape}'))
        elif which == 'zip':
            fn = str(rng.choice(['add', 'sub', 'mul', 'div']))
            # second operand: leading axes partly singleton / fewer leading axes / singleton core axes
            bl = tuple(s if rng.random() < 0.5 else 1 for s in lead)
            bl = bl[int(rng.integers(0, len(bl) + 1)):]
            bc = tuple(s if rng.random() < 0.6 else 1 for s in core)
            b = rng.normal(size=bl + bc) + 3.0
            want = {'add': np.add, 'sub': np.subtract, 'mul': np.multiply, 'div': np.divide}[fn](t, b)
            if rng.random() < 0.5:
                out.append((f'zip {fn} {T} {tu.ttok(b)}', want, f'{fn} with broadcasting {t.shape} x {b.shape}'))
            else:
                want = {'add': np.add, 'sub': np.subtract, 'mul': np.multiply, 'div': np.divide}[fn](b, t + 5.0)
                out.append((f'zip {fn} {tu.ttok(b)} {tu.ttok(t + 5.0)}', want, f'{fn} with broadcasting {b.shape} x {t.shape}'))
        elif which == 'bcast':
            sl = tuple(s if rng.random() < 0.5 else 1 for s in lead)
            src = rng.normal(size=sl + core)
            out.append((f'bcast {c} {_rev(lead)} {tu.ttok(src)}', np.broadcast_to(src, lead + core),
                        f'broadcast_to {src.shape} -> {lead + core}'))
        elif which == 'flatten':
            f = np.reshape(t, (-1,) + core)
            out.append((f'flatten {c} {T}', f, f'reshape(-1, *core) of {t.shape}'))
            out.append((f'unflatten {c} {_rev(lead)} {tu.ttok(f)}', t, f'reshape back {f.shape} -> {t.shape}'))
        else:
            idx = tuple(int(rng.integers(0, s)) for s in lead)
            out.append((f'fixlead {c} {_rev(idx)} {T}', t[idx], f'fixLead == NumPy indexing t[{idx}] on shape {t.shape}'))
    return out


class _guarded:
    """a crash of the real code inside one correspondence case is recorded as a disagreement of that case only"""

    def __init__(self, ctx, op):
        self.ctx, self.op = ctx, op

    def __enter__(self):
        return self

    def __exit__(self, et, ev, tb):
        if et is not None and issubclass(et, ValueError) and 'ill-defined empirical covariance' in str(ev):
            # sklearn's explicit refusal of a numerically singular class covariance (a class collapsed during EM on the
            # random data of this case): an allowed answer, there is nothing to compare with the model
            self.ctx.count(f'corr-case-rejected-by-code:{self.op}:singular-covariance')
            return True
        if et is not None and issubclass(et, Exception):
            import traceback
            self.ctx.corr(self.op, False, 'the real code raised while preparing the case: ' +
                          ''.join(traceback.format_exception(et, ev, tb, limit=4))[-600:])
            return True
        return False


class _Capture:
    """observe the argument an internal call receives (the externals are wrapped, not replaced)"""

    def __init__(self, owner, name, pick=lambda a, k: a[0]):
        self.owner, self.name, self.pick = owner, name, pick
        self.seen = []

    def __enter__(self):
        self.raw = self.owner.__dict__[self.name]          # the descriptor itself (classmethod / function)
        self.orig = getattr(self.owner, self.name)
        orig, seen, pick = self.orig, self.seen, self.pick

        def wrapper(*a, **k):
            seen.append(pick(a, k))
            return orig(*a, **k)
        setattr(self.owner, self.name, wrapper)
        return self

    def __exit__(self, *exc):
        setattr(self.owner, self.name, self.raw)


TINY = float(np.finfo(np.float64).tiny)


def _unit(y):
    return y / np.linalg.norm(y, axis=-1, keepdims=True)



def _corr_directional(ctx, rng, add, cap):
    """vMF, scatter matrices (complex Gaussian / Watson / Bingham), Watson / Bingham / cACG log_pdf, cACG trainer pieces"""
    T = tu.ttok

    def TC(x):
        return tu.ttok(x, complex_=True)
    for i in range(ctx.n(25, 300)):
        with _guarded(ctx, 'directional models'):
            lead = tu.lead_shape(rng, max_total=cap)
            D, N = int(rng.integers(2, 4)), int(rng.integers(3, 7))
            layout = str(rng.choice(['plain', 'plain-nosal', 'class-axis']))
            K = int(rng.integers(1, 4))
            # --- vMF
            if layout == 'class-axis':
                y = _unit(tu.slice_contents(rng, lead + (1,), (N, D)))
                sal = _gen_init(rng, lead, K, max(N, K))[..., :N] * _gen_saliency(rng, lead, N)[..., None, :]
            else:
                y = _unit(tu.slice_contents(rng, lead, (N, D)))
                sal = None if layout == 'plain-nosal' else _gen_saliency(rng, lead, N)
            m = VMF_.VonMisesFisherTrainer()._fit(y, saliency=sal, min_concentration=1e-10, max_concentration=500)
            add('VonMisesFisherTrainer._fit', f'vmffit {int(sal is not None)} {tu.fbits([TINY, 1e-10, 500.0])} {T(y)}' +
                (f' {T(sal)}' if sal is not None else ''), [m.mean, m.concentration], f'{layout}, y {y.shape}', {'y': y}, rtol=1e-8)
            pl = lead if layout != 'class-axis' else lead + (K,)
            p = _gen_params(rng, 'vmf', pl, D)
            m = _make_dist('vmf', p)
            yy = tu.slice_contents(rng, lead + ((1,) if layout == 'class-axis' else ()), (N, D))
            add('VonMisesFisher.log_pdf', f'vmflogpdf {tu.fbits([TINY])} {T(m.mean)} {T(m.concentration)} {T(m.log_norm())} {T(yy)}',
                m.log_pdf(yy), f'{layout}, y {yy.shape}', {'y': yy, **p}, rtol=1e-8)
            # --- scatter matrices
            if layout == 'class-axis':
                yc = tu.slice_contents(rng, lead + (1,), (N, D), complex_=True)
            else:
                yc = tu.slice_contents(rng, lead, (N, D), complex_=True)
            mg = CG_.ComplexCircularSymmetricGaussianTrainer()._fit(yc, saliency=sal, covariance_type='full')
            add('ComplexCircularSymmetricGaussianTrainer._fit', f'scatter 1 {int(sal is not None)} {TC(yc)}' +
                (f' {T(sal)}' if sal is not None else ''), mg.covariance, f'{layout}, y {yc.shape}', {'y': yc}, rtol=1e-8)
            yu = _unit(yc)
            with _Capture(CW_, 'get_pca') as capw:
                CW_.ComplexWatsonTrainer(dimension=D)._fit(yu, saliency=sal)
            add('ComplexWatsonTrainer._fit[covariance]', f'scatter 0 {int(sal is not None)} {TC(yu)}' +
                (f' {T(sal)}' if sal is not None else ''), capw.seen[0], f'{layout}, y {yu.shape} (argument of get_pca)', {'y': yu},
                rtol=1e-8)
            # --- Watson / Bingham / cACG log_pdf
            p = _gen_params(rng, 'watson', pl, D)
            m = _make_dist('watson', p)
            add('ComplexWatson.log_pdf', f'watsonlogpdf {TC(m.mode)} {T(m.concentration)} {T(m.log_norm())} {TC(yu)}',
                m.log_pdf(yu), f'{layout}, y {yu.shape}', {'y': yu}, rtol=1e-8)
            p = _gen_params(rng, 'bingham', pl, D)
            m = _make_dist('bingham', p)
            add('ComplexBingham.log_pdf', f'binghamlogpdf {TC(m.covariance_eigenvectors)} {T(m.covariance_eigenvalues)} '
                f'{T(m.log_norm())} {TC(yu)}', m.log_pdf(yu), f'{layout}, y {yu.shape}', {'y': yu}, rtol=1e-7)
            p = _gen_params(rng, 'cacg', pl, D)
            m = _make_dist('cacg', p)
            yn = CACG_.normalize_observation(yc)
            add('cacg.normalize_observation', f'cacgnorm {TC(yc)}', yn, f'y {yc.shape}', {'y': yc})
            lp, q = m._log_pdf(yn)
            add('ComplexAngularCentralGaussian._log_pdf', f'cacglogpdf {TC(m.covariance_eigenvectors)} {T(m.covariance_eigenvalues)} {TC(yn)}',
                [lp, q], f'{layout}, y {yn.shape}', {'y': yn}, rtol=1e-8)
            # --- cACG trainer: covariance handed to from_covariance, eigenvalue post-processing, start value of fit
            qf = rng.random((lead + (K,) if layout == 'class-axis' else lead) + (N,)) + 0.1
            herm = bool(rng.integers(0, 2))
            floor = float(rng.choice([1e-10, 1e-3, 0.0]))
            with _Capture(CACG_.ComplexAngularCentralGaussian, 'from_covariance') as capc, \
                    _Capture(np.linalg, 'eigh') as cape:
                got = CACG_.ComplexAngularCentralGaussianTrainer()._fit(yn, saliency=sal, quadratic_form=qf, hermitize=herm,
                                                                        eigenvalue_floor=floor)
            add('ComplexAngularCentralGaussianTrainer._fit[covariance]', f'cacgcov {int(herm)} {int(sal is not None)} {TC(yn)}' +
                (f' {T(sal)}' if sal is not None else '') + f' {T(qf)}', capc.seen[0], f'{layout}, y {yn.shape}, hermitize={herm}',
                {'y': yn}, rtol=1e-8)
            raw = np.linalg.eigh(cape.seen[0])[0]
            add('from_covariance[eigenvalue]', f'cacgeig {tu.fbits([floor])} {T(raw)}', got.covariance_eigenvalues,
                f'eigenvalues {raw.shape}, floor {floor}', {'eigenvalues': raw})
            if layout != 'class-axis':
                with _Capture(CACG_.ComplexAngularCentralGaussianTrainer, '_fit', pick=lambda a, k: k['quadratic_form']) as capq:
                    CACG_.ComplexAngularCentralGaussianTrainer().fit(yc, iterations=1)
                add('ComplexAngularCentralGaussianTrainer.fit[start]', f'cacgstart {TC(yc)}', capq.seen[0], f'y {yc.shape}')
            ctx.count(f'corr-directional-{layout}')


class _CaptureIO:
    """observe argument AND result of an internal call (the external is wrapped, not replaced)"""

    def __init__(self, owner, name, pick=lambda a, k: a[0]):
        self.owner, self.name, self.pick = owner, name, pick
        self.seen = []

    def __enter__(self):
        self.raw = self.owner.__dict__[self.name]
        self.orig = getattr(self.owner, self.name)
        orig, seen, pick = self.orig, self.seen, self.pick

        def wrapper(*a, **k):
            r = orig(*a, **k)
            seen.append((np.array(pick(a, k), dtype=np.float64, copy=True), np.array(r, dtype=np.float64, copy=True)))
            return r
        setattr(self.owner, self.name, wrapper)
        return self

    def __exit__(self, *exc):
        setattr(self.owner, self.name, self.raw)

    def table(self):
        """the graph of the external on the points the real call evaluated: (keys, values), both flat"""
        if not self.seen:
            return np.zeros(0), np.zeros(0)
        return (np.concatenate([np.ravel(k) for k, _ in self.seen]), np.concatenate([np.ravel(v) for _, v in self.seen]))


def _top_gap(covs):
    """smallest relative gap between the two largest eigenvalues over all matrices (conditioning of the principal vector)"""
    g = 1.0
    for c in covs:
        ev = np.linalg.eigvalsh(np.asarray(c))
        g = min(g, float(np.min((ev[..., -1] - ev[..., -2]) / np.maximum(np.abs(ev[..., -1]), 1e-300))))
    return g


def _em_case(rng, tiny_case, cx):
    """stacked inputs of one mixture-trainer case: 1..3 problems on 1..2 leading axes (incl. singleton axes), K 2..3"""
    if tiny_case:
        lead = tu.lead_shape(rng, max_total=2)
        K, D = 2, 2
        N = int(rng.integers(3, 5))
    else:
        lead = tu.lead_shape(rng, max_total=3)
        K, D = int(rng.integers(2, 4)), int(rng.integers(2, 4))
        N = int(rng.integers(max(K, D) + 2, max(K, D) + 6))
    y = tu.slice_contents(rng, lead, (N, D), complex_=cx)
    init = _gen_init(rng, lead, K, N)
    sal = _gen_saliency(rng, lead, N) if rng.random() < 0.5 else None
    return lead, K, D, N, y, init, sal


def _corr_em_mixtures(ctx, rng, add):
    """M-step, E-step and the (n+1)-iteration fit of VMFMMTrainer / CWMMTrainer / CACGMMTrainer on stacked inputs against
    vmfmm* / cwmm* / cacgmm* of Model/TensorEm.lean.  Externals: eigh = the driver's Jacobi routine (compared gauge-free:
    projector of the Watson mode, U diag(l) U^H of the cACG); log_norm (ive / hyp1f1) and the Watson concentration spline
    = the values of the REAL calls, handed over as (argument, value) tables read at the nearest argument."""
    T = tu.ttok
    fb = tu.fbits

    def TC(x):
        return tu.ttok(x, complex_=True)

    def opt(x):
        return f' {T(x)}' if x is not None else ''

    wca = (-1,)
    # ------------------------------------------------------------------ vMF mixture
    for i in range(ctx.n(10, 80)):
        with _guarded(ctx, 'VMFMMTrainer'):
            tiny_case = rng.random() < 0.2
            lead, K, D, N, y, init, sal = _em_case(rng, tiny_case, False)
            yn = y / np.maximum(np.linalg.norm(y, axis=-1, keepdims=True), TINY)
            sal1 = sal if sal is not None else np.ones(lead + (N,))
            tr = VMFMM_.VMFMMTrainer()
            data = {'y': y, 'initialization': init, 'saliency': sal}
            m0 = tr._m_step(yn, affiliation=init, saliency=sal1, weight_constant_axis=wca, min_concentration=1e-10,
                            max_concentration=500)
            add('VMFMMTrainer._m_step', f'vmfmm-mstep {fb([1e-10, 1e-10, 500.0])} {T(yn)} {T(init)} {T(sal1)}',
                [m0.weight, m0.vmf.mean, m0.vmf.concentration], f'y {y.shape}, K={K}', data, rtol=1e-8)
            y2 = tu.slice_contents(rng, lead, (N, D))
            add('VMFMM.predict', f'vmfmm-predict {T(np.ravel(m0.vmf.concentration))} {T(np.ravel(m0.vmf.log_norm()))} '
                f'{T(m0.weight)} {T(m0.vmf.mean)} {T(m0.vmf.concentration)} {T(y2)}', m0.predict(y2),
                f'model of one M-step, y {y2.shape}, K={K}', {**data, 'y2': y2}, rtol=1e-8)
            n = int(rng.integers(0, 2)) if tiny_case else int(rng.integers(0, 3))
            with _CaptureIO(VMF_.VonMisesFisher, 'log_norm', pick=lambda a, k: a[0].concentration) as capl:
                m = VMFMM_.VMFMMTrainer().fit(y.copy(), initialization=init.copy(), iterations=n + 1,
                                              saliency=None if sal is None else sal.copy())
                post = m.predict(y)
            keys, vals = capl.table()
            args = (f'{n} {int(sal is not None)} {fb([1e-10, 1e-10, 500.0])} {T(keys)} {T(vals)} {T(y)} {T(init)}' + opt(sal))
            tol = 1e-8 * 10.0 ** n
            fields = [m.weight, m.vmf.mean, m.vmf.concentration]
            add('VMFMMTrainer.fit', 'vmfmm-fit ' + args, fields + [post], f'{n + 1} iterations, y {y.shape}, K={K}', data, rtol=tol)
            if tiny_case:
                add('vmfmmTrainerFit-recursive', 'vmfmm-fit-direct ' + args, fields, f'{n + 1} iterations, y {y.shape}, K={K}',
                    data, rtol=tol)
            ctx.count(f'corr-vmfmm-it{n + 1}')
    # ------------------------------------------------------------------ complex Watson mixture
    for i in range(ctx.n(10, 80)):
        with _guarded(ctx, 'CWMMTrainer'):
            tiny_case = rng.random() < 0.2
            lead, K, D, N, y, init, sal = _em_case(rng, tiny_case, True)
            yn = CW_.normalize_observation(y)
            data = {'y': y, 'initialization': init, 'saliency': sal}

            def canon_w(g):
                return [g[0], tu.projector(g[1])] + list(g[2:])
            with _CaptureIO(CW_.ComplexWatsonTrainer, 'hypergeometric_ratio_inverse', pick=lambda a, k: a[1]) as capk, \
                    _Capture(CW_, 'get_pca') as capp:
                m0 = CWMM_.CWMMTrainer(dimension=D)._m_step(yn, affiliation=init, saliency=sal, weight_constant_axis=wca)
            gap = _top_gap(capp.seen)
            if gap < 1e-4:
                ctx.count('corr-cwmm-skipped:principal-eigenvalue-not-separated')
                continue
            kk, kv = capk.table()
            w0 = m0.complex_watson
            add('CWMMTrainer._m_step', f'cwmm-mstep {int(sal is not None)} {fb([1e-10])} {T(kk)} {T(kv)} {TC(yn)} {T(init)}' + opt(sal),
                [m0.weight, tu.projector(w0.mode), w0.concentration], f'y {y.shape}, K={K}, eigen-gap {gap:.2g}', data,
                rtol=[1e-8, 1e-9 / gap, 1e-7], raw=[False, True, False], canon=canon_w)
            y2 = tu.slice_contents(rng, lead, (N, D), complex_=True)
            add('CWMM.predict', f'cwmm-predict {T(np.ravel(w0.concentration))} {T(np.ravel(w0.log_norm()))} '
                f'{T(m0.weight)} {TC(w0.mode)} {T(w0.concentration)} {TC(y2)}', m0.predict(y2),
                f'model of one M-step, y {y2.shape}, K={K}', {**data, 'y2': y2}, rtol=1e-8)
            n = int(rng.integers(0, 2)) if tiny_case else int(rng.integers(0, 3))
            with _CaptureIO(CW_.ComplexWatsonTrainer, 'hypergeometric_ratio_inverse', pick=lambda a, k: a[1]) as capk, \
                    _CaptureIO(CW_.ComplexWatson, 'log_norm', pick=lambda a, k: a[0].concentration) as capl, \
                    _Capture(CW_, 'get_pca') as capp:
                m = CWMM_.CWMMTrainer().fit(y.copy(), initialization=init.copy(), iterations=n + 1,
                                            saliency=None if sal is None else sal.copy())
                post = m.predict(y)
            gap = _top_gap(capp.seen)
            if gap < 1e-4:
                ctx.count('corr-cwmm-skipped:principal-eigenvalue-not-separated')
                continue
            kk, kv = capk.table()
            lk, lv = capl.table()
            args = (f'{n} {int(sal is not None)} {fb([1e-10])} {T(kk)} {T(kv)} {T(lk)} {T(lv)} {TC(y)} {T(init)}' + opt(sal))
            tol = 1e-8 * 10.0 ** n / gap
            w = m.complex_watson
            fields = [m.weight, tu.projector(w.mode), w.concentration]
            add('CWMMTrainer.fit', 'cwmm-fit ' + args, fields + [post, np.array(1.0)],
                f'{n + 1} iterations, y {y.shape}, K={K}, eigen-gap {gap:.2g}', data, rtol=min(tol, 1e-4),
                raw=[False, True, False, False, False], canon=canon_w)
            if tiny_case:
                add('cwmmTrainerFit-recursive', 'cwmm-fit-direct ' + args, fields, f'{n + 1} iterations, y {y.shape}, K={K}',
                    data, rtol=min(tol, 1e-4), raw=[False, True, False], canon=canon_w)
            ctx.count(f'corr-cwmm-it{n + 1}')
    # ------------------------------------------------------------------ complex angular central Gaussian mixture
    for i in range(ctx.n(10, 80)):
        with _guarded(ctx, 'CACGMMTrainer'):
            tiny_case = rng.random() < 0.2
            lead, K, D, N, y, init, sal = _em_case(rng, tiny_case, True)
            yn = CACG_.normalize_observation(y)                      # (..., D, N)
            herm = bool(rng.integers(0, 2))
            floor = float(rng.choice([1e-10, 1e-3]))
            eps = float(rng.choice([1e-10, 1e-10, 0.0]))
            data = {'y': y, 'initialization': init, 'saliency': sal, 'hermitize': herm, 'eigenvalue_floor': floor,
                    'affiliation_eps': eps}

            def canon_c(g):
                return [g[0], tu.reconstruct(g[1], g[2])] + list(g[2:])

            def fields_of(mm):
                c = mm.cacg
                return [mm.weight, tu.reconstruct(c.covariance_eigenvectors, c.covariance_eigenvalues), c.covariance_eigenvalues]

            def cond_of(mm):
                return float(1.0 / max(float(np.min(mm.cacg.covariance_eigenvalues)), 1e-300))
            q0 = rng.random(lead + (K, N)) + 0.1
            m0 = CACGMM_.CACGMMTrainer()._m_step(yn, q0, affiliation=init, saliency=sal, hermitize=herm,
                                                 covariance_norm='eigenvalue', eigenvalue_floor=floor, weight_constant_axis=wca)
            add('CACGMMTrainer._m_step', f'cacgmm-mstep {int(herm)} {int(sal is not None)} {fb([1e-10, floor])} {TC(yn)} {T(q0)} {T(init)}'
                + opt(sal), fields_of(m0), f'y {y.shape}, K={K}, hermitize={herm}, floor={floor}', data,
                rtol=[1e-8, 1e-8, min(1e-8 * max(1.0, 1e-6 * cond_of(m0)), 1e-4)], raw=[False, True, False], canon=canon_c)
            y2 = CACG_.normalize_observation(tu.slice_contents(rng, lead, (N, D), complex_=True))
            a2, q2, _ = m0._predict(y2, affiliation_eps=eps)
            c0 = m0.cacg
            add('CACGMM._predict', f'cacgmm-predict {int(eps != 0)} {fb([eps])} {T(m0.weight)} {TC(c0.covariance_eigenvectors)} '
                f'{T(c0.covariance_eigenvalues)} {TC(y2)}', [a2, q2], f'model of one M-step, y {y2.shape}, K={K}, eps={eps}',
                {**data, 'y2': y2}, rtol=min(1e-9 * max(1.0, cond_of(m0)), 1e-4))
            if tiny_case:
                # the loop body `cacgmmStep` as defined (E-step then M-step, nothing stored in between) from the code's own model
                a1, q1, _ = m0._predict(yn, affiliation_eps=eps)
                m1 = CACGMM_.CACGMMTrainer()._m_step(yn, q1, affiliation=a1, saliency=sal, hermitize=herm,
                                                     covariance_norm='eigenvalue', eigenvalue_floor=floor, weight_constant_axis=wca)
                c1 = max(cond_of(m0), cond_of(m1))
                add('CACGMMTrainer.fit[loop body]', f'cacgmm-step {int(herm)} {int(sal is not None)} {int(eps != 0)} '
                    f'{fb([eps, 1e-10, floor])} {T(m0.weight)} {TC(c0.covariance_eigenvectors)} {T(c0.covariance_eigenvalues)} {TC(yn)}'
                    + opt(sal), fields_of(m1), f'y {y.shape}, K={K}, hermitize={herm}, floor={floor}, eps={eps}', data,
                    rtol=min(1e-8 * max(1.0, c1), 1e-4), raw=[False, True, False], canon=canon_c)
            # (the function-valued recursion `cacgmmTrainerFit` itself is affordable for ONE iteration only: 20..160 s for two)
            n = 0 if tiny_case else int(rng.integers(0, 3))
            init_b = init
            if rng.random() < 0.3:          # singleton leading axes of the initial affiliation (np.broadcast_to in fit)
                keep = tuple(slice(0, 1) if rng.random() < 0.6 else slice(None) for _ in lead)
                init_b = np.ascontiguousarray(init[keep])
                ctx.count('corr-cacgmm-singleton-init')
            m = CACGMM_.CACGMMTrainer().fit(y.copy(), initialization=init_b.copy(), iterations=n + 1,
                                            saliency=None if sal is None else sal.copy(), hermitize=herm,
                                            eigenvalue_floor=floor, affiliation_eps=eps)
            post, qf = m.predict(y, return_quadratic_form=True)
            cond = cond_of(m)
            args = (f'{n} {int(herm)} {int(sal is not None)} {int(eps != 0)} {fb([eps, 1e-10, floor])} {TC(y)} {T(init_b)}' + opt(sal))
            tol = min(1e-8 * 10.0 ** n * max(1.0, cond), 1e-4)
            add('CACGMMTrainer.fit', 'cacgmm-fit ' + args, fields_of(m) + [post, qf],
                f'{n + 1} iterations, y {y.shape}, init {init_b.shape}, K={K}, hermitize={herm}, floor={floor}, eps={eps}, '
                f'1/min eigenvalue {cond:.2g}', {**data, 'initialization': init_b}, rtol=tol,
                raw=[False, True, False, False, False], canon=canon_c)
            if tiny_case:
                add('cacgmmTrainerFit-recursive', 'cacgmm-fit-direct ' + args, fields_of(m),
                    f'{n + 1} iterations, y {y.shape}, init {init_b.shape}, K={K}', {**data, 'initialization': init_b}, rtol=tol,
                    raw=[False, True, False], canon=canon_c)
            ctx.count(f'corr-cacgmm-it{n + 1}')


def corr(ctx):
    rng = ctx.rng
    lines, metas = [], []

    def add(op, line, want, detail, data=None, rtol=1e-9, raw=None, canon=None):
        lines.append(line)
        metas.append((op, want, detail, data, rtol, raw, canon))

    # (1) primitives against NumPy
    for line, want, desc in _prim_cases(rng, ctx.n(150, 3000)):
        add('primitive:' + line.split()[0] + ('-' + line.split()[1] if line.split()[0] in ('reduce', 'scan', 'zip') else ''),
            line, want, desc)
    cap = 20 if ctx.tier == 'quick' else 60
    # (2) shared posterior routine with broadcast weights
    for i in range(ctx.n(40, 600)):
        with _guarded(ctx, 'log_pdf_to_affiliation'):
            lead = tu.lead_shape(rng, max_total=cap)
            K, N = int(rng.integers(1, 5)), int(rng.integers(1, 7))
            lp = rng.normal(size=lead + (K, N)) * float(rng.choice([1.0, 30.0, 300.0]))
            wkind = str(rng.choice(['per-slice', 'global', 'singleton-lead', 'per-observation']))
            if wkind == 'per-slice':
                w = rng.random(lead + (K, 1)) + 0.05
            elif wkind == 'global':
                w = rng.random((K, 1)) + 0.05
            elif wkind == 'singleton-lead':
                w = rng.random(tuple(s if rng.random() < 0.5 else 1 for s in lead) + (K, 1)) + 0.05
            else:
                w = rng.random(lead + (K, N)) + 0.05
            w = w / w.sum(-2, keepdims=True)
            has_mask = rng.random() < 0.3
            mask = (rng.random(lead + (K, N)) < 0.7) if has_mask else None
            eps = float(rng.choice([0.0, 0.0, 1e-10, 1e-3]))
            want = mmu.log_pdf_to_affiliation(w, lp.copy(order='K'), source_activity_mask=mask, affiliation_eps=eps)
            line = f'affil {int(has_mask)} {int(eps != 0)} {tu.fbits([eps])} {tu.ttok(w)} {tu.ttok(lp)}' + \
                   (f' {tu.ttok(mask.astype(float))}' if has_mask else '')
            add('log_pdf_to_affiliation', line, want, f'lead {lead}, K={K}, N={N}, weight {wkind} {w.shape}, mask={has_mask}, eps={eps}',
                {'weight': w, 'log_pdf': lp})
            ctx.count(f'corr-affil-weight-{wkind}')
    # (3) estimate_mixture_weight, weight_constant_axis=(-1,)
    for i in range(ctx.n(30, 400)):
        with _guarded(ctx, 'estimate_mixture_weight'):
            lead = tu.lead_shape(rng, max_total=cap)
            K, N = int(rng.integers(1, 5)), int(rng.integers(1, 7))
            aff = _gen_init(rng, lead, K, max(N, K))
            N = aff.shape[-1]
            has_sal = rng.random() < 0.6
            sal = _gen_saliency(rng, lead, N) if has_sal else None
            if has_sal and rng.random() < 0.2:
                sal[(0,) * len(lead)] = 0.0          # all-zero saliency in one slice: the 'where' branch of _unit_norm
            want = mmu.estimate_mixture_weight(aff, sal, (-1,))
            line = f'emw {int(has_sal)} {tu.fbits([1e-10])} {tu.ttok(aff)}' + (f' {tu.ttok(sal)}' if has_sal else '')
            add('estimate_mixture_weight', line, want, f'lead {lead}, K={K}, N={N}, saliency={has_sal}', {'affiliation': aff})
    # (4) GaussianTrainer._fit, stand-alone layout and mixture layout (class axis)
    for i in range(ctx.n(45, 600)):
        with _guarded(ctx, 'GaussianTrainer._fit'):
            lead = tu.lead_shape(rng, max_total=cap)
            ct = str(rng.choice(['full', 'diagonal', 'spherical']))
            D = int(rng.integers(1, 4))
            N = int(rng.integers(D + 2, D + 7))       # the returned model Cholesky-factorises the covariance
            layout = str(rng.choice(['plain', 'plain-nosal', 'class-axis']))
            if layout == 'class-axis':
                K = int(rng.integers(1, 4))
                y = tu.slice_contents(rng, lead + (1,), (N, D))
                sal = _gen_init(rng, lead, K, max(N, K))[..., :N] * _gen_saliency(rng, lead, N)[..., None, :]
            else:
                y = tu.slice_contents(rng, lead, (N, D))
                sal = None if layout == 'plain-nosal' else _gen_saliency(rng, lead, N)
            m = G.GaussianTrainer()._fit(y.copy(order='K'), saliency=sal, covariance_type=ct)
            line = f'gfit {ct} {int(sal is not None)} {tu.ttok(y)}' + (f' {tu.ttok(sal)}' if sal is not None else '')
            add(f'GaussianTrainer._fit[{ct}]', line, [m.mean, m.covariance], f'{ct}, {layout}, y {y.shape}', {'y': y, 'saliency': sal},
                rtol=1e-8)
            ctx.count(f'corr-gfit-{ct}-{layout}')
    # (5) the three log_pdf
    for i in range(ctx.n(45, 600)):
        with _guarded(ctx, 'Gaussian log_pdf'):
            lead = tu.lead_shape(rng, max_total=cap)
            ct = str(rng.choice(['full', 'diagonal', 'spherical']))
            kind = 'gauss-' + ct
            D, N = int(rng.integers(1, 4)), int(rng.integers(1, 6))
            layout = str(rng.choice(['plain', 'class-axis']))
            if layout == 'plain':
                p = _gen_params(rng, kind, lead, D)
                y = tu.slice_contents(rng, lead, (N, D))
            else:
                K = int(rng.integers(1, 4))
                p = _gen_params(rng, kind, lead + (K,), D)
                y = tu.slice_contents(rng, lead + (1,), (N, D))
            m = _make_dist(kind, p)
            want = m.log_pdf(y)
            line = (f'glogpdf {ct} {tu.fbits([LOG2PI])} {tu.ttok(m.mean)} {tu.ttok(m.precision_cholesky)} '
                    f'{tu.ttok(m.log_det_precision_cholesky)} {tu.ttok(y)}')
            add(f'{type(m).__name__}.log_pdf', line, want, f'{layout}, mean {m.mean.shape}, y {y.shape}', {'y': y, **p}, rtol=1e-8)
            ctx.count(f'corr-logpdf-{ct}-{layout}')
    # (6) __post_init__ reshapes
    for i in range(ctx.n(30, 400)):
        with _guarded(ctx, 'Gaussian __post_init__'):
            lead = tu.lead_shape(rng, max_total=cap)
            if rng.random() < 0.3:
                lead = ()
            ct = str(rng.choice(['full', 'diagonal', 'spherical']))
            kind = 'gauss-' + ct
            D = int(rng.integers(1, 4))
            p = _gen_params(rng, kind, lead, D)
            m = _make_dist(kind, p)
            line = f'postinit {ct} {D} {tu.ttok(p["covariance"])}'
            add(f'{type(m).__name__}.__post_init__', line, [m.precision_cholesky, m.log_det_precision_cholesky],
                f'covariance {np.shape(p["covariance"])}', p, rtol=1e-8)
    _corr_directional(ctx, rng, add, cap)
    # (7) the EM loop of the GMM trainer (gmmFit): n + 1 iterations, state stored per step; the recursive definition itself
    #     for n <= 1; the driver also reports whether the hypothesis GoodLead of gmmFit_slices held on the executed shapes
    for i in range(ctx.n(24, 120)):
        with _guarded(ctx, 'GMMTrainer.fit'):
            ct = str(rng.choice(['full', 'diagonal', 'spherical']))
            n = int(rng.integers(0, 3))
            tiny_case = rng.random() < 0.15          # small enough for the function-valued recursion `gmmFit` itself
            if tiny_case:
                lead = tu.lead_shape(rng, max_total=2)
                D, K, n = 1, int(rng.integers(1, 3)), int(rng.integers(0, 2))
                N = K + 2
            else:
                lead = tu.lead_shape(rng, max_total=8 if ctx.tier == 'quick' else 12)
                D, K = int(rng.integers(1, 4)), int(rng.integers(1, 4))
                N = int(rng.integers(K * (D + 2), K * (D + 2) + 5))
            direct = tiny_case or (n == 0 and rng.random() < 0.3)
            y = tu.slice_contents(rng, lead, (N, D))
            init = _gen_init(rng, lead, K, N)
            sal = np.ones(lead + (N,)) if rng.random() < 0.5 else _gen_saliency(rng, lead, N)
            m = GMM_.GMMTrainer().fit(y.copy(order='K'), initialization=init.copy(order='K'), iterations=n + 1, saliency=sal,
                                      covariance_type={'full': 'full', 'diagonal': 'diagonal', 'spherical': 'spherical'}[ct])
            g = m.gaussian
            fields = [m.weight, g.mean, g.covariance, g.precision_cholesky, g.log_det_precision_cholesky]
            args = f'{ct} {n} {tu.fbits([1e-10, LOG2PI])} {tu.ttok(y)} {tu.ttok(init)} {tu.ttok(sal)}'
            tol = 1e-8 * 10.0 ** n * max(1.0, float(np.max(np.linalg.cond(g.covariance))) if ct == 'full' else 1.0)
            add(f'GMMTrainer.fit[{ct}]', 'gmmfit ' + args, fields + [m.predict(y), np.array(1.0)],
                f'{n + 1} iterations, y {y.shape}, K={K}', {'y': y, 'initialization': init, 'saliency': sal}, rtol=min(tol, 1e-4))
            if direct:
                add(f'gmmFit-recursive[{ct}]', 'gmmfit-direct ' + args, fields, f'{n + 1} iterations, y {y.shape}, K={K}',
                    {'y': y, 'initialization': init, 'saliency': sal}, rtol=min(tol, 1e-4))
            ctx.count(f'corr-gmmfit-{ct}-it{n + 1}')
    # (8) the EM loops of the directional mixture trainers (vmfmmFit, cwmmFit, cacgmmFit of Model/TensorEm.lean)
    _corr_em_mixtures(ctx, rng, add)
    out = run_driver(lines, exe='driver_tensor')
    for (op, want, detail, data, rtol, raw, canon), o in zip(metas, out):
        _cmp_tensor(ctx, op, o, want, detail, data, rtol=rtol, raw=raw, canon=canon)
    ctx.sample({'corr-op': metas[-1][0], 'detail': metas[-1][2]})

"""C07 - log_pdf of every distribution object is the logarithm of the named, normalised density."""
import math

import numpy as np

from .. import dist_util as du
from ..core import Fail, Skip, oracle
from ..lean import fbits, cbits, parse_floats, run_driver

ID = 'C07'
DRIVERS = ('driver_dist',)
THEOREMS = ['PbBss.C07.' + t for t in [
    'gaussian_full_logPdf', 'gaussian_contract_forces_invertible',
    'gaussian_diag_logPdf', 'gaussian_diag_ofCov', 'gaussian_spherical_logPdf', 'gaussian_spherical_ofCov',
    'gaussians_integrate_to_one', 'gaussian_diag_is_product_density',
    'cgauss_logPdf', 'cgauss_integrates_to_one', 'vmf_logPdf', 'vmf_pdf', 'vmf_D1_sums_to_one', 'watson_logPdf', 'watson_integrates_to_one',
    'bingham_norm_raw', 'bingham_norm', 'bingham_norm_of_gaps', 'bingham_logPdf', 'bingham_sorted', 'bingham_spread_order',
    'bingham_spread_idempotent', 'bingham_spread_moves',
    'cacg_logPdf', 'cacg_spectral', 'cacg_integrates_to_sphere_area',
]]
ASSUMPTIONS = [
    'contracts of the externals, re-checked numerically per run (contract:* correspondence rows): sklearn precision-Cholesky '
    'P upper triangular with P P^T = inv(cov) and log-det = sum log P_ii; slogdet = log|det|; solve residual; '
    'ive(v,k) = I_v(k) exp(-k); hyp1f1(1,D,k) = M(1;D;k); stored eigenvectors unitary',
    'normalisation IS a theorem for the real Gaussians, the complex Gaussian (Lebesgue measure), cACG (sphere area) and complex '
    'Watson (surface measure Measure.toSphere of Lebesgue measure on C^D; mode = column of a unitary matrix; hyp1f1 at its '
    'series value); NOT a theorem (named gap): exp(log_pdf) integrates to one over the sphere for von Mises-Fisher (D >= 2) '
    'and complex Bingham - Mathlib has no Bessel functions; supported by the quadrature oracles on the real code only',
    'Float vs R: rounding is outside the theorems; ComplexBingham.norm cancels catastrophically for clustered eigenvalues '
    '(known finding bingham-norm-cancellation)',
    'vMF/cACG theorems assume a non-zero observation whose norm / quadratic form is above the np.finfo.tiny floor',
]

from pb_bss.distribution.gaussian import Gaussian, DiagonalGaussian, SphericalGaussian  # noqa: E402
from pb_bss.distribution.complex_circular_symmetric_gaussian import ComplexCircularSymmetricGaussian  # noqa: E402
from pb_bss.distribution.von_mises_fisher import VonMisesFisher  # noqa: E402
from pb_bss.distribution.complex_watson import ComplexWatson  # noqa: E402
from pb_bss.distribution.complex_bingham import ComplexBingham  # noqa: E402
from pb_bss.distribution.complex_angular_central_gaussian import ComplexAngularCentralGaussian  # noqa: E402

GAUSS = {'full': Gaussian, 'diagonal': DiagonalGaussian, 'spherical': SphericalGaussian}


# ============================================================================= oracles on the real code
def _lead_iter(lead):
    return list(np.ndindex(*lead)) if len(lead) else [()]


def _close(got, want, rtol, atol):
    got = np.asarray(got, dtype=float)
    want = np.asarray(want, dtype=float)
    if got.shape != want.shape:
        return False, float('inf')
    err = np.abs(got - want)
    lim = atol + rtol * np.abs(want)
    bad = ~(err <= lim)
    return (not bad.any()), float(np.max(err / lim)) if err.size else 0.0


def _pdf_is_exp(pdf, logpdf):
    e = np.exp(logpdf)
    return pdf.shape == e.shape and bool(np.all((pdf == e) | (np.abs(pdf - e) <= 1e-12 * np.abs(e)) | (np.isnan(pdf) & np.isnan(e))))


def _cov_matrix(kind, c, D):
    if kind == 'full':
        return c
    if kind == 'diagonal':
        return np.diag(c)
    return float(c) * np.eye(D)


@oracle
def gaussian_vs_scipy(kind, mean, covariance, y):
    """Gaussian / DiagonalGaussian / SphericalGaussian.log_pdf == scipy.stats.multivariate_normal.logpdf for
    every leading index.  mean (*lead, D); covariance (*lead, D, D) | (*lead, D) | (*lead,); y (*ylead, N, D) with
    ylead broadcastable against lead (the GMM calls it with a broadcast class axis)."""
    D = mean.shape[-1]
    lead = mean.shape[:-1]
    try:
        model = GAUSS[kind](mean=mean.copy(order='K'), covariance=covariance.copy(order='K'))
        got = np.asarray(model.log_pdf(y.copy(order='K')))
    except Exception as e:  # a valid PD covariance with condition <= 1e8 must be accepted
        return Fail(f'{kind}-raises', f'{GAUSS[kind].__name__}(mean{mean.shape}, covariance{covariance.shape})'
                    f'.log_pdf(y{y.shape}) raised {type(e).__name__}: {e}')
    N = y.shape[-2]
    out_shape = np.broadcast_shapes(lead, y.shape[:-2]) + (N,)
    if got.shape != out_shape:
        return Fail(f'{kind}-shape', f'log_pdf shape {got.shape}, expected {out_shape}')
    yb = np.broadcast_to(y, out_shape + (D,))
    mb = np.broadcast_to(mean, out_shape[:-1] + (D,))
    cshape = {'full': (D, D), 'diagonal': (D,), 'spherical': ()}[kind]
    cb = np.broadcast_to(covariance, out_shape[:-1] + cshape)
    for idx in _lead_iter(out_shape[:-1]):
        cm = _cov_matrix(kind, cb[idx], D)
        ev = np.linalg.eigvalsh(cm)
        cond = float(ev[-1] / ev[0])
        if not (ev[0] > 0 and cond <= 1.0001e8):
            return Skip('covariance outside the domain (not PD or condition > 1e8)')
        want = du.ref_gaussian(mb[idx], cm, yb[idx])
        # rounding: the Mahalanobis term carries a relative error ~ cond * eps in any evaluation
        ok, ratio = _close(got[idx], want, rtol=1e-10 + 2e-14 * cond, atol=1e-10)
        if ok:                                   # second, scipy-free evaluation: the textbook closed form
            want = du.ref_gaussian_eig(mb[idx], cm, yb[idx])
            ok, ratio = _close(got[idx], want, rtol=1e-10 + 2e-14 * cond, atol=1e-10)
        if not ok:
            return Fail(f'{kind}-value', f'{GAUSS[kind].__name__}.log_pdf differs from scipy.stats.multivariate_normal '
                        f'at leading index {idx}: got {np.asarray(got[idx]).ravel()[:3]}, want {want.ravel()[:3]} '
                        f'(D={D}, cond={cond:.3g}, error/tolerance={ratio:.3g})')


@oracle
def cgauss_vs_real_composite(covariance, y):
    """ComplexCircularSymmetricGaussian.log_pdf == log density of the equivalent real Gaussian on R^{2D}
    (scipy.stats.multivariate_normal) == -D log pi - log det C - y^H C^-1 y"""
    D = covariance.shape[-1]
    lead = covariance.shape[:-2]
    try:
        got = np.asarray(ComplexCircularSymmetricGaussian(covariance=covariance.copy(order='K')).log_pdf(y.copy(order='K')))
    except Exception as e:
        return Fail('cgauss-raises', f'log_pdf raised {type(e).__name__}: {e}')
    N = y.shape[-2]
    out_shape = np.broadcast_shapes(lead, y.shape[:-2]) + (N,)
    if got.shape != out_shape:
        return Fail('cgauss-shape', f'log_pdf shape {got.shape}, expected {out_shape}')
    yb = np.broadcast_to(y, out_shape + (D,))
    cb = np.broadcast_to(covariance, out_shape[:-1] + (D, D))
    for idx in _lead_iter(out_shape[:-1]):
        ev = np.linalg.eigvalsh(cb[idx])
        cond = float(ev[-1] / ev[0])
        if not (ev[0] > 0 and cond <= 1.0001e8):
            return Skip('covariance outside the domain (not PD or condition > 1e8)')
        try:
            want = du.ref_cgauss(cb[idx], yb[idx])
        except (ValueError, np.linalg.LinAlgError):      # scipy's own singularity test at extreme overall scales
            want = du.ref_cgauss_eig(cb[idx], yb[idx])
        ok, ratio = _close(got[idx], want, rtol=1e-10 + 2e-14 * cond, atol=1e-10)
        if ok:                                   # second evaluation: -D log pi - log det C - y^H C^-1 y by eigh
            want = du.ref_cgauss_eig(cb[idx], yb[idx])
            ok, ratio = _close(got[idx], want, rtol=1e-10 + 2e-14 * cond, atol=1e-10)
        if not ok:
            return Fail('cgauss-value', f'log_pdf differs from the real-composite Gaussian at {idx}: got '
                        f'{np.asarray(got[idx]).ravel()[:3]}, want {want.ravel()[:3]} (D={D}, cond={cond:.3g}, '
                        f'error/tolerance={ratio:.3g})')


@oracle
def vmf_vs_scipy(mean, concentration, y):
    """VonMisesFisher.log_pdf(y) == scipy.stats.vonmises_fisher(mean, kappa).logpdf(y/|y|)
    (D = 1: exp(kappa m x) / (2 cosh kappa) on the two-point sphere)"""
    D = mean.shape[-1]
    lead = mean.shape[:-1]
    try:
        model = VonMisesFisher(mean=mean.copy(order='K'), concentration=concentration.copy(order='K'))
        got = np.asarray(model.log_pdf(y.copy(order='K')))
        pdf = np.asarray(model.pdf(y.copy(order='K')))
    except Exception as e:
        return Fail('vmf-raises', f'log_pdf / pdf raised {type(e).__name__}: {e}')
    if not _pdf_is_exp(pdf, got):
        return Fail('vmf-pdf', 'pdf(y) != exp(log_pdf(y))')
    N = y.shape[-2]
    out_shape = np.broadcast_shapes(lead, y.shape[:-2]) + (N,)
    if got.shape != out_shape:
        return Fail('vmf-shape', f'log_pdf shape {got.shape}, expected {out_shape}')
    yb = np.broadcast_to(y, out_shape + (D,))
    mb = np.broadcast_to(mean, out_shape[:-1] + (D,))
    kb = np.broadcast_to(concentration, out_shape[:-1])
    for idx in _lead_iter(out_shape[:-1]):
        k = float(kb[idx])
        if not (1e-6 <= k <= 500):
            return Skip('concentration outside [1e-6, 500]')
        want = du.ref_vmf(mb[idx], k, du.unit(yb[idx]))
        # parameters stored in single precision: the value is the density of the stored (rounded) concentration, to
        # the accuracy single-precision arithmetic on terms of size kappa allows
        single = concentration.dtype == np.float32
        ok, ratio = _close(got[idx], want, rtol=1e-10, atol=1e-10) if not single else \
            _close(got[idx], want, rtol=0.0, atol=4e-6 * (k + D * abs(np.log(k)) + 10))
        if not ok:
            return Fail('vmf-value', f'log_pdf differs from scipy.stats.vonmises_fisher at {idx}: got '
                        f'{np.asarray(got[idx]).ravel()[:3]}, want {want.ravel()[:3]} (D={D}, kappa={k:.6g}, '
                        f'error/tolerance={ratio:.3g})')


@oracle
def watson_closed_form(mode, concentration, y):
    """ComplexWatson.log_pdf(z) == kappa |w^H z|^2 - log(2 pi^D/(D-1)! * M(1, D, kappa)), the Kummer function
    evaluated by its own power series (not scipy.special.hyp1f1)"""
    D = mode.shape[-1]
    lead = mode.shape[:-1]
    try:
        model = ComplexWatson(mode=mode.copy(order='K'), concentration=concentration.copy(order='K'))
        got = np.asarray(model.log_pdf(y.copy(order='K')))
        pdf = np.asarray(model.pdf(y.copy(order='K')))
    except Exception as e:
        return Fail('watson-raises', f'log_pdf / pdf raised {type(e).__name__}: {e}')
    if not _pdf_is_exp(pdf, got):
        return Fail('watson-pdf', 'pdf(y) != exp(log_pdf(y))')
    N = y.shape[-2]
    out_shape = np.broadcast_shapes(lead, y.shape[:-2]) + (N,)
    if got.shape != out_shape:
        return Fail('watson-shape', f'log_pdf shape {got.shape}, expected {out_shape}')
    yb = np.broadcast_to(y, out_shape + (D,))
    mb = np.broadcast_to(mode, out_shape[:-1] + (D,))
    kb = np.broadcast_to(concentration, out_shape[:-1])
    for idx in _lead_iter(out_shape[:-1]):
        k = float(kb[idx])
        if not (1e-6 <= k <= 500):
            return Skip('concentration outside [1e-6, 500]')
        want = du.ref_watson(mb[idx], k, yb[idx])
        ok, ratio = _close(got[idx], want, rtol=1e-10, atol=1e-10)
        if not ok:
            return Fail('watson-value', f'log_pdf differs from the closed form at {idx}: got '
                        f'{np.asarray(got[idx]).ravel()[:3]}, want {want.ravel()[:3]} (D={D}, kappa={k:.6g}, '
                        f'error/tolerance={ratio:.3g})')


BINGHAM_TOL = 1e-6


@oracle
def bingham_closed_form(eigenvectors, eigenvalues, y):
    """ComplexBingham.log_pdf(z) == z^H B z - log( 2 pi^D sum_j e^{l_j} / prod_{k != j} (l_j - l_k) ), B = U diag(l) U^H,
    normaliser evaluated in 120-digit decimal arithmetic.  Tolerance 1e-6 (absolute + relative).
    A deviation is tagged `bingham-norm-cancellation` when it is explained by the conditioning of the code's
    double precision evaluation of the alternating sum (error <= 1e3 eps sum|terms| / |sum terms|), else `bingham-value`."""
    D = eigenvalues.shape[-1]
    lead = eigenvalues.shape[:-1]
    try:
        model = ComplexBingham(eigenvectors.copy(order='K'), eigenvalues.copy(order='K'))
        got = np.asarray(model.log_pdf(y.copy(order='K')))
        pdf = np.asarray(model.pdf(y.copy(order='K')))
    except Exception as e:
        return Fail('bingham-raises', f'log_pdf / pdf raised {type(e).__name__}: {e}')
    if not _pdf_is_exp(pdf, got):
        return Fail('bingham-pdf', 'pdf(y) != exp(log_pdf(y))')
    N = y.shape[-2]
    out_shape = np.broadcast_shapes(lead, y.shape[:-2]) + (N,)
    if got.shape != out_shape:
        return Fail('bingham-shape', f'log_pdf shape {got.shape}, expected {out_shape}')
    yb = np.broadcast_to(y, out_shape + (D,))
    ub = np.broadcast_to(eigenvectors, out_shape[:-1] + (D, D))
    lb = np.broadcast_to(eigenvalues, out_shape[:-1] + (D,))
    for idx in _lead_iter(out_shape[:-1]):
        lam = np.asarray(lb[idx], dtype=float)
        gaps = np.diff(np.sort(lam))
        if gaps.size and gaps.min() < 1e-3 * (1 - 1e-12):
            return Skip('eigenvalue gap below 1e-3')
        want = du.ref_bingham(ub[idx], lam, yb[idx])
        ok, ratio = _close(got[idx], want, rtol=BINGHAM_TOL, atol=BINGHAM_TOL)
        if not ok:
            kform = du.bingham_formula_condition(lam)
            err = float(np.nanmax(np.abs(np.asarray(got[idx], dtype=float) - want))) if np.isfinite(got[idx]).any() else float('inf')
            tag = 'bingham-norm-cancellation' if (kform * 2.2e-16 * 1e3 >= BINGHAM_TOL and
                                                  (not np.isfinite(err) or err <= max(1.0, kform * 2.2e-16 * 1e3))) \
                else 'bingham-value'
            return Fail(tag, f'log_pdf differs from the exact normalised density at {idx}: got '
                        f'{np.asarray(got[idx]).ravel()[:2]}, want {want.ravel()[:2]} (D={D}, eigenvalues={lam.tolist()}, '
                        f'min gap={gaps.min() if gaps.size else None:.3g}, condition of the alternating sum={kform:.3g})')


@oracle
def cacg_closed_form(eigenvectors, eigenvalues, y):
    """ComplexAngularCentralGaussian.log_pdf(y) == -D log(z^H B^-1 z) - log det B, z = y/|y|, B = U diag(l) U^H
    assembled densely and evaluated with LAPACK solve / slogdet"""
    D = eigenvalues.shape[-1]
    lead = eigenvalues.shape[:-1]
    try:
        got = np.asarray(ComplexAngularCentralGaussian(covariance_eigenvectors=eigenvectors.copy(order='K'),
                                                       covariance_eigenvalues=eigenvalues.copy(order='K')).log_pdf(y.copy(order='K')))
    except Exception as e:
        return Fail('cacg-raises', f'log_pdf raised {type(e).__name__}: {e}')
    N = y.shape[-2]
    out_shape = np.broadcast_shapes(lead, y.shape[:-2]) + (N,)
    if got.shape != out_shape:
        return Fail('cacg-shape', f'log_pdf shape {got.shape}, expected {out_shape}')
    yb = np.broadcast_to(y, out_shape + (D,))
    ub = np.broadcast_to(eigenvectors, out_shape[:-1] + (D, D))
    lb = np.broadcast_to(eigenvalues, out_shape[:-1] + (D,))
    for idx in _lead_iter(out_shape[:-1]):
        lam = lb[idx]
        cond = float(lam.max() / lam.min())
        if not (lam.min() > 0 and cond <= 1.0001e8):
            return Skip('covariance outside the domain (not PD or condition > 1e8)')
        want = du.ref_cacg(ub[idx], lam, yb[idx])
        ok, ratio = _close(got[idx], want, rtol=1e-10 + 2e-14 * cond, atol=1e-10 + 2e-14 * cond)
        if not ok:
            return Fail('cacg-value', f'log_pdf differs from -D log(z^H B^-1 z) - log det B at {idx}: got '
                        f'{np.asarray(got[idx]).ravel()[:3]}, want {want.ravel()[:3]} (D={D}, cond={cond:.3g}, '
                        f'error/tolerance={ratio:.3g})')


@oracle
def cacg_from_covariance_density(covariance, covariance_norm, eigenvalue_floor, y):
    """a cACG built with the alternative constructor `from_covariance` (every covariance_norm option, floors that DO
    clip): log_pdf is the density of the parameters the object STORES (covariance_eigenvectors / _eigenvalues)"""
    norm = {'eigenvalue': 'eigenvalue', 'trace': 'trace', 'none': False}[covariance_norm]
    try:
        m = ComplexAngularCentralGaussian.from_covariance(covariance.copy(order='K'), covariance_norm=norm,
                                                          eigenvalue_floor=eigenvalue_floor)
    except (AssertionError, np.linalg.LinAlgError) as e:
        return Skip(f'from_covariance raises {type(e).__name__}')
    U = np.asarray(m.covariance_eigenvectors)
    lam = np.asarray(m.covariance_eigenvalues, dtype=float)
    if not (lam.min() > 0 and lam.max() / lam.min() <= 1.0001e8):
        return Skip('stored covariance outside the domain (not PD or condition > 1e8)')
    got = np.asarray(m.log_pdf(y.copy(order='K')))
    for idx in _lead_iter(lam.shape[:-1]):
        want = du.ref_cacg(U[idx], lam[idx], np.broadcast_to(y, lam.shape[:-1] + y.shape[-2:])[idx])
        cond = float(lam[idx].max() / lam[idx].min())
        ok, ratio = _close(got[idx], want, rtol=1e-10 + 2e-14 * cond, atol=1e-10 + 2e-14 * cond)
        if not ok:
            return Fail('cacg-from-covariance-value',
                        f'from_covariance(covariance_norm={norm!r}, eigenvalue_floor={eigenvalue_floor}): log_pdf differs from '
                        f'the density of the stored eigen-decomposition at {idx}: got {np.asarray(got[idx]).ravel()[:3]}, '
                        f'want {want.ravel()[:3]} (stored eigenvalues {lam[idx].tolist()})')


# ----------------------------------------------------------------------------- quadrature ("integrates to one")
def _integral(logp, w):
    return float(np.sum(np.exp(logp) * w))


QUAD_TOL = 1e-6


@oracle
def vmf_integrates_to_one(mean, concentration, n_polar, n_az, mode, seed):
    """sum / integral of exp(VonMisesFisher.log_pdf) over S^{D-1} is one.  D=1: two points; D=2: trapezoid on the
    circle; D=3: Gauss-Legendre x trapezoid product rule (mode 'grid'); D>=3 mode 'polar': Gauss-Legendre in
    t = mean^T x with weight |S^{D-2}| (1-t^2)^{(D-3)/2} and a random point of the parallel per node."""
    D = mean.shape[-1]
    rng = np.random.default_rng(seed)
    Q = du.householder(mean) if D > 1 else np.eye(1)
    if mode == 'grid':
        pts, w = du.real_sphere_rule(D, n_polar, n_az, frame=Q)
    else:
        pts, w = du.real_sphere_polar_rule(D, n_polar, Q, rng)
    radius = np.exp(rng.normal(size=(pts.shape[0], 1)))         # log_pdf depends on the direction only
    lp = VonMisesFisher(mean=mean.copy(order='K'), concentration=np.asarray(concentration, dtype=float)).log_pdf(pts * radius)
    total = _integral(lp, w)
    if not abs(total - 1) <= QUAD_TOL:
        return Fail('vmf-integral', f'integral of exp(log_pdf) over S^{D - 1} = {total!r}, expected 1 '
                    f'(kappa={float(concentration):.6g}, rule {mode} {n_polar}x{n_az})')


def _complex_rule(D, frame, n, n_phase, grade, seed):
    rng = np.random.default_rng(seed)
    return du.complex_sphere_rule(D, n, n_phase, frame, rng, grade=grade)


@oracle
def watson_integrates_to_one(mode, concentration, n, n_phase, grade, seed):
    """integral of exp(ComplexWatson.log_pdf) over the complex unit sphere of C^D is one"""
    D = mode.shape[-1]
    z, w = _complex_rule(D, du.householder(mode), n, n_phase, grade, seed)
    lp = ComplexWatson(mode=mode.copy(order='K'), concentration=np.asarray(concentration, dtype=float)).log_pdf(z)
    total = _integral(lp, w)
    if not abs(total - 1) <= QUAD_TOL:
        return Fail('watson-integral', f'integral of exp(log_pdf) over the complex unit sphere of C^{D} = {total!r}, '
                    f'expected 1 (kappa={float(concentration):.6g}, n={n}, phases={n_phase})')


@oracle
def bingham_integrates_to_one(eigenvectors, eigenvalues, n, n_phase, grade, seed):
    """integral of exp(ComplexBingham.log_pdf) over the complex unit sphere of C^D is one"""
    D = eigenvalues.shape[-1]
    z, w = _complex_rule(D, eigenvectors, n, n_phase, grade, seed)
    lp = ComplexBingham(eigenvectors.copy(order='K'), eigenvalues.copy(order='K')).log_pdf(z)
    total = _integral(lp, w)
    if not abs(total - 1) <= 10 * QUAD_TOL:
        kform = du.bingham_formula_condition(eigenvalues)
        tag = 'bingham-integral-norm-cancellation' if kform * 2.2e-16 * 1e3 >= 10 * QUAD_TOL else 'bingham-integral'
        return Fail(tag, f'integral of exp(log_pdf) over the complex unit sphere of C^{D} = {total!r}, expected 1 '
                    f'(eigenvalues={eigenvalues.tolist()}, n={n}, phases={n_phase}, condition of the normaliser sum {kform:.3g})')


@oracle
def cacg_integrates_to_area(eigenvectors, eigenvalues, n, n_phase, grade, seed):
    """integral of exp(ComplexAngularCentralGaussian.log_pdf) over the complex unit sphere is 2 pi^D/(D-1)!"""
    D = eigenvalues.shape[-1]
    z, w = _complex_rule(D, eigenvectors, n, n_phase, grade, seed)
    rng = np.random.default_rng(seed + 1)
    radius = np.exp(rng.normal(size=(z.shape[0], 1)))           # log_pdf depends on the direction only
    lp = ComplexAngularCentralGaussian(covariance_eigenvectors=eigenvectors.copy(order='K'),
                                       covariance_eigenvalues=eigenvalues.copy(order='K')).log_pdf(z * radius)
    area = 2 * np.pi ** D / math.factorial(D - 1)
    total = _integral(lp, w)
    if not abs(total / area - 1) <= QUAD_TOL:
        return Fail('cacg-integral', f'integral of exp(log_pdf) over the complex unit sphere of C^{D} = {total!r}, '
                    f'expected the sphere area {area!r} (eigenvalues={eigenvalues.tolist()}, n={n}, phases={n_phase})')


# ============================================================================= search
def _gauss_case(rng, kind, D, lead, cond, ckind, N, ybroadcast):
    def one():
        m, q, ev = du.pd_matrix(rng, D, cond, False, ckind)
        mu = rng.normal(size=D) * np.sqrt(ev.max())
        if kind == 'full':
            c = m
        elif kind == 'diagonal':
            c = ev.copy(order='K')
        else:
            c = np.array(ev.max())
        return mu, c
    mean, cov = du.stack(one, lead)
    scale = np.sqrt(np.max(np.abs(cov)))
    ylead = lead
    if ybroadcast and len(lead):
        ylead = tuple(lead[:-1]) + (1,)          # GMM style: y[..., None, :, :] against a class axis
    y = du.observations(rng, ylead, N, D, False, scale=scale) + (mean[..., None, :] if ylead == lead else 0)
    return mean, cov, y


def search(ctx):
    rng = ctx.rng
    # ---- Gaussians: scipy.stats.multivariate_normal
    # fixed regression configurations first (they expose the three fixed defects 79c9618, d40e2c0, eb73118)
    fixed = [('full', 2, (), 10.0, 'pairrot', 3, False), ('full', 3, (2,), 1e4, 'generic', 4, True),
             ('diagonal', 3, (), 100.0, 'diagonal', 2, False), ('diagonal', 2, (3,), 10.0, 'diagonal', 4, True),
             ('diagonal', 4, (2, 2), 1e3, 'diagonal', 3, False),
             ('spherical', 3, (2,), 1.0, 'diagonal', 5, False), ('spherical', 2, (2, 3), 1.0, 'diagonal', 2, True)]
    n = ctx.n(700, 8000)
    for i in range(n + len(fixed)):
        if ctx.out_of_time(60):
            break
        if i < len(fixed):
            kind, D, lead, cond, ckind, N, yb = fixed[i]
        else:
            kind = str(rng.choice(['full', 'full', 'diagonal', 'spherical']))
            D = int(rng.integers(1, 9))
            lead = du.pick_lead(rng)
            cond = du.pick_cond(rng)
            ckind = str(rng.choice(['generic', 'generic', 'pairrot', 'diagonal'])) if D > 1 else 'diagonal'
            N = int(rng.integers(1, 5))
            yb = bool(rng.random() < 0.3)
        mean, cov, y = _gauss_case(rng, kind, D, lead, cond, ckind, N, yb)
        ctx.count(f'search-gauss-{kind}-D{D}')
        ctx.count(f'search-gauss-lead{len(lead)}')
        ctx.count(f'search-gauss-cond1e{int(round(np.log10(cond)))}')
        if kind == 'full':
            ctx.count(f'search-gauss-full-{ckind}')
        held = ctx.run(gaussian_vs_scipy, kind=kind, mean=mean, covariance=cov, y=y)
        if i == 1:
            ctx.sample({'oracle': 'gaussian_vs_scipy', 'kind': kind, 'D': D, 'lead': list(lead), 'cond': cond,
                        'cov_kind': ckind, 'y_shape': list(y.shape), 'held': held})
    # ---- complex circular Gaussian
    for i in range(ctx.n(300, 4000)):
        if ctx.out_of_time(50):
            break
        D = int(rng.integers(1, 9))
        lead = du.pick_lead(rng)
        cond = du.pick_cond(rng)
        ckind = str(rng.choice(['generic', 'generic', 'pairrot', 'diagonal'])) if D > 1 else 'diagonal'
        (cov,) = du.stack(lambda: (du.pd_matrix(rng, D, cond, True, ckind)[0],), lead)
        N = int(rng.integers(1, 5))
        ylead = lead if (rng.random() < 0.7 or not lead) else tuple(lead[:-1]) + (1,)
        y = du.observations(rng, ylead, N, D, True, scale=float(np.sqrt(np.abs(cov).max())))
        if rng.random() < 0.25:
            # overall level of the recording: the density is defined for every positive definite covariance, whatever its
            # scale (the determinant itself leaves the double range long before its logarithm does)
            lg = float(rng.uniform(-42, 38))
            cov, y = cov * 10.0 ** lg, y * 10.0 ** (lg / 2)
            ctx.count('search-cgauss-scale-1e%d' % (10 * int(np.floor(lg / 10))))
        ctx.count(f'search-cgauss-D{D}')
        held = ctx.run(cgauss_vs_real_composite, covariance=cov, y=y)
        if i == 0:
            ctx.sample({'oracle': 'cgauss_vs_real_composite', 'D': D, 'lead': list(lead), 'cond': cond, 'held': held})
    # ---- von Mises-Fisher
    for i in range(ctx.n(500, 6000)):
        if ctx.out_of_time(45):
            break
        D = int(rng.integers(1, 9))
        lead = du.pick_lead(rng)
        mean = du.unit(rng.normal(size=tuple(lead) + (D,)))
        kappa = np.array([du.pick_kappa(rng) for _ in range(int(np.prod(lead, dtype=int)))]).reshape(lead)
        N = int(rng.integers(1, 5))
        ylead = lead if (rng.random() < 0.7 or not lead) else tuple(lead[:-1]) + (1,)
        y = du.observations(rng, ylead, N, D, False, scale=float(np.exp(rng.normal() * 2)))
        if rng.random() < 0.15:
            # concentration kept as float32 (parameters restored from a single-precision checkpoint)
            kappa = np.clip(kappa, 1e-6, 500).astype(np.float32)
            kappa = np.where((kappa < np.float32(1e-6)) | (kappa > np.float32(500)), np.float32(1.0), kappa).astype(np.float32)
            ctx.count('search-vmf-concentration-float32')
        ctx.count(f'search-vmf-D{D}')
        held = ctx.run(vmf_vs_scipy, mean=mean, concentration=kappa, y=y)
        if i == 0:
            ctx.sample({'oracle': 'vmf_vs_scipy', 'D': D, 'lead': list(lead), 'kappa': kappa.tolist(), 'held': held})
    # ---- complex Watson
    for i in range(ctx.n(500, 6000)):
        if ctx.out_of_time(40):
            break
        D = int(rng.integers(2, 7))
        lead = du.pick_lead(rng)
        mode = du.unit(du.observations(rng, lead, 1, D, True)[..., 0, :])
        kappa = np.array([du.pick_kappa(rng) for _ in range(int(np.prod(lead, dtype=int)))]).reshape(lead)
        N = int(rng.integers(1, 5))
        ylead = lead if (rng.random() < 0.7 or not lead) else tuple(lead[:-1]) + (1,)
        y = du.unit(du.observations(rng, ylead, N, D, True))
        ctx.count(f'search-watson-D{D}')
        ctx.run(watson_closed_form, mode=mode, concentration=kappa, y=y)
    # ---- complex Bingham
    for i in range(ctx.n(500, 6000)):
        if ctx.out_of_time(35):
            break
        D = int(rng.integers(2, 7))
        lead = du.pick_lead(rng)
        kinds = []

        def one():
            lam, kind = du.bingham_eigenvalues(rng, D)
            kinds.append(kind)
            return du.rand_unitary(rng, D, True), lam
        U, lam = du.stack(one, lead)
        N = int(rng.integers(1, 4))
        ylead = lead if (rng.random() < 0.7 or not lead) else tuple(lead[:-1]) + (1,)
        y = du.unit(du.observations(rng, ylead, N, D, True))
        for k in set(kinds):
            ctx.count(f'search-bingham-{k}')
        ctx.count(f'search-bingham-D{D}')
        ctx.run(bingham_closed_form, eigenvectors=U, eigenvalues=lam, y=y)
    # ---- complex angular central Gaussian
    for i in range(ctx.n(500, 6000)):
        if ctx.out_of_time(30):
            break
        D = int(rng.integers(2, 7))
        lead = du.pick_lead(rng)
        cond = du.pick_cond(rng)

        def one():
            _, q, ev = du.pd_matrix(rng, D, cond, True, 'generic')
            return q, ev
        U, lam = du.stack(one, lead)
        if rng.random() < 0.25:
            # overall scale of the covariance: the cACG density is defined for every positive definite B (and is invariant
            # to its scale); parameters that were not max-normalised (covariance_norm=False, a model built by hand) keep it
            lg = float(rng.uniform(-14, 6))
            lam = lam * 10.0 ** lg
            ctx.count('search-cacg-scale-1e%d' % (5 * int(np.floor(lg / 5))))
        N = int(rng.integers(1, 4))
        ylead = lead if (rng.random() < 0.7 or not lead) else tuple(lead[:-1]) + (1,)
        y = du.observations(rng, ylead, N, D, True, scale=float(np.exp(rng.normal() * 2)))
        ctx.count(f'search-cacg-D{D}')
        ctx.run(cacg_closed_form, eigenvectors=U, eigenvalues=lam, y=y)
        # the alternative constructor, with floors that clip (eigenvalue spread up to 1e4 against floors up to 0.2)
        cov = np.einsum('...de,...e,...fe->...df', U, lam, U.conj())
        floor = float(rng.choice([0.0, 1e-10, 1e-3, 0.1, 0.2]))
        cn = str(rng.choice(['eigenvalue', 'trace', 'none']))
        ctx.count(f'search-cacg-from-covariance:{cn}:floor{floor:g}')
        ctx.run(cacg_from_covariance_density, covariance=cov, covariance_norm=cn, eigenvalue_floor=floor,
                y=du.observations(rng, lead, N, D, True))
    _search_quadrature(ctx)


def _search_quadrature(ctx):
    """numerical support of the clause the theorems do not reach: exp(log_pdf) integrates to one (sphere area for cACG).
    Node counts are calibrated so that the rule itself is accurate to ~1e-10 (harness/dist_util.py)."""
    rng = ctx.rng
    thorough = ctx.tier != 'quick'
    # ---- von Mises-Fisher, D = 1..8
    for i in range(ctx.n(100, 800)):
        if ctx.out_of_time(20):
            break
        D = int(rng.integers(1, 9)) if i >= 8 else i + 1
        kappa = du.pick_kappa(rng)
        mean = du.unit(rng.normal(size=D))
        seed = int(rng.integers(1 << 30))
        if D == 1:
            args = dict(n_polar=2, n_az=1, mode='grid')
        elif D == 2:
            args = dict(n_polar=32 + int(10 * math.sqrt(kappa)), n_az=1, mode='grid')
        elif D == 3 and rng.random() < 0.5:
            args = dict(n_polar=du.nodes_for(2 * kappa), n_az=8, mode='grid')
        else:
            args = dict(n_polar=du.nodes_for(2 * kappa), n_az=1, mode='polar')
        ctx.count(f'quad-vmf-D{D}-{args["mode"]}')
        held = ctx.run(vmf_integrates_to_one, mean=mean, concentration=kappa, seed=seed, **args)
        if i == 2:
            ctx.sample({'oracle': 'vmf_integrates_to_one', 'D': D, 'kappa': kappa, **args, 'held': held})
    # ---- complex families on the unit sphere of C^D.  Node budget limits kappa / condition for the larger D.
    budget = 1500000 if thorough else 60000
    dims = [2, 3, 4, 5, 6] if thorough else [2, 2, 3, 3, 4]
    for i in range(ctx.n(90, 600)):
        if ctx.out_of_time(8):
            break
        fam = ['watson', 'bingham', 'cacg'][i % 3]
        full_phase = (i % 5) == 4
        D = 2 if (full_phase and not thorough) else int(rng.choice(dims if not full_phase else [2, 3]))
        n_phase = 6 if full_phase else 0
        seed = int(rng.integers(1 << 30))
        U = du.rand_unitary(rng, D, True)
        nmax = int((budget / max(1, n_phase ** D)) ** (1.0 / (D - 1)))
        kmax = 500.0
        while du.nodes_for(kmax) > nmax and kmax > 1e-3:
            kmax *= 0.8
        tagp = f'-D{D}' + ('-fullphase' if full_phase else '')
        if fam == 'watson':
            kappa = du.pick_kappa(rng)
            if kappa > kmax:
                kappa = float(rng.uniform(0.3, 1.0) * kmax)
            ctx.count('quad-watson' + tagp)
            held = ctx.run(watson_integrates_to_one, mode=U[:, 0].copy(order='K'), concentration=kappa,
                           n=min(nmax, du.nodes_for(kappa)), n_phase=n_phase, grade=None, seed=seed)
            if i == 0:
                ctx.sample({'oracle': 'watson_integrates_to_one', 'D': D, 'kappa': kappa, 'held': held})
        elif fam == 'bingham':
            lam, kind = du.bingham_eigenvalues(rng, D)
            spread = float(lam.max() - lam.min())
            if spread > kmax:                        # shrink towards the largest eigenvalue, keep gaps >= 1e-3
                srt = np.sort(lam)
                gaps = np.maximum(np.diff(srt) * (kmax / spread) * 0.95, 1.0000001e-3)
                srt = srt[-1] - np.concatenate([np.cumsum(gaps[::-1])[::-1], [0.0]])
                lam = rng.permutation(srt)
                spread = float(lam.max() - lam.min())
            ctx.count(f'quad-bingham-{kind}' + tagp)
            ctx.run(bingham_integrates_to_one, eigenvectors=U, eigenvalues=lam, n=min(nmax, du.nodes_for(spread)),
                    n_phase=n_phase, grade=None, seed=seed)
        else:
            # (sum_j s_j / l_j)^-D is peaked at the vertex of the largest eigenvalue with width ~1/cond:
            # eigenvalues ascending (peak at t = 0 of every Duffy coordinate) and panels graded by decades, 16 nodes each
            decades = [d for d in (0, 0.3, 1, 2, 3, 4, 6, 8) if (16 * (math.ceil(d) + 1)) <= nmax or d <= 0.3]
            d = float(rng.choice(decades))
            cond = 10.0 ** d
            lam = np.sort(du.spectrum(rng, D, cond))
            grade = [10.0 ** (-k) for k in range(math.ceil(d), 0, -1)] if cond > 3 else None
            ctx.count(f'quad-cacg-cond1e{int(round(d))}' + tagp)
            ctx.run(cacg_integrates_to_area, eigenvectors=U, eigenvalues=lam, n=min(16, nmax), n_phase=n_phase,
                    grade=grade, seed=seed)


# ============================================================================= correspondence (model driver vs code)
EXE = 'driver_dist'
TINY = float(np.finfo(np.float64).tiny)


class _Batch:
    """collects driver lines with a callback per line; one driver process for everything"""

    def __init__(self):
        self.lines, self.cbs = [], []

    def add(self, line, cb):
        self.lines.append(line)
        self.cbs.append(cb)

    def flush(self):
        out = run_driver(self.lines, exe=EXE) if self.lines else []
        for o, cb in zip(out, self.cbs):
            if o.strip() == 'bad-op':
                cb(None)
            else:
                cb(parse_floats(o))


def _agree(a, b, scale, rtol=1e-9):
    a = np.asarray(a, dtype=float)
    b = np.asarray(b, dtype=float)
    if a.shape != b.shape:
        return False
    both_nan = np.isnan(a) & np.isnan(b)
    same_inf = np.isinf(a) & np.isinf(b) & (np.sign(a) == np.sign(b))
    return bool(np.all(both_nan | same_inf | (np.abs(a - b) <= 1e-12 + rtol * np.abs(scale))))


def _cmp(ctx, op, want, scale, data, pick=0):
    def cb(vals):
        if vals is None:
            ctx.corr(op, False, 'driver answered bad-op', data)
            return
        got = vals[pick] if isinstance(pick, int) else vals[pick]
        ok = _agree(got, want, scale)
        ctx.corr(op, ok, f'code={np.asarray(want).tolist()} model={np.asarray(got).tolist()} scale={np.asarray(scale).tolist()}',
                 data if not ok else None)
    return cb


def _corr_gauss(ctx, B):
    rng = ctx.rng
    for i in range(ctx.n(150, 2000)):
        kind = ['full', 'diagonal', 'spherical'][i % 3]
        D = int(rng.integers(1, 9))
        lead = du.pick_lead(rng) if i % 2 else ()
        cond = du.pick_cond(rng)
        ckind = str(rng.choice(['generic', 'pairrot', 'diagonal'])) if D > 1 else 'diagonal'
        N = int(rng.integers(1, 4))
        mean, cov, y = _gauss_case(rng, kind, D, lead, cond, ckind, N, False)
        model = GAUSS[kind](mean=mean, covariance=cov)
        lp = np.asarray(model.log_pdf(y))
        ctx.count(f'corr-gauss-{kind}-D{D}')
        for idx in _lead_iter(lead):
            mu = mean[idx]
            P = np.asarray(model.precision_cholesky)[idx]
            ell = float(np.asarray(model.log_det_precision_cholesky)[idx])
            c = np.asarray(cov)[idx]
            if kind == 'full':
                # contract of the external: P upper triangular, P P^T = inv(cov)  <=>  P^T cov P = I
                res = np.abs(P.T @ c @ P - np.eye(D)).max()
                ctx.corr('contract:precision_cholesky(P^T C P = I, upper triangular)',
                         bool(res <= 1e-9 + 1e-13 * cond and np.allclose(P, np.triu(P)) and np.all(np.diag(P) > 0)),
                         f'residual {res}', {'covariance': c})
            for n_ in range(N):
                yy = y[idx + (n_,)]
                want = float(lp[idx + (n_,)])
                data = {'kind': kind, 'mean': mu, 'covariance': c, 'y': yy}
                if kind == 'full':
                    white = P.T @ (yy - mu)
                    scale = abs(0.5 * D * np.log(2 * np.pi)) + abs(ell) + 0.5 * np.sum(np.abs(P.T) @ np.abs(yy - mu) * np.abs(white))
                    line = f'gauss {D} {fbits(np.pi)} {fbits(mu)} {fbits(P)} {fbits(ell)} {fbits(yy)}'
                    B.add(line, _cmp(ctx, 'Gaussian.log_pdf', want, scale, data, 0))
                    if n_ == 0:
                        B.add(line, _cmp(ctx, '_compute_log_det_cholesky[full]', ell, np.sum(np.abs(np.log(np.diag(P)))) + 1, data, 1))
                elif kind == 'diagonal':
                    scale = abs(0.5 * D * np.log(2 * np.pi)) + abs(ell) + 0.5 * np.sum((P * (yy - mu)) ** 2)
                    B.add(f'gdiag {D} {fbits(np.pi)} {fbits(mu)} {fbits(P)} {fbits(ell)} {fbits(yy)}',
                          _cmp(ctx, 'DiagonalGaussian.log_pdf', want, scale, data, 0))
                    line = f'gdiagcov {D} {fbits(np.pi)} {fbits(mu)} {fbits(c)} {fbits(yy)}'
                    B.add(line, _cmp(ctx, 'DiagonalGaussian(cov).log_pdf', want, scale + np.sum(np.abs(np.log(P))), data, 0))
                    if n_ == 0:
                        B.add(line, _cmp(ctx, '_compute_log_det_cholesky[diag]', ell, np.sum(np.abs(np.log(P))) + 1, data, 1))
                        B.add(line, _cmp(ctx, '_compute_precision_cholesky[diag]', P, np.abs(P), data, slice(2, 2 + D)))
                else:
                    P0 = float(P)
                    scale = abs(0.5 * D * np.log(2 * np.pi)) + abs(ell) + 0.5 * np.sum((P0 * (yy - mu)) ** 2)
                    B.add(f'gsph {D} {fbits(np.pi)} {fbits(mu)} {fbits(P0)} {fbits(ell)} {fbits(yy)}',
                          _cmp(ctx, 'SphericalGaussian.log_pdf', want, scale, data, 0))
                    line = f'gsphcov {D} {fbits(np.pi)} {fbits(mu)} {fbits(float(c))} {fbits(yy)}'
                    B.add(line, _cmp(ctx, 'SphericalGaussian(cov).log_pdf', want, scale, data, 0))
                    if n_ == 0:
                        B.add(line, _cmp(ctx, '_compute_log_det_cholesky[spherical]', ell, abs(ell) + 1, data, 1))
                        B.add(line, _cmp(ctx, '_compute_precision_cholesky[spherical]', P0, abs(P0), data, 2))
    ctx.sample({'op': 'gauss', 'kind': kind, 'D': D, 'lead': list(lead), 'cond': cond})


def _corr_cgauss(ctx, B):
    rng = ctx.rng
    for i in range(ctx.n(80, 1000)):
        D = int(rng.integers(1, 9))
        lead = du.pick_lead(rng) if i % 2 else ()
        cond = du.pick_cond(rng)
        (cov,) = du.stack(lambda: (du.pd_matrix(rng, D, cond, True, 'generic')[0],), lead)
        N = int(rng.integers(1, 4))
        y = du.observations(rng, lead, N, D, True, scale=float(np.sqrt(np.abs(cov).max())))
        lp = np.asarray(ComplexCircularSymmetricGaussian(covariance=cov).log_pdf(y))
        # the externals exactly as the source calls them
        logdet = np.linalg.slogdet(cov)[-1]
        sol = np.squeeze(np.linalg.solve(cov[..., None, :, :], y[..., :, None]), axis=-1)
        ctx.count(f'corr-cgauss-D{D}')
        for idx in _lead_iter(lead):
            ev = np.linalg.eigvalsh(cov[idx])
            ctx.corr('contract:slogdet = log det', bool(abs(float(np.asarray(logdet)[idx]) - np.sum(np.log(ev))) <= 1e-9 * (1 + np.sum(np.abs(np.log(ev)))) + 1e-13 * cond))
            for n_ in range(N):
                yy = y[idx + (n_,)]
                ss = sol[idx + (n_,)]
                res = np.abs(cov[idx] @ ss - yy).max() / max(np.abs(yy).max(), TINY)
                ctx.corr('contract:solve (C s = y)', bool(res <= 1e-9 + 1e-14 * cond), f'residual {res}')
                ld = float(np.asarray(logdet)[idx])
                scale = abs(D * np.log(np.pi)) + abs(ld) + np.sum(np.abs(yy) * np.abs(ss))
                B.add(f'cgauss {D} {fbits(np.pi)} {fbits(ld)} {cbits(ss)} {cbits(yy)}',
                      _cmp(ctx, 'ComplexCircularSymmetricGaussian.log_pdf', float(lp[idx + (n_,)]), scale,
                           {'covariance': cov[idx], 'y': yy}, 0))


def _corr_vmf(ctx, B):
    from scipy.special import ive, iv
    rng = ctx.rng
    for i in range(ctx.n(150, 2000)):
        D = int(rng.integers(1, 9))
        lead = du.pick_lead(rng) if i % 2 else ()
        mean = du.unit(rng.normal(size=tuple(lead) + (D,)))
        kappa = np.array([du.pick_kappa(rng) for _ in range(int(np.prod(lead, dtype=int)))]).reshape(lead)
        N = int(rng.integers(1, 4))
        y = du.observations(rng, lead, N, D, False, scale=float(np.exp(rng.normal() * 2)))
        if i % 10 == 9:
            y[..., 0, :] = 0                      # degenerate: zero observation -> the `maximum(norm, tiny)` branch
            ctx.count('corr-vmf-zero-observation')
        model = VonMisesFisher(mean=mean, concentration=kappa)
        lp = np.asarray(model.log_pdf(y))
        ln = np.asarray(model.log_norm())
        ctx.count(f'corr-vmf-D{D}')
        for idx in _lead_iter(lead):
            k = float(kappa[idx])
            iveval = float(ive(D / 2 - 1, k))      # the external exactly as the source calls it
            if k < 600:
                ref = float(iv(D / 2 - 1, k)) * math.exp(-k)
                ctx.corr('contract:ive(v,k) = I_v(k) exp(-k)', bool(abs(iveval - ref) <= 1e-12 * abs(ref)), f'{iveval} {ref}')
            terms = abs(D / 2 * np.log(2 * np.pi)) + abs(np.log(iveval)) + k + abs((D / 2 - 1) * np.log(k))
            for n_ in range(N):
                yy = y[idx + (n_,)]
                line = f'vmf {D} {fbits(np.pi)} {fbits(TINY)} {fbits(mean[idx])} {fbits(k)} {fbits(iveval)} {fbits(yy)}'
                B.add(line, _cmp(ctx, 'VonMisesFisher.log_pdf', float(lp[idx + (n_,)]), terms + k,
                                 {'mean': mean[idx], 'concentration': k, 'y': yy}, 0))
                if n_ == 0:
                    B.add(line, _cmp(ctx, 'VonMisesFisher.log_norm', float(ln[idx]), terms, {'D': D, 'concentration': k}, 1))


def _corr_watson(ctx, B):
    from scipy.special import hyp1f1
    rng = ctx.rng
    for i in range(ctx.n(150, 2000)):
        D = int(rng.integers(2, 7))
        lead = du.pick_lead(rng) if i % 2 else ()
        mode = du.unit(du.observations(rng, lead, 1, D, True)[..., 0, :])
        kappa = np.array([du.pick_kappa(rng) for _ in range(int(np.prod(lead, dtype=int)))]).reshape(lead)
        N = int(rng.integers(1, 4))
        y = du.unit(du.observations(rng, lead, N, D, True))
        model = ComplexWatson(mode=mode, concentration=kappa)
        lp = np.asarray(model.log_pdf(y))
        ln = np.asarray(model.log_norm())
        ctx.count(f'corr-watson-D{D}')
        for idx in _lead_iter(lead):
            k = float(kappa[idx])
            h = float(hyp1f1(1, D, k))             # the external exactly as the source calls it
            ctx.corr('contract:hyp1f1(1,D,k) = sum k^n/(D)_n', bool(abs(math.log(h) - du.kummer_1_D(D, k)) <= 1e-11 * (1 + k)))
            terms = abs(math.log(h)) + abs(du.log_sphere_area_complex(D))
            for n_ in range(N):
                yy = y[idx + (n_,)]
                line = f'watson {D} {fbits(np.pi)} {cbits(mode[idx])} {fbits(k)} {fbits(h)} {cbits(yy)}'
                B.add(line, _cmp(ctx, 'ComplexWatson.log_pdf', float(lp[idx + (n_,)]), terms + k,
                                 {'mode': mode[idx], 'concentration': k, 'y': yy}, 0))
                if n_ == 0:
                    B.add(line, _cmp(ctx, 'ComplexWatson.log_norm_1f1', float(ln[idx]), terms, {'D': D, 'concentration': k}, 1))


def _corr_bingham(ctx, B):
    import inspect
    rng = ctx.rng
    eps = float(inspect.signature(ComplexBingham.norm).parameters['eps'].default)
    for i in range(ctx.n(150, 2000)):
        D = int(rng.integers(2, 7))
        lead = du.pick_lead(rng) if i % 2 else ()
        degenerate = (i % 5 == 4)
        kinds = []

        def one():
            if degenerate:                          # duplicates / gaps below eps: the spreading map is active
                lam = rng.uniform(-3, 0, size=D)
                j = int(rng.integers(1, D))
                lam[j] = lam[j - 1] + float(rng.choice([0.0, 1e-12, 3e-9, 2e-8]))
                kinds.append('duplicate')
            else:
                lam, k = du.bingham_eigenvalues(rng, D, kind=str(rng.choice(['spread', 'trainer-like', 'clustered'])))
                kinds.append(k)
            return du.rand_unitary(rng, D, True), lam
        U, lam = du.stack(one, lead)
        N = int(rng.integers(1, 3))
        y = du.unit(du.observations(rng, lead, N, D, True))
        model = ComplexBingham(U, lam)
        lp = np.asarray(model.log_pdf(y))
        nrm = np.asarray(model.norm())
        ctx.count(f'corr-bingham-D{D}')
        for k in set(kinds):
            ctx.count(f'corr-bingham-{k}')
        for idx in _lead_iter(lead):
            lam_i = lam[idx]
            _, spread = ComplexBingham._remove_duplicate_eigenvalues(lam_i.copy(order='K'), eps=eps)
            # conditioning of the alternating sum (rounding of exp / of the differences is amplified by it)
            terms = []
            for j in range(D):
                p = 1.0
                for k in range(D):
                    if k != j:
                        p *= spread[j] - spread[k]
                terms.append(math.exp(spread[j]) / p)
            mingap = float(np.min(np.diff(spread))) if D > 1 else 1.0
            amp = 2 * np.pi ** D * np.sum(np.abs(terms)) * (1 + D * 1e-7 * np.max(np.abs(spread)) / mingap)
            nv = float(nrm[idx])
            for n_ in range(N):
                yy = y[idx + (n_,)]
                data = {'eigenvectors': U[idx], 'eigenvalues': lam_i, 'y': yy}
                line = f'bingham {D} {fbits(np.pi)} {fbits(eps)} {cbits(U[idx])} {fbits(lam_i)} {cbits(yy)}'
                quad_scale = float(np.sum(np.abs(lam_i)))
                if nv > 0:
                    B.add(line, _cmp(ctx, 'ComplexBingham.log_pdf', float(lp[idx + (n_,)]),
                                     quad_scale + abs(math.log(nv)) + amp / nv, data, 0))
                if n_ == 0:
                    B.add(line, _cmp(ctx, 'ComplexBingham.norm', nv, amp, data, 1))
                    B.add(line, _cmp(ctx, 'ComplexBingham._remove_duplicate_eigenvalues', spread,
                                     np.abs(spread) + 1e-7 * 0, data, slice(2, 2 + D)))


def _corr_cacg(ctx, B):
    from pb_bss.distribution.complex_angular_central_gaussian import normalize_observation
    rng = ctx.rng
    for i in range(ctx.n(150, 2000)):
        D = int(rng.integers(2, 7))
        lead = du.pick_lead(rng) if i % 2 else ()
        cond = du.pick_cond(rng)

        def one():
            _, q, ev = du.pd_matrix(rng, D, cond, True, 'generic')
            return q, ev
        U, lam = du.stack(one, lead)
        N = int(rng.integers(1, 3))
        y = du.observations(rng, lead, N, D, True, scale=float(np.exp(rng.normal() * 2)))
        if i % 10 == 9:
            y[..., 0, :] = 0                      # degenerate: zero observation -> `where(norm == 0, tiny, norm)`
            ctx.count('corr-cacg-zero-observation')
        model = ComplexAngularCentralGaussian(covariance_eigenvectors=U, covariance_eigenvalues=lam)
        lp = np.asarray(model.log_pdf(y))
        _, qf = model._log_pdf(normalize_observation(y))
        ctx.count(f'corr-cacg-D{D}')
        for idx in _lead_iter(lead):
            res = np.abs(U[idx].conj().T @ U[idx] - np.eye(D)).max()
            ctx.corr('contract:eigenvectors unitary', bool(res <= 1e-12), f'{res}')
            for n_ in range(N):
                yy = y[idx + (n_,)]
                data = {'eigenvectors': U[idx], 'eigenvalues': lam[idx], 'y': yy}
                line = f'cacg {D} {fbits(TINY)} {cbits(U[idx])} {fbits(lam[idx])} {cbits(yy)}'
                q = float(qf[idx + (n_,)])
                B.add(line, _cmp(ctx, 'ComplexAngularCentralGaussian.log_pdf', float(lp[idx + (n_,)]),
                                 D * abs(np.log(q)) + np.sum(np.abs(np.log(lam[idx]))) + D, data, 0))
                B.add(line, _cmp(ctx, 'ComplexAngularCentralGaussian._log_pdf[quadratic_form]', q, q, data, 1))


def corr(ctx):
    import traceback
    B = _Batch()
    for fam in (_corr_gauss, _corr_cgauss, _corr_vmf, _corr_watson, _corr_bingham, _corr_cacg):
        try:                       # a family whose real code raises must not hide the other families
            fam(ctx, B)
        except Exception:
            ctx.corr(f'{fam.__name__}-crash', False, traceback.format_exc(limit=6))
    B.flush()

"""C02 - EM iterations never decrease the mixture log-likelihood."""
import numpy as np

from .. import em_util as eu
from ..core import Fail, Skip, oracle
from ..lean import fbits, cbits, parse_floats, run_driver

ID = 'C02'
DRIVERS = ('driver_em',)
THEOREMS = [
]
ASSUMPTIONS = [
]

from pb_bss.distribution import CACGMMTrainer  # noqa: E402

TOL = 1e-9


def _tol(L):
    return TOL * (1 + np.abs(L))


# ----------------------------------------------------------------------------- correspondence
def corr(ctx):
    pass


# ----------------------------------------------------------------------------- oracles on the real code
def _per_slice(family, opts):
    """weights and components are per leading index -> every slice is an EM run of its own"""
    if family.startswith('gcacgmm'):
        return False
    w = opts.get('weight_constant_axis', (-1,))
    return w in (-2, [-1], (-1,))


def _likelihood(fam, model, data, opts, per_slice):
    lp = fam.log_pdf(model, data)
    return eu.mixture_ll(lp, fam.weight(model), opts.get('saliency'), per_slice=per_slice)


def _judge(name, family, fam, models, data, opts, per_slice):
    """models: list of the models after iteration 1, 2, ... ; returns Fail or (n_steps_judged, guard_reason)"""
    prev = None
    judged = 0
    for i, m in enumerate(models, start=1):
        g = fam.mstep_guard(m, opts)
        if g is not None:
            return judged, g
        L = np.asarray(_likelihood(fam, m, data, opts, per_slice))
        if not np.all(np.isfinite(L)):
            return Fail(f'likelihood-not-finite:{family}', f'{name}: log-likelihood after iteration {i} is {L}')
        if prev is not None:
            bad = L < prev - _tol(prev)
            if np.any(bad):
                j = int(np.argmax(prev - L))
                return Fail(f'likelihood-decreased:{family}',
                            f'{name}: L after iteration {i} = {L.ravel()[j]!r} < L after iteration {i - 1} = '
                            f'{prev.ravel()[j]!r} (drop {float((prev - L).ravel()[j]):.3e}); no guard active '
                            f'(options {_short_opts(opts)})', iteration=i)
            judged += 1
        g = fam.estep_guard(m, data, opts)
        if g is not None:
            return judged, g
        prev = L
    return judged, None


def _short_opts(opts):
    return {k: (v if not isinstance(v, np.ndarray) else f'array{v.shape}') for k, v in opts.items()}


@oracle
def em_monotone(family, y, e, init, opts, iterations):
    """models after iteration 1..n (a) of fit(iterations=i) from the same start, (b) of a continued fit;
    the independently recomputed (saliency weighted) mixture log-likelihood must not decrease while no guard is active"""
    fam = eu.FAMILIES[family]
    data = {'y': y, 'e': e}
    per_slice = _per_slice(family, opts) and y.ndim == 3
    try:
        same_start = [fam.fit(data, init, i, opts) for i in range(1, iterations + 1)]
        chain = [same_start[0]]
        for i in range(1, iterations):
            nxt = fam.continued(data, chain[-1], opts)
            if nxt is None:
                chain = None
                break
            chain.append(nxt)
    except ValueError as ex:
        if eu.is_singular_covariance_rejection(ex):
            return Skip('sklearn rejected a numerically singular class covariance')
        raise
    res = _judge('fit(iterations=i)', family, fam, same_start, data, opts, per_slice)
    if isinstance(res, Fail):
        return res
    judged, guard = res
    em_monotone.last = {'judged': judged, 'guard': guard, 'chain': chain is not None}
    if chain is not None:
        res = _judge('continued fit', family, fam, chain, data, opts, per_slice)
        if isinstance(res, Fail):
            return res
    if judged == 0 and iterations > 1:
        return Skip(f'guard active from the first iteration on ({guard})')


@oracle
def log_likelihood_method(y, init, opts, iterations):
    """CACGMM.log_likelihood(y) is the mixture log-likelihood including the mixture weights"""
    fam = eu.FAMILIES['cacgmm']
    model = fam.fit({'y': y}, init, iterations, opts)
    got = model.log_likelihood(y)
    want = eu.mixture_ll(fam.log_pdf(model, {'y': y}), model.weight)
    if not np.isscalar(got) and np.ndim(got) != 0:
        return Fail('log-likelihood-not-scalar', f'log_likelihood returned shape {np.shape(got)}')
    if not (got == want or abs(got - want) <= _tol(want)):
        free = eu.mixture_ll(fam.log_pdf(model, {'y': y}), 1.0)
        return Fail('log-likelihood-method-differs',
                    f'log_likelihood(y) = {got!r}, sum_n log sum_k pi_k p_k(y_n) = {want!r} '
                    f'(weight-free value would be {free!r})')
    # non-decreasing along a continued fit as well (no guard active)
    if fam.mstep_guard(model, opts) is None and fam.estep_guard(model, {'y': y}, opts) is None:
        nxt = fam.continued({'y': y}, model, opts)
        if fam.mstep_guard(nxt, opts) is None:
            got2 = nxt.log_likelihood(y)
            if opts.get('saliency') is None and got2 < got - _tol(got):
                return Fail('log-likelihood-method-decreased', f'log_likelihood fell from {got!r} to {got2!r}')


# ----------------------------------------------------------------------------- generators
WCA_PLAIN = [(-1,), (-1,), -2, (-3,), (-3, -1)]
WCA_INTEGRATION = [(-1,), (-3,), (-3, -1), (-3, -2, -1)]
SALIENCY = ['none', 'none', 'constant', 'random', 'integer', 'with-zeros']
FAMILY_STREAM = ['cacgmm', 'cwmm', 'gmm-full', 'gmm-diagonal', 'gmm-spherical', 'gcacgmm-spherical',
                 'cacgmm', 'gmm-full', 'gcacgmm-diagonal', 'cwmm', 'gcacgmm-full']


def gen_case(rng, family, max_iter, small=False):
    fam = eu.FAMILIES[family]
    K = int(rng.integers(2, 4 if small else 5))
    D = int(rng.integers(2, 5 if small else 7))
    if fam.has_embedding:
        F = int(rng.integers(1, 4))
        wca = WCA_INTEGRATION[int(rng.integers(len(WCA_INTEGRATION)))]
    else:
        wca = WCA_PLAIN[int(rng.integers(len(WCA_PLAIN)))]
        needs_lead = isinstance(wca, tuple) and -3 in wca
        F = int(rng.integers(1, 4)) if (needs_lead or rng.random() < 0.4) else None
    lead = () if F is None else (F,)
    E = int(rng.integers(2, 6)) if fam.has_embedding else None
    N = 4 * K * max(D, E or 0) + int(rng.integers(0, 20))
    y = eu.general_position(rng, lead, N, D, K, fam.complex_obs)
    e = eu.general_position(rng, lead, N, E, K, False) if fam.has_embedding else None
    init, ikind = eu.positive_start(rng, lead, K, N)
    skind = str(rng.choice(SALIENCY))
    opts = {'weight_constant_axis': list(wca) if isinstance(wca, tuple) else wca,
            'saliency': eu.make_saliency(rng, lead, N, skind)}
    if family == 'cacgmm' or fam.has_embedding:
        opts['covariance_norm'] = [
            'eigenvalue', 'trace', False][int(rng.integers(3))]
        opts['affiliation_eps'] = [0.0, 1e-10][int(rng.integers(2))]
    iterations = int(rng.integers(1, max_iter + 1))
    meta = dict(family=family, K=K, D=D, E=E, F=F, N=N, wca=str(wca), saliency=skind, start=ikind,
                covariance_norm=str(opts.get('covariance_norm')), iterations=iterations)
    return dict(family=family, y=y, e=e, init=init, opts=opts, iterations=iterations), meta


def search(ctx):
    rng = ctx.rng
    max_iter = 12 if ctx.tier == 'quick' else 50
    n = ctx.n(66, 1000)
    for i in range(n):
        if ctx.out_of_time(20):
            ctx.note(f'search stopped after {i} trajectories (time budget)')
            break
        family = FAMILY_STREAM[i % len(FAMILY_STREAM)]
        case, meta = gen_case(rng, family, max_iter, small=(i < 11))
        em_monotone.last = None
        held = ctx.run(em_monotone, **case)
        last = em_monotone.last or {}
        for k in ('family', 'wca', 'saliency', 'covariance_norm'):
            ctx.count(f'search-{k}:{meta[k]}')
        ctx.count('search-steps-judged', int(last.get('judged', 0)))
        ctx.count(f'search-guard:{last.get("guard")}')
        ctx.count('search-iterations-total', meta['iterations'])
        if i < 3:
            ctx.sample({'oracle': 'em_monotone', **meta, 'steps_judged': last.get('judged'), 'held': held})
    for i in range(ctx.n(12, 200)):
        if ctx.out_of_time(10):
            break
        case, meta = gen_case(rng, 'cacgmm', 6, small=True)
        case['opts']['saliency'] = None if rng.random() < 0.7 else case['opts']['saliency']
        del case['family'], case['e']
        ctx.count(f'search-loglik-method-wca:{meta["wca"]}')
        ctx.run(log_likelihood_method, **case)

"""C02 - EM iterations never decrease the mixture log-likelihood."""
import numpy as np

from .. import em_util as eu
from ..core import Fail, Skip, oracle
from ..lean import fbits, cbits, parse_floats, run_driver

ID = 'C02'
DRIVERS = ('driver_em',)
THEOREMS = [
    'PbBss.C02.em_bound',
    'PbBss.C02.gem_step',
    'PbBss.C02.weights_maximise_Q',
    'PbBss.C02.eStep_is_posterior',
    'PbBss.C02.fit_alternation',
    'PbBss.C02.em_step_monotone',
    'PbBss.C02.em_monotone',
    'PbBss.C02.iterate_weight_invariants',
    'PbBss.C02.logLik_method',
    'PbBss.C02.sph_mstep_Q',
    'PbBss.C02.diag_mstep_Q',
    'PbBss.C02.full_mstep_Q',
    'PbBss.C02.watson_mstep_Q',
    'PbBss.C02.watson_tangent_of_convex',
    'PbBss.C02.watson_kernel_is_1F1',
    'PbBss.C02.watson_lognorm_convex',
    'PbBss.C02.watson_lognorm_deriv',
    'PbBss.C02.watson_tangent_exact',
    'PbBss.C02.watson_mstep_Q_exact',
    'PbBss.C02.gaussian_full_crux',
    'PbBss.C02.product_mstep_Q',
    'PbBss.C02.cacg_mstep_Q',
    'PbBss.C02.tyler_step_Q',
    'PbBss.C02.cacg_scale_invariant',
    'PbBss.C02.cacg_logPdf_is_density',
    'PbBss.C02.em_monotone_gmm_spherical',
    'PbBss.C02.em_monotone_gmm_diagonal',
    'PbBss.C02.em_monotone_gmm_full',
    'PbBss.C02.em_monotone_cwmm',
    'PbBss.C02.em_monotone_cwmm_exact',
    'PbBss.C02.em_monotone_cacgmm',
    'PbBss.C02.em_monotone_gcacgmm',
]
ASSUMPTIONS = [
    "guards inactive on the judged stretch of the history (weights positive, E-step denominator clamp inactive, class mass >= tiny, "
    "variances positive, cACG quadratic forms >= 10*tiny and eigenvalue/trace floors inactive, Watson concentration not clipped)",
    "contracts of the externals: eigh (orthonormal eigenvectors, A U = U diag(lambda)), get_pca (unit top eigenvector, Rayleigh "
    "maximal), Watson concentration = exact inverse of the hypergeometric ratio (for the true log-normaliser C + log 1F1(1;D;kappa) "
    "convexity and the tangent condition are proved: watson_lognorm_convex, watson_tangent_exact, em_monotone_cwmm_exact); the code's "
    "spline only approximates the exact inverse (error measured in the correspondence run)",
    "with a saliency the monitored quantity is the saliency-weighted log-likelihood (DESIGN.md 5c)",
    "sklearn's precision-Cholesky routine is an external with the contract PcholOk (upper triangular P, positive diagonal, "
    "(P P^T) Sigma = 1, log-det = sum log P_dd); the driver uses a Cholesky routine of its own on Float",
    "GCACGMM = prodFamily (sliced cACG) Gaussian with the inline weight update (WeightRule.tinyFloor); unit stream weights, no "
    "inline permutation alignment, affiliation_eps = 0 in the model (the search also runs eps = 1e-10 and judges only guard-free stretches)",
]

from pb_bss.distribution import CACGMMTrainer  # noqa: E402

TOL = 1e-9


def _tol(L):
    return TOL * (1 + np.abs(L))


# ----------------------------------------------------------------------------- correspondence
RTOL = 1e-9


def _close(a, b, scale=None):
    a = np.asarray(a)
    b = np.asarray(b)
    if a.shape != b.shape:
        return False, f'shape {a.shape} vs {b.shape}'
    if a.size == 0:
        return True, ''
    sc = max(1.0, float(np.max(np.abs(b)))) if scale is None else scale
    err = float(np.max(np.abs(a - b)))
    return (np.all(np.isfinite(a)) and err <= RTOL * sc), f'max abs diff {err:.3e} (scale {sc:.3g})'


def _flat_kn(x, F, K, N):
    """(F, K, N) or broadcastable -> [K][F*N] with flat observation index f*N + n"""
    x = np.broadcast_to(np.asarray(x, dtype=np.float64), (F, K, N))
    return np.ascontiguousarray(np.transpose(x, (1, 0, 2)).reshape(K, F * N))


def _header(F, K, N, D, rule, wca, saliency):
    """common part of a driver line (see lean/Driver/OpsEm.lean); N is per slice here, F*N flat observations"""
    NT = F * N
    f_idx = np.repeat(np.arange(F), N)
    n_idx = np.tile(np.arange(N), F)
    uniform = 0
    if wca == -2 or (isinstance(wca, tuple) and -2 in wca):
        uniform, grp, G = 1, np.zeros(NT, dtype=int), 1
    elif wca == (-1,):
        grp, G = f_idx, F
    elif wca == (-3,):
        grp, G = n_idx, N
    elif wca == (-3, -1):
        grp, G = np.zeros(NT, dtype=int), 1
    else:
        raise ValueError(wca)
    s = np.ones(NT) if saliency is None else np.asarray(saliency, dtype=np.float64).reshape(NT)
    return f'{F} {K} {NT} {D} {rule} {uniform} {G} {eu_ints(grp)} {eu_ints(f_idx)} {fbits(s)}'


def eu_ints(a):
    return ' '.join(str(int(v)) for v in np.asarray(a).ravel())


def _groups(line):
    return [parse_floats(g) for g in line.split('|')]


def _corr_case(rng, family):
    """one step-wise EM correspondence case: the code's model after iteration i and after i+1"""
    fam = eu.FAMILIES[family]
    if fam.has_embedding:
        return _corr_case_integration(rng, family)
    K = int(rng.integers(2, 5))
    D = int(rng.integers(2, 6))
    wca = [(-1,), -2, (-3,), (-3, -1)][int(rng.integers(4))]
    F = 1 if family in ('cwmm', 'cacgmm') else int(rng.integers(1, 4))
    if family in ('cwmm', 'cacgmm') and wca in ((-3,), (-3, -1)):
        wca = (-1,)
    N = 4 * K * D + int(rng.integers(0, 10))
    y = eu.general_position(rng, (F,), N, D, K, fam.complex_obs)
    init, _ = eu.positive_start(rng, (F,), K, N)
    skind = str(rng.choice(['none', 'random', 'integer']))
    sal = eu.make_saliency(rng, (F,), N, skind)
    opts = {'weight_constant_axis': list(wca) if isinstance(wca, tuple) else wca, 'saliency': sal}
    if family == 'cacgmm':
        opts['covariance_norm'] = ['eigenvalue', 'trace', False][int(rng.integers(3))]
        opts['affiliation_eps'] = 0.0
    i = int(rng.integers(1, 7))
    if family.startswith('gmm-') and rng.random() < 0.25:
        y = _uncentred(rng, y)
    return dict(family=family, F=F, K=K, D=D, N=N, wca=wca, y=y, init=init, opts=opts, i=i, saliency=skind)


def _uncentred(rng, x):
    """un-centred Gaussian data (a common offset of 1e3..3e4 standard deviations): model and code both form deviations from
    the mean before squaring, so they still agree to 1e-9; a second-moment formula (E x^2 - mean^2) does not"""
    return x + 10.0 ** float(rng.uniform(3, 4.5)) * float(np.std(x)) * rng.choice([-1.0, 1.0], size=x.shape[-1])


def _corr_case_integration(rng, family):
    """GCACGMM: observations (F, T, D) + embeddings (F, T, E); one cACG per bin and class, one Gaussian per class"""
    K = int(rng.integers(2, 4))
    D = int(rng.integers(2, 5))
    E = int(rng.integers(2, 5))
    F = int(rng.integers(1, 4))
    wca = [(-1,), (-3,), (-3, -1), (-3, -2, -1)][int(rng.integers(4))]
    N = 4 * K * max(D, E) + int(rng.integers(0, 8))
    y = eu.general_position(rng, (F,), N, D, K, True)
    e = eu.general_position(rng, (F,), N, E, K, False)
    init, _ = eu.positive_start(rng, (F,), K, N)
    skind = str(rng.choice(['none', 'random', 'integer']))
    sal = eu.make_saliency(rng, (F,), N, skind)
    if rng.random() < 0.25:
        e = _uncentred(rng, e)
    opts = {'weight_constant_axis': list(wca), 'saliency': sal,
            'covariance_norm': ['eigenvalue', 'trace', False][int(rng.integers(3))], 'affiliation_eps': 0.0}
    return dict(family=family, F=F, K=K, D=D, E=E, N=N, wca=wca, y=y, e=e, init=init, opts=opts, i=int(rng.integers(1, 6)),
                saliency=skind)


def _line(c, m):
    if c['family'].startswith('gcacgmm'):
        F, K, D, E, N = c['F'], c['K'], c['D'], c['E'], c['N']
        hd = _header(F, K, N, D, 2, c['wca'], c['opts']['saliency'])
        nrm = {'eigenvalue': 0, 'trace': 1, False: 2}[c['opts']['covariance_norm']]
        w = _flat_kn(eu.FAMILIES[c['family']].weight(m), F, K, N)
        op = {'gcacgmm-spherical': 'gcacgmm-sph', 'gcacgmm-diagonal': 'gcacgmm-diag', 'gcacgmm-full': 'gcacgmm-full'}[c['family']]
        return f'{op} {hd} {E} {nrm} {fbits(np.array(1e-10))} {cbits(eu.unit(c["y"]))} {fbits(c["e"])} {fbits(w)} ' \
               f'{cbits(m.cacg.covariance_eigenvectors)} {fbits(m.cacg.covariance_eigenvalues)} {fbits(m.gaussian.mean)} ' \
               f'{fbits(m.gaussian.covariance)}'
    """driver line for the code's model `m` (iterate i) of case `c`; returns (line, expectations needed later)"""
    family, F, K, D, N = c['family'], c['F'], c['K'], c['D'], c['N']
    sal = c['opts']['saliency']
    y = c['y']
    w = _flat_kn(m.weight, F, K, N)
    if family.startswith('gmm-'):
        hd = _header(F, K, N, D, 1, c['wca'], sal)
        g = m.gaussian
        op = {'gmm-spherical': 'gmm-sph', 'gmm-diagonal': 'gmm-diag', 'gmm-full': 'gmm-full'}[family]
        return f'{op} {hd} {fbits(y)} {fbits(w)} {fbits(g.mean)} {fbits(g.covariance)}'
    if family == 'vmfmm':
        hd = _header(F, K, N, D, 1, c['wca'], sal)
        v = m.vmf
        lo, hi = c['opts'].get('min_concentration', 1e-10), c['opts'].get('max_concentration', 500)
        yn = y / np.maximum(np.linalg.norm(y, axis=-1, keepdims=True), np.finfo(y.dtype).tiny)
        return f'vmf {hd} {fbits(np.array([lo, hi]))} {fbits(yn)} {fbits(w)} {fbits(v.mean)} {fbits(v.concentration)} ' \
               f'{fbits(v.log_norm())}'
    z = eu.unit(y)
    if family == 'cwmm':
        hd = _header(1, K, N, D, 1, c['wca'], sal)
        cw = m.complex_watson
        return f'watson {hd} {cbits(z)} {fbits(w)} {cbits(cw.mode)} {fbits(cw.concentration)} {fbits(cw.log_norm())}'
    hd = _header(1, K, N, D, 0 if sal is None else 1, c['wca'], sal)
    nrm = {'eigenvalue': 0, 'trace': 1, False: 2}[c['opts']['covariance_norm']]
    return f'cacg {hd} {nrm} {fbits(np.array(1e-10))} {cbits(z)} {fbits(w)} {cbits(m.cacg.covariance_eigenvectors)} ' \
           f'{fbits(m.cacg.covariance_eigenvalues)}'


def singular_full_covariance(family, m):
    """a full class covariance of the code's iterate that is singular to working precision (condition number >= 1e11)"""
    if not family.endswith('-full'):
        return False
    cond = float(np.max(np.linalg.cond(np.asarray(m.gaussian.covariance, dtype=np.float64))))
    return not cond < 1e11


def _compare(ctx, c, m, m_next, out):
    family, F, K, D, N = c['family'], c['F'], c['K'], c['D'], c['N']
    fam = eu.FAMILIES[family]
    data = {'y': c['y'], 'e': c.get('e')}
    sal = c['opts']['saliency']
    g = _groups(out)
    tag = f'{family} K={K} D={D} N={N} F={F} wca={c["wca"]} saliency={c["saliency"]} i={c["i"]}'

    def rep(op, ok, detail):
        if not ok and not any(c is d for d in _DISAGREE):
            _DISAGREE.append(c)
        ctx.corr(f'{op}[{family}]', ok, f'{tag}: {detail}', {k: v for k, v in c.items() if k in ('y', 'init', 'opts', 'i')})
    if singular_full_covariance(family, m):
        if True:
            # a class covariance that is singular to working precision (collapsed class): whether a Cholesky factorisation
            # exists at all is decided by rounding (the driver's fails where LAPACK's barely succeeds, or the reverse)
            ctx.count(f'corr-not-compared:numerically-singular-full-covariance[{family}]')
            return 'not-compared'
    # log-likelihood of iterate i: model logLik (plain formula), logLikMethod (logsumexp form) vs independent value
    L = eu.mixture_ll(fam.log_pdf(m, data), fam.weight(m), sal)
    ok, d = _close(g[0][0], L, scale=1 + abs(L))
    rep('logLik', ok, f'model {g[0][0]!r} vs code {L!r}: {d}')
    if sal is None:
        Lm = eu.mixture_ll(fam.log_pdf(m, data), fam.weight(m), None)
        if family == 'cacgmm':
            Lm = float(m.log_likelihood(c['y']))
        ok, d = _close(g[0][1], Lm, scale=1 + abs(Lm))
        rep('logLikMethod', ok, f'model {g[0][1]!r} vs code {Lm!r}: {d}')
    # E-step (full covariances: the driver's Cholesky and LAPACK's agree to ~1e-16 * condition number)
    cs = 1.0
    if family.endswith('-full'):
        cs = max(1.0, 1e-4 * float(np.max(np.linalg.cond(np.asarray(m.gaussian.covariance, dtype=np.float64)))))
    post = _flat_kn(fam.predict(m, data), F, K, N)
    ok, d = _close(g[1].reshape(K, F * N), post, scale=cs)
    rep('eStep', ok, d)
    # M-step: weights of iterate i+1
    ok, d = _close(g[2].reshape(K, F * N), _flat_kn(fam.weight(m_next), F, K, N), scale=cs)
    rep('mWeight', ok, d)
    if family.startswith('gcacgmm'):
        aff, q = m._predict(eu.unit(c['y']), c['e'], affiliation_eps=0.0, inline_permutation_alignment=False)
        ok, d = _close(g[3].reshape(K, F * N), _flat_kn(q, F, K, N), scale=float(np.max(q)))
        rep('eStep-quadratic-form', ok, d)
        cn = m_next.cacg
        ok, d = _close(np.sort(g[4].reshape(F, K, D), axis=-1), np.sort(np.reshape(cn.covariance_eigenvalues, (F, K, D)), axis=-1))
        rep('mstep-eigenvalues', ok, d)
        ok, d = _close(g[5].view(np.complex128).reshape(F, K, D, D), np.reshape(cn.covariance, (F, K, D, D)))
        rep('mstep-covariance', ok, d)
        gn = m_next.gaussian
        ok, d = _close(g[6].reshape(np.shape(gn.mean)), gn.mean)
        rep('mstep-gaussian-mean', ok, d)
        ok, d = _close(g[7].reshape(np.shape(gn.covariance)), gn.covariance)
        rep('mstep-gaussian-covariance', ok, d)
    elif family == 'vmfmm':
        vn = m_next.vmf
        ok, d = _close(g[3].reshape(F, K, D), np.reshape(vn.mean, (F, K, D)))
        rep('mstep-mean', ok, d)
        # Banerjee's formula has condition ~ concentration near r_bar = 1
        kn = np.reshape(vn.concentration, (F, K))
        ok, d = _close(g[4].reshape(F, K), kn, scale=float(max(1.0, np.max(kn) ** 2)))
        rep('mstep-concentration', ok, d)
    elif family.startswith('gmm-'):
        gn = m_next.gaussian
        # the new mean / covariance are posterior-weighted moments: they inherit the conditioning `cs` of the E-step
        ok, d = _close(g[3].reshape(F, K, D), np.reshape(gn.mean, (F, K, D)), scale=cs * max(1.0, float(np.max(np.abs(gn.mean)))))
        rep('mstep-mean', ok, d)
        ok, d = _close(g[4].reshape(np.shape(gn.covariance)), gn.covariance, scale=cs * max(1.0, float(np.max(np.abs(gn.covariance)))))
        rep('mstep-covariance', ok, d)
    elif family == 'cwmm':
        cov = g[3].view(np.complex128).reshape(K, D, D)
        cw = m_next.complex_watson
        trainer = eu.ComplexWatsonTrainer(D)
        for k in range(K):
            ev = np.linalg.eigvalsh((cov[k] + cov[k].conj().T) / 2)
            res = np.linalg.norm(cov[k] @ cw.mode[0, k] - ev[-1] * cw.mode[0, k])
            rep('mstep-pca-contract', res <= 1e-9, f'class {k}: |S m - lambda_max m| = {res:.3e}')
            kap = float(trainer.hypergeometric_ratio_inverse(ev[-1]))
            rep('mstep-spline-contract', abs(kap - cw.concentration[0, k]) <= 1e-7 * max(1.0, kap),
                f'class {k}: spline(lambda_max of the model scatter) = {kap!r} vs code {cw.concentration[0, k]!r}')
            r = float(trainer.hypergeometric_ratio(cw.concentration[0, k]))
            ctx.count('watson-spline-error<=1e-6' if abs(r - ev[-1]) <= 1e-6 else 'watson-spline-error>1e-6')
    else:
        aff, q = m.predict(c['y'], return_quadratic_form=True)
        ok, d = _close(g[3].reshape(K, N), np.reshape(q, (K, N)), scale=float(np.max(q)))
        rep('eStep-quadratic-form', ok, d)
        cn = m_next.cacg
        ok, d = _close(np.sort(g[4].reshape(K, D), axis=-1), np.sort(np.reshape(cn.covariance_eigenvalues, (K, D)), axis=-1))
        rep('mstep-eigenvalues', ok, d)
        ok, d = _close(g[5].view(np.complex128).reshape(K, D, D), np.reshape(cn.covariance, (K, D, D)))
        rep('mstep-covariance', ok, d)


_DISAGREE = []          # correspondence cases on which model and code differ: the search starts from them


def corr(ctx):
    rng = ctx.rng
    fams = ['gmm-spherical', 'gmm-diagonal', 'cwmm', 'cacgmm', 'gmm-full', 'gcacgmm-spherical', 'gcacgmm-diagonal',
            'gcacgmm-full']
    n = ctx.n(120, 2000)
    cases, lines, models = [], [], []
    for j in range(n):
        c = _corr_case(rng, fams[j % len(fams)])
        fam = eu.FAMILIES[c['family']]
        data = {'y': c['y'], 'e': c.get('e')}
        try:
            m = fam.fit(data, c['init'], c['i'], c['opts'])
            m_next = fam.fit(data, c['init'], c['i'] + 1, c['opts'])
        except ValueError as ex:
            if eu.is_singular_covariance_rejection(ex):
                ctx.count('corr-skip-singular-covariance')
                continue
            raise
        if fam.mstep_guard(m_next, c['opts']) or fam.mstep_guard(m, c['opts']):
            ctx.count('corr-skip-guard-active')       # the model has no clipping / the spline's fill values
            continue
        cases.append(c)
        models.append((m, m_next))
        lines.append(_line(c, m))
        ctx.count(f'corr-family:{c["family"]}')
        ctx.count(f'corr-wca:{c["wca"]}')
    outs = run_driver(lines, exe='driver_em')
    for c, (m, m_next), out in zip(cases, models, outs):
        if out.strip() == 'bad-op':
            ctx.corr(f'driver[{c["family"]}]', False, 'driver answered bad-op')
            continue
        _compare(ctx, c, m, m_next, out)
    if cases:
        c = cases[0]
        ctx.sample({'op': 'em-step', 'family': c['family'], 'K': c['K'], 'D': c['D'], 'N': c['N'], 'F': c['F'],
                    'wca': str(c['wca']), 'iterate': c['i']})


# ----------------------------------------------------------------------------- oracles on the real code
def _per_slice(family, opts):
    """weights and components are per leading index -> every slice is an EM run of its own"""
    if family.startswith('gcacgmm'):
        return False
    w = opts.get('weight_constant_axis', (-1,))
    return w in (-2, [-1], (-1,))


def _likelihood(fam, model, data, opts, per_slice):
    lp = fam.log_pdf(model, data)
    return eu.mixture_ll(lp, fam.weight(model), opts.get('saliency'), per_slice=per_slice)


def _cancellation(family, data):
    """'up to rounding' for un-centred Gaussian data: deviations y - mean are formed at the magnitude of y, so they (and the
    log-likelihood) carry a relative error of eps * max|y| / spread; factor >= 1 applied to the 1e-9 tolerance"""
    if not (family.startswith('gmm') or family.startswith('gcacgmm')):
        return 1.0
    x = np.asarray(data['e'] if family.startswith('gcacgmm') else data['y'], dtype=np.float64)
    spread = float(np.median(np.abs(x - np.median(x, axis=-2, keepdims=True)))) or 1.0
    return max(1.0, 1e-4 * float(np.max(np.abs(x))) / spread)


def _judge(name, family, fam, models, data, opts, per_slice):
    """models: list of the models after iteration 1, 2, ... ; returns Fail or (n_steps_judged, guard_reason)"""
    cf = _cancellation(family, data)
    prev = None
    judged = 0
    for i, m in enumerate(models, start=1):
        g = fam.mstep_guard(m, opts)
        if g is not None:
            return judged, g
        if singular_full_covariance(family, m):
            # a class collapsed onto fewer than D + 1 points: its full covariance is singular to working precision
            # (condition >= 1e11; sklearn's Cholesky check only just accepts it), the whitened residuals and with them the
            # likelihood carry a relative error of condition * eps - "up to rounding" decides nothing from here on
            return judged, 'numerically-singular-full-covariance'
        if np.any(np.asarray(fam.weight(m)) == 0):
            # from strictly positive start values an exact EM iterate has strictly positive mixture weights; an exact 0.0 is
            # a posterior that underflowed (per-observation priors of weight_constant_axis=-3 keep it for ever, and once
            # the other classes move away the observation is left with prior [0, 0] and likelihood -inf).  Underflow is
            # not rounding: the judged prefix ends here, like at a clipped posterior
            return judged, 'mixture-weight-underflow'
        L = np.asarray(_likelihood(fam, m, data, opts, per_slice))
        if not np.all(np.isfinite(L)):
            return Fail(f'likelihood-not-finite:{family}', f'{name}: log-likelihood after iteration {i} is {L}')
        if prev is not None:
            bad = L < prev - cf * _tol(prev)
            if np.any(bad):
                j = int(np.argmax(prev - L))
                return Fail(f'likelihood-decreased:{family}',
                            f'{name}: L after iteration {i} = {L.ravel()[j]!r} < L after iteration {i - 1} = '
                            f'{prev.ravel()[j]!r} (drop {float((prev - L).ravel()[j]):.3e}); no guard active '
                            f'(options {_short_opts(opts)})', iteration=i)
            judged += 1
        g = fam.estep_guard(m, data, opts)
        if g is not None:
            return judged, g
        prev = L
    return judged, None


def _short_opts(opts):
    return {k: (v if not isinstance(v, np.ndarray) else f'array{v.shape}') for k, v in opts.items()}


@oracle
def em_monotone(family, y, e, init, opts, iterations):
    """models after iteration 1..n (a) of fit(iterations=i) from the same start, (b) of a continued fit;
    the independently recomputed (saliency weighted) mixture log-likelihood must not decrease while no guard is active"""
    fam = eu.FAMILIES[family]
    data = {'y': y, 'e': e}
    per_slice = _per_slice(family, opts) and y.ndim == 3
    try:
        same_start = [fam.fit(data, init, i, opts) for i in range(1, iterations + 1)]
        chain = [same_start[0]]
        for i in range(1, iterations):
            nxt = fam.continued(data, chain[-1], opts)
            if nxt is None:
                chain = None
                break
            chain.append(nxt)
    except ValueError as ex:
        if eu.is_singular_covariance_rejection(ex):
            return Skip('sklearn rejected a numerically singular class covariance')
        raise
    res = _judge('fit(iterations=i)', family, fam, same_start, data, opts, per_slice)
    if isinstance(res, Fail):
        return res
    judged, guard = res
    em_monotone.last = {'judged': judged, 'guard': guard, 'chain': chain is not None}
    if chain is not None:
        res = _judge('continued fit', family, fam, chain, data, opts, per_slice)
        if isinstance(res, Fail):
            return res
    if judged == 0 and iterations > 1:
        return Skip(f'guard active from the first iteration on ({guard})')


@oracle
def log_likelihood_method(y, init, opts, iterations):
    """CACGMM.log_likelihood(y) is the mixture log-likelihood including the mixture weights"""
    fam = eu.FAMILIES['cacgmm']
    model = fam.fit({'y': y}, init, iterations, opts)
    got = model.log_likelihood(y)
    want = eu.mixture_ll(fam.log_pdf(model, {'y': y}), model.weight)
    if not np.isscalar(got) and np.ndim(got) != 0:
        return Fail('log-likelihood-not-scalar', f'log_likelihood returned shape {np.shape(got)}')
    if not (got == want or abs(got - want) <= _tol(want)):
        free = eu.mixture_ll(fam.log_pdf(model, {'y': y}), 1.0)
        return Fail('log-likelihood-method-differs',
                    f'log_likelihood(y) = {got!r}, sum_n log sum_k pi_k p_k(y_n) = {want!r} '
                    f'(weight-free value would be {free!r})')
    # non-decreasing along a continued fit as well (no guard active)
    if fam.mstep_guard(model, opts) is None and fam.estep_guard(model, {'y': y}, opts) is None:
        nxt = fam.continued({'y': y}, model, opts)
        if fam.mstep_guard(nxt, opts) is None:
            got2 = nxt.log_likelihood(y)
            if opts.get('saliency') is None and got2 < got - _tol(got):
                return Fail('log-likelihood-method-decreased', f'log_likelihood fell from {got!r} to {got2!r}')


# ----------------------------------------------------------------------------- generators
WCA_PLAIN = [(-1,), (-1,), -2, (-3,), (-3, -1)]
WCA_INTEGRATION = [(-1,), (-3,), (-3, -1), (-3, -2, -1)]
SALIENCY = ['none', 'none', 'constant', 'random', 'integer', 'with-zeros', 'slice-scaled']
FAMILY_STREAM = ['cacgmm', 'cwmm', 'gmm-full', 'gmm-diagonal', 'gmm-spherical', 'gcacgmm-spherical',
                 'cacgmm', 'gmm-full', 'gcacgmm-diagonal', 'cwmm', 'gcacgmm-full']


def gen_case(rng, family, max_iter, small=False):
    fam = eu.FAMILIES[family]
    K = int(rng.integers(2, 4 if small else 5))
    D = int(rng.integers(2, 5 if small else 7))
    if fam.has_embedding:
        F = int(rng.integers(1, 4))
        wca = WCA_INTEGRATION[int(rng.integers(len(WCA_INTEGRATION)))]
    else:
        wca = WCA_PLAIN[int(rng.integers(len(WCA_PLAIN)))]
        needs_lead = isinstance(wca, tuple) and -3 in wca
        F = int(rng.integers(1, 4)) if (needs_lead or rng.random() < 0.4) else None
    lead = () if F is None else (F,)
    E = int(rng.integers(2, 6)) if fam.has_embedding else None
    N = 4 * K * max(D, E or 0) + int(rng.integers(0, 20))
    with_outliers = (family.startswith('gmm') or fam.has_embedding) and rng.random() < 0.35
    if with_outliers:
        # the leverage of an outlier bounds its Mahalanobis distance by ~N / (number of outliers): many observations
        N = int(rng.integers(2000, 6000))
    y = eu.general_position(rng, lead, N, D, K, fam.complex_obs)
    e = eu.general_position(rng, lead, N, E, K, False) if fam.has_embedding else None
    outliers = 0
    if with_outliers:
        # a few gross outliers (log-pdf hundreds of thousands below the rest of the slice)
        x = e if fam.has_embedding else y
        outliers = int(rng.integers(1, 5))
        idx = rng.choice(N, outliers, replace=False)
        x[..., idx, :] = x[..., idx, :] * 10.0 ** rng.uniform(1.5, 3.5) * np.std(x)
    offset = 0
    if (family.startswith('gmm') or fam.has_embedding) and not with_outliers and rng.random() < 0.4:
        # un-centred data: a common offset of 1e3..1e7 standard deviations (a Gaussian mixture is translation equivariant)
        x = e if fam.has_embedding else y
        offset = int(rng.integers(3, 8))
        x += 10.0 ** offset * float(np.std(x)) * rng.choice([-1.0, 1.0], size=x.shape[-1])
    init, ikind = eu.positive_start(rng, lead, K, N)
    skind = str(rng.choice(SALIENCY))
    opts = {'weight_constant_axis': list(wca) if isinstance(wca, tuple) else wca,
            'saliency': eu.make_saliency(rng, lead, N, skind)}
    if family == 'cacgmm' or fam.has_embedding:
        opts['covariance_norm'] = [
            'eigenvalue', 'trace', False][int(rng.integers(3))]
        opts['affiliation_eps'] = [0.0, 1e-10][int(rng.integers(2))]
    if (family.startswith('gmm') or family.startswith('gcacgmm')) and rng.random() < 0.15:
        # documented option: class covariances given, only the means are learned (an exact M-step over the means)
        x = e if fam.has_embedding else y
        opts['fixed_covariance'] = float(np.var(x) * rng.choice([0.5, 1.0, 2.0]))
    iterations = int(rng.integers(1, max_iter + 1))
    meta = dict(family=family, K=K, D=D, E=E, F=F, N=N, wca=str(wca), saliency=skind, start=ikind,
                covariance_norm=str(opts.get('covariance_norm')), iterations=iterations, outliers=outliers, offset=offset, fixed_covariance='fixed_covariance' in opts)
    return dict(family=family, y=y, e=e, init=init, opts=opts, iterations=iterations), meta


def search(ctx):
    rng = ctx.rng
    max_iter = 12 if ctx.tier == 'quick' else 50
    # failing-input search aimed at the disagreeing operation: long trajectories from the very configurations on which
    # the model's step and the code's step differ
    for c in _DISAGREE[:12]:
        if ctx.out_of_time(60):
            break
        ctx.count('search-from-correspondence-disagreement')
        ctx.run(em_monotone, family=c['family'], y=c['y'], e=c.get('e'), init=c['init'], opts=c['opts'], iterations=40)
    n = ctx.n(66, 1000)
    for i in range(n):
        if ctx.out_of_time(20):
            ctx.note(f'search stopped after {i} trajectories (time budget)')
            break
        family = FAMILY_STREAM[i % len(FAMILY_STREAM)]
        case, meta = gen_case(rng, family, max_iter, small=(i < 11))
        em_monotone.last = None
        held = ctx.run(em_monotone, **case)
        last = em_monotone.last or {}
        for k in ('family', 'wca', 'saliency', 'covariance_norm', 'outliers', 'offset', 'fixed_covariance'):
            ctx.count(f'search-{k}:{meta[k]}')
        ctx.count('search-steps-judged', int(last.get('judged', 0)))
        ctx.count(f'search-guard:{last.get("guard")}')
        ctx.count('search-iterations-total', meta['iterations'])
        if i < 3:
            ctx.sample({'oracle': 'em_monotone', **meta, 'steps_judged': last.get('judged'), 'held': held})
    for i in range(ctx.n(12, 200)):
        if ctx.out_of_time(10):
            break
        case, meta = gen_case(rng, 'cacgmm', 6, small=True)
        case['opts']['saliency'] = None if rng.random() < 0.7 else case['opts']['saliency']
        del case['family'], case['e']
        ctx.count(f'search-loglik-method-wca:{meta["wca"]}')
        ctx.run(log_likelihood_method, **case)

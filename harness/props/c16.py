"""C16 - blind alignment restores a frequency-consistent class order."""
import numpy as np

from .. import gen, pyref
from ..core import Fail, Skip, oracle
from ..lean import fbits, parse_ints, parse_floats, run_driver

ID = 'C16'
DRIVERS = ('driver',)
THEOREMS = [
    'PbBss.C16.plan_covers',
    'PbBss.C16.plan_segments_within',
    'PbBss.C16.dhtv_net_reordering',
    'PbBss.C16.greedyAligner_net',
    'PbBss.C16.consistent_identity',
    'PbBss.C16.greedyAligner_restores',
    'PbBss.C16.jitter_cos_dominant',
    'PbBss.C16.dhtv_identity_on_dominant',
    'PbBss.C16.greedyAligner_consistent_in_domain',
    'PbBss.C16.dhtv_majority',
    'PbBss.C16.planOk_step_of_two_thirds',
    'PbBss.C16.dhtv_restores_in_domain',
    'PbBss.C16.planOk_of_first_majority',
    'PbBss.C16.shipped_512_planOk',
    'PbBss.C16.shipped_1024_planOk',
    'PbBss.C16.shipped_512_plan',
    'PbBss.C16.twoLevel_patterns_in_domain',
    'PbBss.C16.twoLevel_restored_by_greedy',
    'PbBss.C16.em_posteriors_restored_by_greedy',
    'PbBss.C16.em_posteriors_restored_by_dhtv',
]
ASSUMPTIONS = [
    'DHTV convergence from a first-segment majority is a theorem for the cos and multiply metrics (dhtv_majority, '
    'dhtv_restores_in_domain, shipped_512/1024_planOk); for the euclidean metric it is decided by search only',
    'tie-free masks: decisions within 1e-9 relative margin are counted as ties, not judged',
]

from pb_bss import permutation_alignment as pa  # noqa: E402

METRICS = ['cos', 'euclidean', 'multiply']


# ----------------------------------------------------------------------------- correspondence
def corr(ctx):
    rng = ctx.rng
    # alignment plans: exhaustive for small STFT sizes + shipped defaults, exact
    maxsize = 24 if ctx.tier == 'quick' else 64
    lines, want = [], []
    for size in range(2, maxsize + 1, 2):
        F = size // 2 + 1
        for start in range(0, F):
            for width in range(1, F - start + 1):
                for shift in range(1, width + 3):
                    p = pa.DHTVPermutationAlignment(
                        stft_size=size, segment_start=start, segment_width=width, segment_shift=shift,
                        main_iterations=20, sub_iterations=2).alignment_plan
                    lines.append(f'plan {F} {start} {width} {shift}')
                    want.append([x for seg in p for x in seg[1:]])
    for size in (512, 1024):
        o = pa.DHTVPermutationAlignment.from_stft_size(size)
        lines.append(f'plan {size // 2 + 1} {o.segment_start} {o.segment_width} {o.segment_shift}')
        want.append([x for seg in o.alignment_plan for x in seg[1:]])
    out = run_driver(lines)
    for ln, w, o in zip(lines, want, out):
        got = parse_ints(o).tolist()
        ctx.corr('alignment_plan', got == w, f'{ln}: code={w} model={got}', {'line': ln})
    ctx.count('corr-plans-exhaustive-stft<=%d' % maxsize, len(lines) - 2)
    ctx.sample({'op': lines[-2], 'plan(lo,hi)*': want[-2]})
    # mapping of DHTV / greedy aligner vs the loop-level model on continuous random masks (K 1..5, odd F 1..61)
    lines, metas = [], []
    for _ in range(ctx.n(100, 2000)):
        K = int(rng.integers(1, 6))
        F = gen.odd(rng, 1, 25 if ctx.tier == 'quick' else 61)
        T = int(rng.integers(1, 10))
        mask = rng.random((K, F, T))
        metric = str(rng.choice(METRICS))
        algo = str(rng.choice(['greedy', 'optimal'])) if K <= 4 else 'greedy'
        if rng.random() < 0.7:
            cfg = gen.dhtv_cfg(rng, F)
            plan = pa.DHTVPermutationAlignment(**cfg).alignment_plan
            flat = ' '.join(f'{a} {b} {c}' for a, b, c in plan)
            lines.append(f'dhtv {metric} {algo} {K} {F} {T} {len(plan)} {flat} {fbits(mask)}')
            metas.append(('dhtv', mask, metric, algo, cfg, plan))
        else:
            lines.append(f'galign {metric} {K} {F} {T} {fbits(mask)}')
            metas.append(('galign', mask, metric, algo, None, None))
    out = run_driver(lines)
    for (which, mask, metric, algo, cfg, plan), o in zip(metas, out):
        K, F, T = mask.shape
        if which == 'dhtv':
            wantm = pa.DHTVPermutationAlignment(**cfg, similarity_metric=metric, algorithm=algo).calculate_mapping(mask.copy(order='K'))
            got = parse_ints(o.split('|')[0]).reshape(K, F)
            feats = parse_floats(o.split('|')[1]).reshape(K, F, T)
            margin = pyref.ref_dhtv(mask, plan, metric, algo)[2]
            f0 = pyref.vec_norm(mask) if metric == 'cos' else mask
            net_ok = np.allclose(feats, pa.apply_mapping(f0, wantm), rtol=1e-12, atol=1e-300)
        else:
            wantm = pa.GreedyPermutationAlignment(metric).calculate_mapping(mask.copy(order='K'))
            got = parse_ints(o).reshape(K, F)
            margin = pyref.ref_greedy_aligner(mask, metric)[1]
            net_ok = True
        if np.array_equal(got, wantm) and net_ok:
            ctx.corr(which, True)
        elif margin < 1e-9:
            ctx.count('tie-within-rounding:' + which)
        else:
            ctx.corr(which, False, f'{which} {metric}/{algo} cfg={cfg}: code={wantm.tolist()} model={got.tolist()} '
                     f'features_match={net_ok}', {'mask': mask, 'metric': metric, 'algo': algo, 'cfg': cfg})


# ----------------------------------------------------------------------------- oracles on the real code
@oracle
def plan_covers_every_bin(stft_size, start, width, shift):
    F = stft_size // 2 + 1
    o = pa.DHTVPermutationAlignment(stft_size=stft_size, segment_start=start, segment_width=width,
                                    segment_shift=shift, main_iterations=3, sub_iterations=2)
    plan = o.alignment_plan
    cov = np.zeros(F, bool)
    for it, lo, hi in plan:
        if not (0 <= lo < hi <= F):
            return Fail('segment-out-of-range', f'segment {(lo, hi)} outside [0, {F}]')
        cov[lo:hi] = True
    if plan[0][0] != 3 or any(p[0] != 2 for p in plan[1:]):
        return Fail('iteration-counts', f'plan iteration counts {[p[0] for p in plan]}')
    if shift <= width and not cov.all():
        return Fail('uncovered-bin', f'bins {np.nonzero(~cov)[0][:5].tolist()} not covered by {plan}')
    if pyref.ref_plan(F, start, width, shift, 3, 2) != [list(p) for p in plan]:
        return Fail('plan-differs-from-documented-construction', f'{plan}')


def make_patterns(rng, K, T):
    """non-negative activity patterns with pairwise cosine <= 0.1"""
    for _ in range(50):
        own = rng.permutation(T) % K
        p = np.zeros((K, T))
        for k in range(K):
            p[k, own == k] = rng.uniform(0.4, 1.0, size=int(np.sum(own == k)))
        p += rng.uniform(0, 0.02, size=(K, T))
        n = p / np.linalg.norm(p, axis=1, keepdims=True)
        c = n @ n.T - np.eye(K)
        if c.max() <= 0.1 and np.all(np.sum(own[None] == np.arange(K)[:, None], 1) >= 2):
            return p
    return None


def first_segment_and_overlap(plan, F):
    """fraction of each later segment that lies in the union of the earlier ones"""
    done = np.zeros(F, bool)
    fr = []
    for i, (_, lo, hi) in enumerate(plan):
        if i > 0:
            fr.append(done[lo:hi].mean())
        done[lo:hi] = True
    return fr


@oracle
def blind_alignment_restores_order(aligner, metric, algorithm, cfg, base, perm):
    """base: (K, F, T) consistent jittered mask; perm: injected per-frequency permutation field"""
    K, F, T = base.shape
    mask = pa.apply_mapping(base, perm)
    if aligner == 'greedy':
        al = pa.GreedyPermutationAlignment(metric, algorithm)
    else:
        al = pa.DHTVPermutationAlignment(**cfg, similarity_metric=metric, algorithm=algorithm)
        # the premise is judged on the documented plan construction, not on the library's own alignment_plan
        plan = pyref.ref_plan(F, cfg['segment_start'], cfg['segment_width'], cfg['segment_shift'],
                              cfg['main_iterations'], cfg['sub_iterations'])
        lo, hi = plan[0][1], plan[0][2]
        cols = [tuple(perm[:, f]) for f in range(lo, hi)]
        maj = max(cols.count(c) for c in set(cols)) / len(cols)
        if maj < 0.7:
            return Skip('first segment majority < 70 %')
        if any(x < 2 / 3 - 1e-12 for x in first_segment_and_overlap(plan, F)):
            return Skip('a later segment overlaps the aligned band by < 2/3')
    mapping = al.calculate_mapping(mask.copy(order='K'))
    net = perm[mapping, np.arange(F)]          # class of `base` found at (k, f) after alignment
    if not np.all(net == net[:, :1]):
        bad = [f for f in range(F) if not np.array_equal(net[:, f], net[:, 0])]
        return Fail(f'order-not-constant-{aligner}', f'{aligner}/{metric}/{algorithm}: bins {bad[:6]} keep another class order '
                    f'(net {net[:, bad[0]].tolist()} vs {net[:, 0].tolist()})')
    # the documented way to use an aligner is to CALL it: the returned masks must show that one class order in every bin
    aligned = np.asarray(al(mask.copy(order='K')))
    want = base[net[:, 0]]
    if aligned.shape != want.shape or not np.array_equal(aligned, want):
        bad = [f for f in range(F) if aligned.shape != want.shape or not np.array_equal(aligned[:, f], want[:, f])]
        return Fail(f'call-result-not-consistent-{aligner}',
                    f'{aligner}/{metric}/{algorithm}: aligner(mask) does not return the masks in the one class order its '
                    f'own mapping establishes (bins {bad[:6]} differ)')
    ident = al.calculate_mapping(base.copy(order='K'))
    if not np.array_equal(ident, np.repeat(np.arange(K)[:, None], F, 1)):
        return Fail(f'consistent-mask-not-identity-{aligner}', f'{aligner}/{metric}/{algorithm}: consistent mask mapped to {ident[:, :4].tolist()}...')
    if not np.array_equal(al(base.copy(order='K')), base):
        return Fail('consistent-mask-changed', 'an already consistent mask is not returned unchanged')


@oracle
def mapping_is_net_reordering(aligner, metric, algorithm, cfg, mask):
    K, F, T = mask.shape
    if aligner == 'greedy':
        got = pa.GreedyPermutationAlignment(metric, algorithm).calculate_mapping(mask.copy(order='K'))
        want, margin = pyref.ref_greedy_aligner(mask, metric)
        feats = None
    else:
        al = pa.DHTVPermutationAlignment(**cfg, similarity_metric=metric, algorithm=algorithm)
        got = al.calculate_mapping(mask.copy(order='K'))
        want, feats, margin = pyref.ref_dhtv(mask, al.alignment_plan, metric, algorithm)
    if margin < 1e-9:
        return Skip('tie within rounding')
    if not np.array_equal(got, want):
        bad = [f for f in range(F) if not np.array_equal(got[:, f], want[:, f])]
        return Fail(f'mapping-differs-from-procedure-{aligner}', f'{aligner}/{metric}/{algorithm} cfg={cfg}: bins {bad[:6]}: '
                    f'returned {got[:, bad[0]].tolist()} procedure {want[:, bad[0]].tolist()}')
    if feats is not None:
        f0 = pyref.vec_norm(mask) if metric == 'cos' else mask
        if not np.allclose(pa.apply_mapping(f0, got), feats, rtol=1e-12, atol=1e-300):
            return Fail('mapping-does-not-reproduce-converged-features', 'apply_mapping(features0, mapping) != converged features')


def search(ctx):
    rng = ctx.rng
    maxsize = 24 if ctx.tier == 'quick' else 64
    n = 0
    for size in range(2, maxsize + 1, 2):
        F = size // 2 + 1
        for start in range(0, F):
            for width in range(1, F - start + 1):
                for shift in range(1, width + 3):
                    ctx.run(plan_covers_every_bin, stft_size=size, start=start, width=width, shift=shift)
                    n += 1
    ctx.count('plans-exhaustive-stft<=%d' % maxsize, n)
    for size, st, w, s in ((512, 70, 100, 20), (1024, 100, 100, 20)):
        ctx.run(plan_covers_every_bin, stft_size=size, start=st, width=w, shift=s)
    for i in range(ctx.n(60, 1200)):
        if ctx.out_of_time(20):
            break
        K = int(rng.integers(2, 5))
        T = int(rng.integers(max(8, 4 * K), 40))
        mode = rng.choice(['greedy', 'dhtv-custom', 'dhtv-512', 'dhtv-1024'], p=[0.4, 0.45, 0.1, 0.05])
        if mode == 'dhtv-512':
            F, cfg = 257, dict(stft_size=512, segment_start=70, segment_width=100, segment_shift=20, main_iterations=20, sub_iterations=2)
        elif mode == 'dhtv-1024':
            F, cfg = 513, dict(stft_size=1024, segment_start=100, segment_width=100, segment_shift=20, main_iterations=20, sub_iterations=2)
        else:
            F = gen.odd(rng, 9, 65 if ctx.tier == 'quick' else 201)
            width = int(rng.integers(6, F + 1))
            shift = int(rng.integers(1, width // 3 + 1))
            start = int(rng.integers(0, F - width + 1))
            cfg = dict(stft_size=2 * (F - 1), segment_start=start, segment_width=width, segment_shift=shift,
                       main_iterations=20, sub_iterations=2)
        pat = make_patterns(rng, K, T)
        if pat is None:
            ctx.count('pattern-generation-failed')
            continue
        base = pat[:, None, :] * rng.uniform(0.9, 1.1, size=(K, F, T))
        perm = gen.random_perm_field(rng, K, F)
        aligner = 'greedy' if mode == 'greedy' else 'dhtv'
        if aligner == 'dhtv':
            plan = pyref.ref_plan(F, cfg['segment_start'], cfg['segment_width'], cfg['segment_shift'])
            lo, hi = plan[0][1], plan[0][2]
            idx = np.arange(lo, hi)
            keep = rng.permutation(idx)[: int(np.ceil(rng.uniform(0.7, 1.0) * len(idx)))]
            perm[:, keep] = rng.permutation(K)[:, None]
        metric = str(rng.choice(METRICS)) if aligner == 'greedy' else str(rng.choice(['cos', 'cos', 'euclidean', 'multiply']))
        algo = str(rng.choice(['greedy', 'optimal']))
        ctx.count('search-' + str(mode))
        ok = ctx.run(blind_alignment_restores_order, aligner=aligner, metric=metric, algorithm=algo,
                     cfg=cfg if aligner == 'dhtv' else None, base=base, perm=perm)
        if i < 2:
            ctx.sample({'oracle': 'blind_alignment_restores_order', 'aligner': aligner, 'metric': metric, 'algorithm': algo,
                        'cfg': cfg if aligner == 'dhtv' else None, 'K': K, 'F': F, 'T': T, 'held': ok})
    for i in range(ctx.n(80, 1500)):
        if ctx.out_of_time():
            break
        K = int(rng.integers(1, 6))
        F = gen.odd(rng, 1, 31 if ctx.tier == 'quick' else 61)
        T = int(rng.integers(1, 12))
        mask = rng.random((K, F, T))
        if rng.random() < 0.3:
            # un-normalised (power-like) masks: the procedure is defined for any non-negative mask, whatever its level
            # (scores of the multiply metric beyond 2^53 are where a finite "used" marker stops being below every score)
            lg = float(rng.uniform(7.5, 9.5)) if rng.random() < 0.6 else float(rng.uniform(-3, 7.5))
            mask = mask * 10.0 ** lg
            ctx.count('search-net-reordering-level-1e%d' % (3 * int(np.floor(lg / 3))))
            level_metric = 'multiply' if rng.random() < 0.6 else None
        else:
            level_metric = None
        aligner = str(rng.choice(['greedy', 'dhtv']))
        ctx.run(mapping_is_net_reordering, aligner=aligner, metric=level_metric or str(rng.choice(METRICS)),
                algorithm=str(rng.choice(['greedy', 'optimal'])) if K <= 4 else 'greedy',
                cfg=gen.dhtv_cfg(rng, F) if aligner == 'dhtv' else None, mask=mask)

"""C03 - the true partition of separable data is a stable EM fixed point."""
import numpy as np

from .. import em_util as eu
from . import c02
from ..core import Fail, Skip, oracle
from ..lean import fbits, cbits, parse_floats, run_driver

ID = 'C03'
DRIVERS = ('driver_em',)
THEOREMS = [
    'PbBss.C03.watson_rank',
    'PbBss.C03.watson_rank_neg',
    'PbBss.C03.watson_rank_scene',
    'PbBss.C03.cacg_rank',
    'PbBss.C03.cacg_rank_inverted',
    'PbBss.C03.sph_rank',
    'PbBss.C03.sph_rank_noise_free',
    'PbBss.C03.diag_rank',
    'PbBss.C03.diag_rank_noise_free',
    'PbBss.C03.gauss_full_rank',
    'PbBss.C03.gauss_full_rank_noise_free',
    'PbBss.C03.vmf_rank',
    'PbBss.C03.vmf_rank_neg',
    'PbBss.C03.vmf_rank_scene',
    'PbBss.C03.product_of_streams_rank',
    'PbBss.C03.gcacg_rank_scene',
    'PbBss.C03.vmfcacg_rank_scene',
    'PbBss.C03.posterior_rank_iff',
    'PbBss.C03.posterior_argmax',
    'PbBss.C03.posterior_rank_affiliation',
    'PbBss.C03.scatter_scene',
    'PbBss.C03.scatter_phase_invariant',
    'PbBss.C03.proto_eigenvector',
    'PbBss.C03.top_eigenvector_scene',
    'PbBss.C03.share_hard_start',
    'PbBss.C03.gauss_mean_scene',
    'PbBss.C03.gauss_mean_hard',
    'PbBss.C03.watson_mstep_mass_dominant',
    'PbBss.C03.watson_round_hard',
    'PbBss.C03.watson_round_hard_uniform',
    'PbBss.C03.fixed_point_chain_partial',
    'PbBss.C03.fixed_point_watson_balanced',
    'PbBss.C03.fixed_point_watson_balanced_hard',
    'PbBss.C03.cacg_round_hard',
    'PbBss.C03.cacg_round_hard_uniform',
    'PbBss.C03.vmf_em_rank',
    'PbBss.C03.vmf_em_rank_neg',
    'PbBss.C03.vmf_em_mstep_valid',
    'PbBss.C03.vmf_first_mstep_hard',
    'PbBss.C03.vmf_round_hard',
    'PbBss.C03.vmf_round_hard_uniform',
    'PbBss.C03.fixed_point_vmf_balanced',
    'PbBss.C03.fixed_point_vmf_balanced_hard',
    'PbBss.C03.fixed_point_sph_balanced',
    'PbBss.C03.fixed_point_cacg_balanced',
    'PbBss.C03.fixed_point_cacg_balanced_blur',
    'PbBss.C03.cacg_trajectory_stationary',
    'PbBss.C03.fixed_point_gcacg_balanced',
    'PbBss.C03.fixed_point_gcacg_sliced_balanced',
]
ASSUMPTIONS = [
    'the theorems cover the RANKING MECHANISMS of the E-step (sign of the Watson / vMF concentration, reciprocal cACG '
    'eigenvalues, whitening orientation P P^T of the Gaussian, product of streams, ranking of pi*exp(lp) = ranking of '
    'posteriors) and the NOISE-FREE ORTHONORMAL core (z_n = u_n a_c(n), |u_n| = 1, prototypes orthonormal): scatter = '
    'sum_j m_j a_j a_j^H, top eigenvector = prototype under mass dominance, one EM round of cWMM and cACGMM from the hard '
    'true partition, and an n-step fixed point by induction for the balanced cWMM scene (uniform weights, equal class '
    'masses, hard or uniform-leak blurred start); the quantitative statement for |cos| <= 0.3 and perturbation <= 1e-2 needs eigenvector perturbation bounds '
    '(Davis-Kahan, not in Mathlib) and is supported by the search on the real code only',
    'externals enter through contracts: get_pca returns a unit eigenvector whose eigenvalue is the maximum of the Rayleigh '
    'quotient (PcaContract, on every weighted scatter of the data); np.linalg.eigh returns orthonormal columns that are '
    'eigenvectors (EighSpec); the Watson spline kinv and normaliser lnorm are abstract functions, the only property used '
    '(fixed_point_watson_balanced) is kinv x > 0 for 1/K < x <= 1; the precision-Cholesky factor satisfies P P^T = precision',
    'fixed_point_chain_partial carries mass dominance of every E-step and an explicit weight/concentration margin for every '
    'iterate as hypotheses (they can fail for extreme class-size imbalance under blur, where the literal property fails in '
    'real arithmetic too); the blurred start is covered only through these hypotheses, the hard start unconditionally',
    'vMFMM: first M-step and one round from the hard true partition for any class masses, n-step fixed point by induction for '
    'the balanced scene (fixed_point_vmf_balanced; uses only lo <= kappa <= hi, so it does not depend on the value of '
    'Banerjee\'s formula at mean resultant length exactly 1, where x/0 is 0 over R and +inf in IEEE arithmetic); '
    'spherical GMM: n-step fixed point for the balanced scene from a strictly blurred start (fixed_point_sph_balanced); '
    'cACGMM: n-step fixed point for the balanced scene from the hard start and from blurred starts with h0 <= floor*g0 '
    '(fixed_point_cacg_balanced, _blur; stationary trajectory); '
    'GCACGMM (prodFamily of cACG and spherical Gaussian, also sliced over frequency bins): n-step fixed point for the balanced '
    'two-stream scene from a blurred start with 0 < h0 <= floor*g0 (fixed_point_gcacg_balanced, fixed_point_gcacg_sliced_balanced); '
    'no theorem for the complex Bingham model, nor fixed-point theorems for the diagonal / full-covariance GMM and vMF-cACGMM '
    '(their E-step ranking is covered by gauss_full_rank / vmfcacg_rank_scene); guards carried as hypotheses: tiny > 0, quadratic-form floor inactive (tiny <= 1), denominator '
    'clamps inactive (tiny <= class mass, tiny <= 1/K), 0 < eigenvalue floor < 1',
    'correspondence on C03\'s own domain (separable scenes, blurred true start, code iterate i -> model step -> code iterate '
    'i+1, arg-max of the model E-step = arg-max of the code): cWMM, cACGMM, spherical / diagonal GMM; on this domain every '
    'cWMM step from the second iterate on has its concentration clipped at max_concentration (guard): for guard-active '
    'cases only the guard-independent parts are compared (E-step, arg-max, weights, PCA contract), and a stream of cWMM '
    'scenes just outside the domain (perturbation 3e-2..1e-1) exercises the complete step; Float vs R rounding is outside '
    'the theorems',
]

ANGLE_TOL = 0.05            # rad; "small angle": 4x the largest value seen in 2 500 calibration scenes (0.016)
DIST_TOL = 0.05             # distance of a fitted mean from its unit-norm prototype / angle of a vMF mean
ITER_PRINCIPAL = 2          # from this iteration count on the principal eigenvector / mode is judged
ITER_MEAN = 4               # ... and the Gaussian / vMF mean (the first M-steps still carry the start's blur)
CBMM_MAX_D = 6              # the generated Bingham gradient tables stop at D = 6 (KeyError beyond)
CBMM_ILL_CONDITIONED = 1e6     # |Bingham eigenvalue| beyond which ComplexBingham.norm is in its cancellation regime (C07 finding)
CBMM_MIN_PERTURBATION = 1e-4  # below: Bingham concentrations > 1e8, normaliser/solver break down (counted, see search)
# vMFMM on exactly noise-free classes exposed a defect of VonMisesFisherTrainer._fit (r_bar = 1 + 1 ulp made the
# concentration negative -> clipped to min_concentration); fixed in /repo by ed19db2.  Perturbation-0 scenes are judged
# by an oracle of their own (key c03.noise_free_fixed_point:misranked:vmfmm) so that a revert is detected.


# ----------------------------------------------------------------------------- correspondence
# The Em model (lean/PbBss/Model/Em.lean) the C03 theorems are about is tied to the code on C03's OWN domain:
# separable scenes, blurred true start, iterate i of the real trainer -> driver_em -> one model EM step, compared with
# the code's iterate i + 1 by C02's step-wise machinery, plus the arg-max class of the model E-step against the code's.
CORR_FAMILIES = ['cwmm', 'cacgmm', 'gmm-spherical', 'gmm-diagonal', 'gmm-full', 'gcacgmm-spherical', 'gcacgmm-full',
                 'gcacgmm-diagonal', 'vmfmm']
TIE_MARGIN = 1e-9


def _corr_level(rng, family):
    """perturbation level of a correspondence scene (never exactly 0: the Gaussian families have no density there)"""
    if family == 'vmfmm':
        # on C03's domain (perturbation <= 1e-2) Banerjee's concentration ~ 1/level^2 exceeds max_concentration = 500: every
        # in-domain vMF step is guard-active (compared on the guard-independent parts); half of the cases are drawn just
        # beyond the domain (0.06 .. 0.3), where the complete M-step is compared
        return float(10 ** rng.uniform(-3, -2)) if rng.random() < 0.5 else float(rng.uniform(0.06, 0.3))
    if family in ('gmm-full', 'gcacgmm-full'):
        # full covariances of near-noise-free classes have condition numbers ~ 1/level^2; the driver's Cholesky and LAPACK's
        # then agree to ~1e-16/level^2 only: levels are kept where that stays below the 1e-9 comparison tolerance
        return float(10 ** rng.uniform(-3, -2))
    if family.startswith('gmm-'):
        return float(10 ** rng.uniform(-6, -2))
    # cWMM / cACGMM: below ~3e-3 the Watson concentration sits at max_concentration and the smallest cACG eigenvalue
    # approaches the floor (c02's guards); most cases are drawn where a good share is guard-free, the rest below
    r = rng.random()
    if family == 'cwmm' and r < 0.3:
        # just OUTSIDE C03's domain (perturbation 3e-2 .. 1e-1): the only place where both Watson iterates stay below
        # max_concentration, so that the complete step (PCA + spline contract) is compared on clustered data as well
        return float(10 ** rng.uniform(np.log10(3e-2), -1))
    if r < 0.8:
        return float(10 ** rng.uniform(np.log10(3e-3), -2))
    return float(10 ** rng.uniform(-6, np.log10(3e-3)))


def _corr_scene(rng, family):
    """one separable scene in the layout c02._line / c02._compare expect (leading axis F, flat observations)"""
    gauss = family.startswith('gmm-') or family == 'vmfmm'
    integ = family.startswith('gcacgmm')
    K = int(rng.integers(2, 5))
    D = int(rng.integers(K, 9 if not integ else 6))
    F = (1 if rng.random() < 0.7 else 2) if (gauss or integ) else 1
    sizes = [int(rng.integers(D + 2, 2 * D + 7)) for _ in range(K)]
    N = int(sum(sizes))
    labels = np.stack([rng.permutation(np.concatenate([[k] * n for k, n in enumerate(sizes)])) for _ in range(F)])
    level = _corr_level(rng, family)
    maxcos = 0.0 if rng.random() < 0.15 else 0.3
    if gauss:
        proto = eu.prototypes(rng, K, D, maxcos, False)[0]                                   # (K, D) shared means
        y = proto[labels] + level * rng.normal(size=(F, N, D))
        gain_kind = 'none'
    else:
        proto = np.stack([eu.prototypes(rng, K, D, maxcos, True)[0] for _ in range(F)])     # (F, K, D)
        gain_kind = str(rng.choice(['moderate', 'wide', 'unit']))
        span = {'moderate': 3.0, 'wide': 60.0, 'unit': 0.0}[gain_kind]
        gains = np.exp(rng.uniform(-span, span, size=(F, N))) * np.exp(2j * np.pi * rng.random((F, N)))
        y = np.take_along_axis(proto, labels[..., None], axis=1) + level * np.sqrt(2) * eu.cnormal(rng, F, N, D)
        y = y * gains[..., None]
    e = None
    if integ:
        E = int(rng.integers(K, 6))
        proto_e = eu.prototypes(rng, K, E, maxcos, False)[0]
        e = proto_e[labels] + max(level, 1e-4) * rng.normal(size=(F, N, E))
    truth = np.moveaxis(np.eye(K)[labels], -1, -2)                                           # (F, K, N)
    bkind = str(rng.choice(['none', 'dirichlet', 'dirichlet', 'uniform-leak']))
    b = 0.0 if bkind == 'none' else float(rng.uniform(0, 0.5))
    other = (np.moveaxis(rng.dirichlet(np.ones(K), size=(F, N)), -1, -2) if bkind == 'dirichlet'
             else np.full((F, K, N), 1.0 / K))
    init = (1 - b) * truth + b * other
    if not np.array_equal(np.argmax(init, axis=-2), labels):     # blur must keep the true class the largest
        init = 0.75 * truth + 0.25 * other
    wca = (-1,) if rng.random() < 0.7 else -2
    if integ:
        wca = [(-1,), (-3,), (-3, -1), (-3, -2, -1)][int(rng.integers(4))]
    opts = {'weight_constant_axis': list(wca) if isinstance(wca, tuple) else wca, 'saliency': None}
    if integ:
        opts['covariance_norm'] = 'eigenvalue' if rng.random() < 0.7 else ['trace', False][int(rng.integers(2))]
        opts['affiliation_eps'] = 0.0
    if family == 'cacgmm':
        opts['covariance_norm'] = 'eigenvalue' if rng.random() < 0.7 else ['trace', False][int(rng.integers(2))]
        opts['affiliation_eps'] = 0.0          # the Em model has no posterior clipping (public predict() has none either)
    i = int(rng.integers(1, 20))               # code iterate i is stepped to i + 1 <= 20
    if family == 'cwmm' and rng.random() < 0.5:
        # from the second iterate on the posteriors of a separable scene are so hard that the Watson concentration sits
        # at max_concentration (guard); the first step from a blurred start is where guard-free cWMM cases exist
        i = 1
    return dict(family=family, F=F, K=K, D=D, N=N, wca=wca, y=y, init=init, opts=opts, i=i, saliency='none',
                labels=labels, level=level, maxcos=maxcos, blur=bkind, gains=gain_kind,
                **({'e': e, 'E': e.shape[-1]} if integ else {}))


def _argmax_compare(ctx, c, m, post_model, guard):
    """arg-max class of the model E-step vs. the code's, per observation: exact; a mismatch whose decision margin
    (largest minus second largest posterior of the code) is below 1e-9 is counted as a tie within rounding"""
    family, F, K, N = c['family'], c['F'], c['K'], c['N']
    fam = eu.FAMILIES[family]
    post_code = c02._flat_kn(fam.predict(m, {'y': c['y'], 'e': c.get('e')}), F, K, N)
    post_model = np.asarray(post_model).reshape(K, F * N)
    a_code = np.argmax(post_code, axis=0)
    a_model = np.argmax(post_model, axis=0)
    bad = np.flatnonzero(a_code != a_model)
    srt = np.sort(post_code, axis=0)
    margin = srt[-1] - srt[-2]
    real_bad = [int(n) for n in bad if margin[n] >= TIE_MARGIN]
    for _ in range(len(bad) - len(real_bad)):
        ctx.count('tie-within-rounding:argmax')
    tag = f'{family} K={K} D={c["D"]} N={N} F={F} level={c["level"]:.2e} i={c["i"]} guard={guard}'
    detail = f'{tag}: {F * N} observations, {len(real_bad)} arg-max mismatches'
    if real_bad:
        n = real_bad[0]
        detail += f', e.g. observation {n}: model {post_model[:, n].tolist()} vs code {post_code[:, n].tolist()}'
    ctx.corr(f'argmax[{family}]', not real_bad, detail, {k: c[k] for k in ('y', 'init', 'opts', 'i')})
    ctx.count('corr-argmax-observations', F * N)
    ctx.count('corr-argmax-equals-truth', int(np.sum(a_code == c['labels'].reshape(-1))))
    return post_code


def _compare_guarded(ctx, c, m_next, g, post_code, guard):
    """A guard shaped the code's iterate i or i + 1 (Watson concentration clipped at max_concentration / smallest cACG
    eigenvalue near the floor): C02's step-wise comparison excludes such cases.  On C03's domain that is every cWMM
    step from the second iterate on, so the parts of the step that do not depend on the guard by construction are still
    compared: the E-step of the code's iterate, the new mixture weights, and (cWMM) the PCA contract of the new mode
    against the model's scatter matrix."""
    family, F, K, D, N = c['family'], c['F'], c['K'], c['D'], c['N']
    data = {k: c[k] for k in ('y', 'init', 'opts', 'i')}
    tag = f'{family} K={K} D={D} N={N} level={c["level"]:.2e} i={c["i"]} guard={guard}'
    ok, d = c02._close(g[1].reshape(post_code.shape), post_code, scale=1.0)
    ctx.corr(f'eStep-guarded[{family}]', ok, f'{tag}: {d}', data)
    ok, d = c02._close(g[2].reshape(K, F * N), c02._flat_kn(eu.FAMILIES[family].weight(m_next), F, K, N), scale=1.0)
    ctx.corr(f'mWeight-guarded[{family}]', ok, f'{tag}: {d}', data)
    if family == 'cwmm':
        cov = g[3].view(np.complex128).reshape(K, D, D)
        mode = m_next.complex_watson.mode
        for k in range(K):
            ev = np.linalg.eigvalsh((cov[k] + cov[k].conj().T) / 2)
            res = float(np.linalg.norm(cov[k] @ mode[0, k] - ev[-1] * mode[0, k]))
            ctx.corr(f'mstep-pca-contract-guarded[{family}]', res <= 1e-9,
                     f'{tag}: class {k}: |S m - lambda_max m| = {res:.3e}', data)


def corr(ctx):
    rng = ctx.rng
    n = ctx.n(54, 720)
    cases, lines, models = [], [], []
    for j in range(n):
        if ctx.out_of_time(30):
            ctx.note(f'correspondence stopped after {j} scenes (time budget)')
            break
        family = CORR_FAMILIES[j % len(CORR_FAMILIES)]
        c = _corr_scene(rng, family)
        fam = eu.FAMILIES[family]
        try:
            m = fam.fit({'y': c['y'], 'e': c.get('e')}, c['init'], c['i'], c['opts'])
            m_next = fam.fit({'y': c['y'], 'e': c.get('e')}, c['init'], c['i'] + 1, c['opts'])
        except ValueError as ex:
            if eu.is_singular_covariance_rejection(ex):
                ctx.count(f'corr-skip-singular-covariance:{family}')
                continue
            raise
        guard = fam.mstep_guard(m, c['opts']) or fam.mstep_guard(m_next, c['opts'])
        cases.append(c)
        models.append((m, m_next, guard))
        lines.append(c02._line(c, m))
        ctx.count(f'corr-family:{family}')
        ctx.count(f'corr-guard:{family}:{guard}')
        ctx.count(f'corr-wca:{c["wca"]}')
        ctx.count(f'corr-K:{c["K"]}')
        ctx.count('corr-level:1e%d' % int(np.floor(np.log10(c['level']))))
        if c['level'] > 1e-2:
            ctx.count(f'corr-level-beyond-domain:{family}')
    outs = run_driver(lines, exe='driver_em')
    for c, (m, m_next, guard), out in zip(cases, models, outs):
        family = c['family']
        if out.strip() == 'bad-op':
            ctx.corr(f'driver[{family}]', False, 'driver answered bad-op')
            continue
        g = c02._groups(out)
        if c02.singular_full_covariance(family, m):
            ctx.count(f'corr-not-compared:numerically-singular-full-covariance[{family}]')
            continue
        if guard is None:
            # log-likelihood, E-step, weights, M-step of the family: exactly C02's step-wise comparison
            c02._compare(ctx, c, m, m_next, out)
            if family.startswith('gmm-'):
                # c02 compares the covariance with an absolute scale >= 1; near-noise-free classes have variances down
                # to 1e-12, so here additionally relative to the largest variance of the model
                cov = np.asarray(m_next.gaussian.covariance, dtype=np.float64)
                got = g[4].reshape(cov.shape)
                err = float(np.max(np.abs(got - cov)))
                ctx.corr(f'mstep-covariance-relative[{family}]', err <= 1e-7 * float(np.max(np.abs(cov))),
                         f'{family} level={c["level"]:.2e} i={c["i"]}: max abs diff {err:.3e}, largest variance '
                         f'{float(np.max(np.abs(cov))):.3e}', {k: c[k] for k in ('y', 'init', 'opts', 'i')})
        post_code = _argmax_compare(ctx, c, m, g[1], guard)
        if guard is not None:
            _compare_guarded(ctx, c, m_next, g, post_code, guard)
    if cases:
        c = cases[0]
        ctx.sample({'op': 'em-step-on-separable-scene', 'family': c['family'], 'K': c['K'], 'D': c['D'], 'N': c['N'],
                    'F': c['F'], 'level': c['level'], 'maxcos': c['maxcos'], 'blur': c['blur'], 'gains': c['gains'],
                    'wca': str(c['wca']), 'iterate': c['i']})


# ----------------------------------------------------------------------------- oracle on the real code
def _reference_agrees(family, y, init, iterations, post, labels):
    """Gaussian families: does a textbook EM written from the formulas give the same posteriors (hence the same
    mis-ranking / the same means)?  Then the deviation is a property of EM on this input, not of the code."""
    ctype = family.split('-')[1]
    try:
        ref_post, ref_mu = eu.ref_gmm(y, init, iterations, ctype)
    except Exception:
        return False
    # class covariances of near-noise-free classes have condition numbers up to 1e12: the two implementations agree
    # to ~1e-5 only; what identifies the deviation as EM's own is the same winner for EVERY observation
    return bool(np.all(np.isfinite(ref_post)) and np.array_equal(np.argmax(ref_post, axis=0), np.argmax(post, axis=0))
                and np.max(np.abs(ref_post - post)) <= 1e-3)


@oracle
def stable_fixed_point(family, y, e, init, labels, proto_y, proto_e, iterations):
    """EM started from the (blurred) true partition: after `iterations` iterations every observation's
    maximum-posterior class is its true class and the class parameters point at the prototypes."""
    return _fixed_point(family, y, e, init, labels, proto_y, proto_e, iterations)


@oracle
def heavy_blur_fixed_point(family, y, e, init, labels, proto_y, proto_e, iterations):
    """the same statement for start values blurred by MORE than one half (true class still the largest, e.g. 0.36 vs 0.21
    for K = 4): inside the literal quantifier, but EM itself leaves the true partition there on the unchanged code
    (recorded known finding, replayed from corpus/); the search judges blur weights <= 0.5"""
    return _fixed_point(family, y, e, init, labels, proto_y, proto_e, iterations, premise=False)


@oracle
def noise_free_fixed_point(family, y, e, init, labels, proto_y, proto_e, iterations):
    """the same statement on scenes with perturbation level exactly 0 (own oracle name = own finding key)"""
    return _fixed_point(family, y, e, init, labels, proto_y, proto_e, iterations)


_REF_OPTS = {   # the library's default options, as the independent EM oracle of C08 (harness/trainers_util) takes them
    'cacgmm': ({'hermitize': True, 'covariance_norm': 'eigenvalue', 'eigenvalue_floor': 1e-10}, 1e-10),
    'cwmm': ({'max_concentration': 500, 'spline_markers': 1000}, 0.0),
    'cbmm': ({'max_concentration': np.inf}, 0.0),
    'vmfmm': ({'min_concentration': 1e-10, 'max_concentration': 500}, 0.0),
}


def _reference_em_agrees(family, y, init, iterations, post):
    """directional families: does the independent EM written from the formulas (C08's oracle: own M-steps, own
    log-densities, own posterior) rank every observation the way the code does?  Then a departure from the true partition
    is EM's own behaviour on this input (small classes of size ~D+2 under blur), not the implementation's."""
    if family not in _REF_OPTS or np.ndim(y) != 2:
        return False
    from .. import trainers_util as tu
    opt, eps = _REF_OPTS[family]
    try:
        fam = tu.family_of(family, opt, y.shape[-1])
        w, params, _ = tu.em_oracle(fam, y[None], np.asarray(init)[None], None, (-1,), int(iterations), eps, None)
        z = fam.prepare(y)
        lp = np.stack([fam.logpdf(z, params[0][k])[0] for k in range(len(params[0]))])
        wb = np.full((lp.shape[0], 1), 1.0 / lp.shape[0]) if isinstance(w, str) else np.asarray(w)[0]
        ref = tu.posterior(wb, lp, 0.0)
    except Exception:  # noqa
        return False
    return bool(np.all(np.isfinite(ref)) and np.array_equal(np.argmax(ref, axis=0), np.argmax(post, axis=0))
                and np.max(np.abs(ref - post)) <= 1e-3)


def _start_mass_dominant(init, labels):
    """the premise of the M-step theorems (PbBss.C03.watson_mstep_mass_dominant, top_eigenvector_scene): in the start value
    every class k draws more mass from its own observations than from those of any other class j,
    sum_{n in k} g0[k, n] > sum_{n in j} g0[k, n].  A per-observation blur that keeps the true class the largest does NOT
    imply it for unequal class sizes (0.56/0.44 with sizes 20/12 gives 6.7 < 8.8): the first M-step then points the smaller
    class at the larger class's prototype whatever the implementation, and observations are mis-ranked until EM recovers."""
    g = np.asarray(init, dtype=np.float64)
    lab = np.asarray(labels)
    if g.ndim == 2:
        g, lab = g[None], lab[None]
    K = g.shape[-2]
    for f in range(g.shape[0]):
        M = np.stack([g[f][:, lab[f] == j].sum(axis=1) for j in range(K)], axis=1)      # M[k, j]
        own = np.diag(M)
        off = M - np.diag(np.full(K, np.inf))
        if not np.all(own > off.max(axis=1)):
            return False
    return True


def _fixed_point(family, y, e, init, labels, proto_y, proto_e, iterations, premise=True):
    res = _fixed_point_raw(family, y, e, init, labels, proto_y, proto_e, iterations, literal=not premise)
    if premise and isinstance(res, Fail) and not res.tag.startswith(('fit-predict-ranks-differently', 'rejects-regular-covariance',
                                                         'posterior-not-finite')) \
            and not _start_mass_dominant(init, labels):
        return Skip('start value not mass dominant (unequal class sizes under blur): outside the premise of the M-step '
                    'theorems, EM itself leaves the partition in its first steps')
    return res


def _fixed_point_raw(family, y, e, init, labels, proto_y, proto_e, iterations, literal=False):
    fam = eu.FAMILIES[family]
    data = {'y': y, 'e': e}
    try:
        model = fam.fit(data, init, iterations, {})
        post = fam.predict(model, data)
    except ValueError as ex:
        if eu.is_singular_covariance_rejection(ex):
            noise_free = proto_e is not None and np.ndim(y) == 2 and bool(np.all(y == np.asarray(proto_e)[labels]))
            if family.startswith('gmm-') and np.ndim(y) == 2 and not noise_free:
                # (exactly noise-free classes have variance 0 as soon as the posteriors are one-hot: a legitimate rejection)
                # an explicit rejection is acceptable only for a covariance that IS numerically singular: the textbook EM
                # (centred scatter) must run into an ill-conditioned class covariance too
                cond = []
                try:
                    eu.ref_gmm(y, init, iterations, family.split('-')[1], conditioning=cond)
                    regular = bool(cond) and min(cond) > 1e-10
                except Exception:  # noqa
                    regular = False
                if regular:
                    return Fail(f'rejects-regular-covariance:{family}',
                                f'{family}: fit raises "ill-defined empirical covariance" although every class covariance of '
                                f'the textbook EM on this input is well conditioned (smallest eigenvalue ratio '
                                f'{min(cond):.3g})')
            return Skip('sklearn rejected a numerically singular class covariance (explicit rejection)')
        raise
    # the trainer's own fit_predict entry point (the property's observation point) must rank the same way
    try:
        post_fp = np.asarray(fam.fit_predict(data, init, iterations, {}))
    except ValueError as ex:
        if eu.is_singular_covariance_rejection(ex):
            return Skip('sklearn rejected a numerically singular class covariance (explicit rejection)')
        raise
    if post_fp.shape != post.shape or not np.array_equal(np.argmax(post_fp, axis=-2), np.argmax(post, axis=-2)):
        conc = float(np.max(np.abs(model.complex_bingham.covariance_eigenvalues))) if family == 'cbmm' else 0.0
        if not (family == 'cbmm' and conc > CBMM_ILL_CONDITIONED):
            nbad = int(np.sum(np.argmax(post_fp, axis=-2) != labels)) if post_fp.shape == post.shape else -1
            return Fail(f'fit-predict-ranks-differently:{family}',
                        f'{family}: fit_predict(...) and fit(...).predict(...) disagree on the maximum-posterior class '
                        f'({nbad} of {labels.size} observations of fit_predict are off their true class; shapes '
                        f'{post_fp.shape} / {post.shape})')
    if not np.all(np.isfinite(post)):
        return Fail(f'posterior-not-finite:{family}', f'{family}: posterior contains non-finite values after '
                    f'{iterations} iterations')
    K = post.shape[-2]
    winner = np.argmax(post, axis=-2)
    gaussian = family.startswith('gmm-')
    if not np.array_equal(winner, labels):
        bad = np.argwhere(winner != labels)
        if gaussian and _reference_agrees(family, y, init, iterations, post, labels):
            return Skip('textbook EM itself leaves the true partition on this input (Gaussian family, reference EM agrees)')
        idx = tuple(bad[0])
        if not literal and _reference_em_agrees(family, y, init, iterations, post):
            return Skip('textbook EM itself leaves the true partition on this input (directional family, independent EM '
                        'oracle agrees observation by observation)')
        if family == 'cbmm':
            conc = float(np.max(np.abs(model.complex_bingham.covariance_eigenvalues)))
            if conc > CBMM_ILL_CONDITIONED:
                # Bingham concentrations of 1e6 and more: ComplexBingham.norm cancels catastrophically (known finding of C07)
                # and the fitted log-normalisers jump with ulp-level changes of the input; own key, so that a mis-ranking
                # at moderate concentrations is still reported
                return Fail('misranked:cbmm:concentration>1e6',
                            f'cbmm: after {iterations} iterations {len(bad)} of {labels.size} observations are mis-ranked; the '
                            f'fitted Bingham eigenvalues reach {conc:.3g} in magnitude (normaliser evaluated in its '
                            f'cancellation regime)')
        return Fail(f'misranked:{family}',
                    f'{family}: after {iterations} iterations {len(bad)} of {labels.size} observations have a maximum-'
                    f'posterior class other than their true class, e.g. observation {idx}: true {int(labels[idx])}, '
                    f'posterior {np.round(post[(*idx[:-1], slice(None), idx[-1])], 4).tolist()}')
    # parameters point at the prototypes
    if hasattr(fam, 'principal') and iterations >= ITER_PRINCIPAL:
        ang = eu.angle(fam.principal(model), proto_y)
        if not np.all(ang <= ANGLE_TOL):
            return Fail(f'principal-direction-off:{family}',
                        f'{family}: principal eigenvector / mode is {float(np.max(ang)):.3f} rad away from its class '
                        f'prototype after {iterations} iterations (tolerance {ANGLE_TOL})')
    if hasattr(fam, 'mean') and iterations >= ITER_MEAN:
        mu = fam.mean(model)
        if family in ('vmfmm', 'vmfcacgmm'):
            dist = eu.signed_angle(mu, proto_e)
        else:
            dist = np.linalg.norm(mu - proto_e, axis=-1)
        if not np.all(dist <= DIST_TOL):
            if gaussian and _reference_agrees(family, y, init, iterations, post, labels):
                return Skip('textbook EM itself moves the class mean away on this input (reference EM agrees)')
            return Fail(f'mean-off:{family}',
                        f'{family}: fitted mean / mean direction is {float(np.max(dist)):.3f} away from its prototype '
                        f'after {iterations} iterations (tolerance {DIST_TOL})')


# ----------------------------------------------------------------------------- generators
def gen_scene(rng):
    K = int(rng.integers(2, 5))
    D = int(rng.integers(K, 9))
    E = int(rng.integers(K, 9))
    F = 1 if rng.random() < 0.7 else 2
    sizes = [int(rng.integers(max(D, E) + 2, 3 * max(D, E) + 6)) for _ in range(K)]
    T = int(sum(sizes))
    labels = np.stack([rng.permutation(np.concatenate([[k] * n for k, n in enumerate(sizes)])) for _ in range(F)])
    r = rng.random()
    level = 0.0 if r < 0.04 else (1e-2 if r < 0.08 else float(10 ** rng.uniform(-6, -2)))
    maxcos = 0.0 if rng.random() < 0.15 else 0.3
    proto_y = np.stack([eu.prototypes(rng, K, D, maxcos, True)[0] for _ in range(F)])         # (F, K, D)
    proto_e = eu.prototypes(rng, K, E, maxcos, False)[0]                                         # (K, E)
    gain_kind = str(rng.choice(['moderate', 'moderate', 'wide', 'unit']))
    span = {'moderate': 3.0, 'wide': 60.0, 'unit': 0.0}[gain_kind]
    gains = np.exp(rng.uniform(-span, span, size=(F, T))) * np.exp(2j * np.pi * rng.random((F, T)))
    y = (np.take_along_axis(proto_y, labels[..., None], axis=1) + level * np.sqrt(2) * eu.cnormal(rng, F, T, D))
    y = y * gains[..., None]
    e = proto_e[labels] + level * rng.normal(size=(F, T, E))
    rgain = np.exp(rng.uniform(-1, 1, size=(F, T)))
    truth = np.moveaxis(np.eye(K)[labels], -1, -2)                                               # (F, K, T)
    bkind = str(rng.choice(['none', 'dirichlet', 'dirichlet', 'uniform-leak']))
    b = 0.0 if bkind == 'none' else float(rng.uniform(0, 0.5))
    if bkind == 'dirichlet':
        other = np.moveaxis(rng.dirichlet(np.ones(K), size=(F, T)), -1, -2)
    else:
        other = np.full((F, K, T), 1.0 / K)
    init = (1 - b) * truth + b * other
    if not np.array_equal(np.argmax(init, axis=-2), labels):     # blur must keep the true class the largest
        init = 0.75 * truth + 0.25 * other
        b = 0.25
    meta = dict(K=K, D=D, E=E, F=F, sizes=sizes, level=level, maxcos=maxcos, gains=gain_kind, blur=bkind,
                blur_weight=round(b, 3), iterations=int(rng.integers(1, 21)))
    return dict(y=y, e=e, eg=e * rgain[..., None], init=init, labels=labels, proto_y=proto_y, proto_e=proto_e), meta


def case_for(family, sc, meta):
    """inputs of `stable_fixed_point` for one model family (single-stream models see slice 0 of the scene)"""
    fam = eu.FAMILIES[family]
    it = meta['iterations']
    if fam.has_embedding:
        e = sc['eg'] if family == 'vmfcacgmm' else sc['e']
        return dict(family=family, y=sc['y'], e=e, init=sc['init'], labels=sc['labels'], proto_y=sc['proto_y'],
                    proto_e=sc['proto_e'], iterations=it)
    if fam.complex_obs:
        return dict(family=family, y=sc['y'][0], e=None, init=sc['init'][0], labels=sc['labels'][0],
                    proto_y=sc['proto_y'][0], proto_e=None, iterations=it)
    y = sc['eg'][0] if family == 'vmfmm' else sc['e'][0]
    return dict(family=family, y=y, e=None, init=sc['init'][0], labels=sc['labels'][0], proto_y=None,
                proto_e=sc['proto_e'], iterations=it)


SEVEN = ['cacgmm', 'cwmm', 'cbmm', 'gmm-full', 'vmfmm', 'gcacgmm-spherical', 'vmfcacgmm']


def _warm_up(ctx, rng):
    """process history: every family is first fitted on a small-dimension scene (K = 2, D = E = 2), so that anything a
    trainer keeps between fits (tables cached per process, class-level state) comes from ANOTHER dimension when the scenes
    of the stated domain follow"""
    K, D = 2, 2
    T = 16
    labels = np.array([[0, 1] * (T // 2)])
    proto_y = eu.prototypes(rng, K, D, 0.0, True)[0][None]
    proto_e = eu.prototypes(rng, K, D, 0.0, False)[0]
    y = np.take_along_axis(proto_y, labels[..., None], axis=1) + 1e-3 * np.sqrt(2) * eu.cnormal(rng, 1, T, D)
    e = proto_e[labels] + 1e-3 * rng.normal(size=(1, T, D))
    truth = np.moveaxis(np.eye(K)[labels], -1, -2)
    sc = dict(y=y, e=e, eg=e, init=0.9 * truth + 0.05, labels=labels, proto_y=proto_y, proto_e=proto_e)
    meta = dict(iterations=3, level=1e-3, D=D)
    for family in SEVEN:
        ctx.count('warm-up-small-dimension')
        ctx.run(stable_fixed_point, **case_for(family, sc, meta))


def search(ctx):
    rng = ctx.rng
    _warm_up(ctx, rng)
    n = ctx.n(120, 3000)
    for i in range(n):
        if ctx.out_of_time(15):
            ctx.note(f'search stopped after {i} scenes (time budget)')
            break
        sc, meta = gen_scene(rng)
        extra = ['gmm-diagonal', 'gmm-spherical', 'gcacgmm-diagonal', 'gcacgmm-full'][i % 4]
        for k in ('K', 'D', 'blur', 'gains', 'maxcos'):
            ctx.count(f'scene-{k}:{meta[k]}')
        ctx.count('scene-level:' + ('0' if meta['level'] == 0 else f'1e{int(np.floor(np.log10(meta["level"])))}'))
        for family in SEVEN + [extra]:
            case = case_for(family, sc, meta)
            if family == 'cbmm':
                if meta['D'] > CBMM_MAX_D:
                    ctx.count('cbmm-unsupported-dimension(D>6: KeyError in the generated gradient tables)')
                    continue
                if meta['level'] < CBMM_MIN_PERTURBATION:
                    # explored, counted, not judged: see ASSUMPTIONS / final report (Bingham concentration > 1e8)
                    try:
                        res = stable_fixed_point(**case)
                        out = 'held' if res is None else (res.tag if isinstance(res, Fail) else 'skip')
                    except Exception as ex:  # noqa
                        out = 'raised-' + type(ex).__name__
                    ctx.count(f'cbmm-below-perturbation-floor:{out}')
                    continue
            orc = stable_fixed_point if meta['level'] > 0 else noise_free_fixed_point
            held = ctx.run(orc, **case)
            ctx.count(f'search-family:{family}')
            if i == 0 and family in ('cacgmm', 'gmm-full', 'vmfcacgmm'):
                ctx.sample({'oracle': 'stable_fixed_point', 'family': family, **meta, 'held': held})

"""C04 - directional models depend only on the direction of each observation vector."""
import numpy as np

from .. import posterior_util as pu
from ..core import Fail, Skip, oracle
from ..lean import fbits, cbits, parse_floats, parse_complex, run_driver

ID = 'C04'
DRIVERS = ('driver_posterior',)
EXE = 'driver_posterior'
THEOREMS = [
    'PbBss.C04.normalizeWhere_smul',
    'PbBss.C04.normalizeMax_smul',
    'PbBss.C04.normalizeMax_floor_excluded',
    'PbBss.C04.normalizeMaxR_pos_smul',
    'PbBss.C04.outer_phase',
    'PbBss.C04.outer_normalizeWhere_smul',
    'PbBss.C04.outer_normalizeMax_smul',
    'PbBss.C04.quadForm_eq_outer',
    'PbBss.C04.innerAbsSq_eq_outer',
    'PbBss.C04.scatter_eq_outer',
    'PbBss.C04.quadForm_phase',
    'PbBss.C04.innerAbsSq_phase',
    'PbBss.C04.scatter_phase',
    'PbBss.C04.quadForm_gain',
    'PbBss.C04.innerAbsSq_gain',
    'PbBss.C04.scatter_gain',
    'PbBss.C04.dotR_pos_scale',
    'PbBss.C04.resultant_pos_scale',
    'PbBss.C04.em_gain_invariant',
    'PbBss.C04.em_gain_invariant_max',
    'PbBss.C04.vmfmm_pos_scale',
    'PbBss.C04.em_fit_congr_obs',
    'PbBss.C04.em_watson_fit_phase_invariant',
    'PbBss.C04.em_cacg_fit_phase_invariant',
]
ASSUMPTIONS = [
    'theorems are over the reals/complex numbers; "up to rounding" (and absence of overflow for |c| in [1e-100, 1e100]) is '
    'covered by the search only',
    'em_gain_invariant is stated for every trainer whose E- and M-steps read the observations only through the normalised '
    'outer products z z^H (cACG, Watson, Bingham: quadForm_eq_outer, innerAbsSq_eq_outer, scatter_eq_outer) resp. through '
    'the positively-normalised vectors (vMF); that the real trainers have this form is the correspondence of C08 plus the '
    'driver comparisons of the normalisation entry points and statistics here',
    'normalizeMax (y / max(||y||, tiny)) is direction-only under the forced hypothesis tiny <= ||y|| and tiny <= ||c y||; '
    'frames with norm below 2.2e-308 are outside the domain (no zero frames)',
    'fitted parameters are compared gauge-free (covariances as matrices, modes as projectors) with relative tolerance '
    '1e-6 + 1e-13*cond, posteriors 1e-8 + 1e-14*cond (cond = eigenvalue spread of the fitted cACG covariances; EM on a '
    'class collapsed to the eigenvalue floor amplifies rounding); cBMM (scipy least_squares inside the '
    'M-step) 1e-3, its parameter matrix only when its entries are below 1e4 in magnitude',
]

from pb_bss.distribution import (  # noqa: E402
    ComplexAngularCentralGaussianTrainer, ComplexWatsonTrainer, VonMisesFisherTrainer, CACGMM,
)
from pb_bss.distribution.complex_bingham import ComplexBinghamTrainer  # noqa: E402
from pb_bss.distribution import complex_angular_central_gaussian as cacg_mod  # noqa: E402
from pb_bss.distribution import complex_watson as watson_mod  # noqa: E402
from pb_bss.distribution import complex_bingham as bingham_mod  # noqa: E402
from pb_bss.distribution.utils import _unit_norm  # noqa: E402



def _compare_models(name, m1, m2, shape, obs1, emb1, obs2, emb2, what):
    """None or Fail: fitted parameters, posteriors, log-pdf differences between classes, log-likelihood"""
    loose = False
    tol = pu.tolerances(name, m1, m2)
    for (lab, a, _, kind), (_, b, _, _) in zip(pu.fitted_params(name, m1, shape), pu.fitted_params(name, m2, shape)):
        if kind == 'solver' and max(np.max(np.abs(a)), np.max(np.abs(b))) > 1e4:
            continue
        ok, err = pu.rel_close(a, b, tol['post'] if kind == 'prob' else tol['param'], atol=1e-12)
        if not ok:
            return Fail(f'{what}-changes-fitted-parameter', f'{name}: {lab} differs by {err:.3g} (relative) {what}')
    g1 = pu.predict(name, m1, obs1, emb1)
    g2 = pu.predict(name, m2, obs2, emb2)
    err = float(np.max(np.abs(g1 - g2)))
    if not err <= tol['post']:
        return Fail(f'{what}-changes-posterior', f'{name}: posteriors differ by {err:.3g} {what}')
    l1 = pu.own_log_pdf(name, m1, obs1, emb1)
    l2 = pu.own_log_pdf(name, m2, obs2, emb2)
    d1 = l1 - l1[..., :1, :]
    d2 = l2 - l2[..., :1, :]
    if np.isfinite(d1).all() and np.isfinite(d2).all():
        scale = 1 + max(np.max(np.abs(d1)), np.max(np.abs(d2)))
        err = float(np.max(np.abs(d1 - d2))) / scale
        big = name == 'cbmm' and max(np.max(np.abs(l1)), np.max(np.abs(l2))) > 1e4
        if not big and not err <= tol['lp']:
            return Fail(f'{what}-changes-log-pdf-difference', f'{name}: log-pdf differences between classes differ by {err:.3g} '
                        f'(relative) {what}')
        # log-likelihood of the mixture from its own fields; the normaliser of Watson/Bingham/vMF/cACG does not depend on y
        ll1 = pu.mixture_log_likelihood(pu.own_weight(name, m1), l1)
        ll2 = pu.mixture_log_likelihood(pu.own_weight(name, m2), l2)
        if np.isfinite(ll1) and np.isfinite(ll2) and not big:
            if abs(ll1 - ll2) > tol['lp'] * (1 + abs(ll1)) * max(1, np.sqrt(l1.shape[-1])):
                return Fail(f'{what}-changes-log-likelihood', f'{name}: log-likelihood {ll1!r} vs {ll2!r} {what}')
    if isinstance(m1, CACGMM):
        a, b = m1.log_likelihood(obs1), m2.log_likelihood(obs2)
        if np.isfinite(a) and np.isfinite(b) and abs(a - b) > tol['lp'] * (1 + abs(a)) * max(1, np.sqrt(l1.shape[-1])):
            return Fail(f'{what}-changes-log-likelihood', f'CACGMM.log_likelihood {a!r} vs {b!r} {what}')


def _within_rounding_sensitivity(name, a, obs, emb, init, iterations, opts, shape, obs2, emb2, b):
    """'up to rounding' for an iterated map: EM can amplify rounding differences transiently by orders of magnitude (a class
    passing through a near-collapse).  The deviation between the original and the scaled run is compared with the deviation
    between the original run and a run on data perturbed by 1e-15 relative (fixed PRNG): within 1000x of that, the scaled
    run differs from the original no more than rounding itself makes the original differ from itself."""
    d_noise = pu.rounding_sensitivity(name, obs, emb, init, iterations, opts)
    if d_noise is None:
        return False
    try:
        d_scaled = float(np.max(np.abs(pu.predict(name, a, obs, emb) - pu.predict(name, b, obs2, emb2))))
    except Exception:  # noqa
        return False
    return np.isfinite(d_scaled) and d_scaled <= 1e-4 and d_scaled <= 1000 * d_noise


@oracle
def mixture_gain_invariance(model, obs, emb, init, iterations, opts, gain, emb_gain, entry='fit+predict'):
    """fit / predict on y versus c*y (complex gain per time-frequency point on the spatial stream, positive real gain on
    vMF embeddings)"""
    name = model
    if obs is not None and np.any(np.linalg.norm(obs, axis=-1) == 0):
        return Skip('zero frame')
    if name in ('vmfmm', 'vmfcacgmm') and np.any(np.linalg.norm(emb, axis=-1) == 0):
        return Skip('zero embedding')
    obs2 = obs * gain[..., None] if (obs is not None and gain is not None) else obs
    emb2 = emb * emb_gain[..., None] if (emb is not None and emb_gain is not None) else emb
    y = obs if name in pu.COMPLEX_OBS else emb
    K = init.shape[-2]
    shape = (obs.shape[0], K, obs.shape[1]) if name in pu.INTEGRATION else tuple(y.shape[:-2]) + (K, y.shape[-2])
    if entry == 'fit_predict':
        # the one-call shortcut of the trainers: posteriors of fit_predict(y) and fit_predict(c*y)
        if name == 'cbmm':
            return Skip('cbmm: solver values are replayed through fit only')
        try:
            g1 = pu.fit(name, obs, emb, init, iterations, opts, predict=True)
            g2 = pu.fit(name, obs2, emb2, init, iterations, opts, predict=True)
        except Exception as e:  # noqa
            return Skip(f'fit_predict raises {type(e).__name__}')
        m = pu.fit(name, obs, emb, init, iterations, opts)
        err = float(np.max(np.abs(np.asarray(g1) - np.asarray(g2))))
        if not err <= pu.tolerances(name, m)['post']:
            d = pu.rounding_sensitivity(name, obs, emb, init, iterations, opts)
            if d is not None and err <= 1e-4 and err <= 1000 * d:
                return Skip('tie-within-rounding: within the rounding sensitivity of this EM trajectory')
            return Fail('fit_predict-gain-changes-posterior', f'{name}: fit_predict posteriors differ by {err:.3g} under a gain on '
                        f'the observations')
        return None
    res = []
    tape = pu.BinghamSolverTape() if name == 'cbmm' else None
    for j, (o_, e_) in enumerate(((obs, emb), (obs2, emb2))):
        try:
            if tape is None or (j == 1 and isinstance(res[0], Exception)):
                res.append(pu.fit(name, o_, e_, init, iterations, opts))
            else:
                with (tape.record() if j == 0 else tape.replay(iterations)):
                    res.append(pu.fit(name, o_, e_, init, iterations, opts))
        except pu.TapeMismatch as e:
            return Fail('gain-changes-scatter-eigenvalues', f'cbmm: {e}')
        except Exception as e:  # noqa
            res.append(e)
    a, b = res
    if isinstance(a, Exception) and isinstance(b, Exception):
        return Skip(f'both fits raise {type(a).__name__}')
    if isinstance(a, Exception) or isinstance(b, Exception):
        e = a if isinstance(a, Exception) else b
        if pu.numerical_rejection(e) and (name == 'cbmm' or not isinstance(e, AssertionError)):
            # e.g. ComplexBinghamTrainer asserts `scatter_eigenvalues >= 0`; for a (numerically) singular class scatter
            # the smallest eigenvalue is 0 +- 1e-17 and the sign is decided by rounding
            return Skip('tie-within-rounding: rejection of a numerically singular class decided by rounding')
        return Fail('gain-changes-whether-fit-raises', f'{name}: only {"the original" if e is a else "the scaled"} data raise '
                    f'{type(e).__name__}: {str(e)[:120]}')
    what = 'under a gain on the observations'
    if gain is None:
        what = 'under positive scaling of the embeddings'
        tag = 'embedding-scale'
    elif emb_gain is None:
        tag = 'gain'
    else:
        tag = 'gain-and-embedding-scale'
    r = _compare_models(name, a, b, shape, obs, emb, obs2, emb2, tag)
    if r is not None and (opts or {}).get('inline_permutation_aligner') is not None \
            and pu.inline_aligner_ties(name, obs, init, iterations, opts) is not None:
        # a (near-)tie in the aligner's score matrix is decided by the last bits of the posteriors
        return Skip('tie-within-rounding: inline aligner score tie')
    if r is not None and _within_rounding_sensitivity(name, a, obs, emb, init, iterations, opts, shape, obs2, emb2, b):
        return Skip('tie-within-rounding: the deviation is within the sensitivity of this EM trajectory to a 1e-15 relative '
                    'perturbation of the data (transient amplification of rounding differences)')
    if r is not None:
        r.desc += f' ({what}; |c| in [{np.min(np.abs(gain)) if gain is not None else 1:.1e}, ' \
                  f'{np.max(np.abs(gain)) if gain is not None else 1:.1e}])'
        if name == 'vmfcacgmm' and emb_gain is not None:
            # one stable key for the embedding stream of the integration model, whatever is compared first
            r.tag = 'vmfcacgmm-embedding-scale-changes-fit'
    return r


def _trainer_variant(name, variant, D):
    """trainer objects as a user may build them: fresh default, with the feature dimension preset, ..."""
    from pb_bss.distribution import CWMMTrainer
    from pb_bss.distribution.cbmm import CBMMTrainer
    if variant == 'preset-dimension' and name == 'cwmm':
        return CWMMTrainer(dimension=D)
    if variant == 'preset-dimension' and name == 'cbmm':
        return CBMMTrainer(dimension=D)
    return pu.trainer(name)


def _fit_with(tr, name, obs, emb, start, iterations, opts):
    kw = pu._kw(name, opts)
    if name in pu.INTEGRATION:
        return tr.fit(obs, emb, iterations=int(iterations), initialization=start, **kw)
    y = obs if name in pu.COMPLEX_OBS else emb
    return tr.fit(y, iterations=int(iterations), initialization=start, **kw)


@oracle
def history_gain_invariance(model, variant, obs, emb, init, iterations, opts, gain, emb_gain):
    """the same invariance for the other ways a fit is reached: a trainer built with its feature dimension preset, one
    trainer object reused for the scaled data after it has fitted the original data, and a fit CONTINUED from a returned
    model (`initialization=<model>`, cACGMM) on y resp. c*y"""
    name = model
    if obs is not None and np.any(np.linalg.norm(obs, axis=-1) == 0):
        return Skip('zero frame')
    if name in ('vmfmm', 'vmfcacgmm') and np.any(np.linalg.norm(emb, axis=-1) == 0):
        return Skip('zero embedding')
    obs2 = obs * gain[..., None] if (obs is not None and gain is not None) else obs
    emb2 = emb * emb_gain[..., None] if (emb is not None and emb_gain is not None) else emb
    y = obs if name in pu.COMPLEX_OBS else emb
    K = init.shape[-2]
    D = y.shape[-1]
    shape = (obs.shape[0], K, obs.shape[1]) if name in pu.INTEGRATION else tuple(y.shape[:-2]) + (K, y.shape[-2])
    n1 = max(1, int(iterations) // 2)
    try:
        if variant == 'continued':
            if name != 'cacgmm':
                return Skip('trainer takes affiliations only')
            a0 = _fit_with(pu.trainer(name), name, obs, emb, init, n1, opts)
            b0 = _fit_with(pu.trainer(name), name, obs2, emb2, init, n1, opts)
            a = _fit_with(pu.trainer(name), name, obs, emb, a0, int(iterations), opts)
            b = _fit_with(pu.trainer(name), name, obs2, emb2, b0, int(iterations), opts)
            # and the cross form: the model fitted on y continued on c*y
            b_cross = _fit_with(pu.trainer(name), name, obs2, emb2, a0, int(iterations), opts)
        elif variant == 'num-classes':
            # the trainer draws its own start value (num_classes=K): same global RNG seed for both runs
            seed = 1000 + int(iterations)
            a = pu.fit(name, obs, emb, None, iterations, opts, num_classes=K, seed=seed)
            b = pu.fit(name, obs2, emb2, None, iterations, opts, num_classes=K, seed=seed)
            b_cross = None
        elif variant == 'reused-trainer':
            tr = _trainer_variant(name, 'fresh', D)
            a = _fit_with(tr, name, obs, emb, init, iterations, opts)
            b = _fit_with(tr, name, obs2, emb2, init, iterations, opts)
            b_cross = None
        else:
            a = _fit_with(_trainer_variant(name, variant, D), name, obs, emb, init, iterations, opts)
            b = _fit_with(_trainer_variant(name, variant, D), name, obs2, emb2, init, iterations, opts)
            b_cross = None
    except Exception as e:  # noqa
        if pu.numerical_rejection(e):
            return Skip('numerical rejection')
        return Skip(f'fit raises {type(e).__name__}')
    if name == 'cbmm':
        return None         # solver noise: cBMM is judged by the taped oracle above only
    tag = f'{variant}-gain'
    r = _compare_models(name, a, b, shape, obs, emb, obs2, emb2, tag)
    if r is None and b_cross is not None:
        r = _compare_models(name, a, b_cross, shape, obs, emb, obs2, emb2, tag + '-cross')
    if r is not None and (opts or {}).get('inline_permutation_aligner') is not None \
            and pu.inline_aligner_ties(name, obs, init, iterations, opts) is not None:
        return Skip('tie-within-rounding: inline aligner score tie')
    if r is not None:
        r.desc += f' (trainer variant {variant!r}; |c| in [{np.min(np.abs(gain)) if gain is not None else 1:.1e}, ' \
                  f'{np.max(np.abs(gain)) if gain is not None else 1:.1e}])'
    return r


@oracle
def distribution_gain_invariance(dist, y, saliency, gain):
    """single distributions: Trainer.fit on y vs c*y (and log_pdf where the class normalises itself)"""
    if np.any(np.linalg.norm(y, axis=-1) == 0):
        return Skip('zero frame')
    y2 = y * gain[..., None]
    try:
        if dist == 'cacg':
            a = ComplexAngularCentralGaussianTrainer().fit(y, iterations=5)
            b = ComplexAngularCentralGaussianTrainer().fit(y2, iterations=5)
            pa_, pb_ = [('covariance', a.covariance, 'matrix')], [('covariance', b.covariance, 'matrix')]
            la, lb = a.log_pdf(y), b.log_pdf(y2)
            lc = a.log_pdf(y2)
        elif dist == 'watson':
            a = ComplexWatsonTrainer().fit(y, saliency=saliency)
            b = ComplexWatsonTrainer().fit(y2, saliency=saliency)
            pa_ = [('mode-projector', pu._proj(a.mode), 'matrix'), ('concentration', np.asarray(a.concentration), 'scale')]
            pb_ = [('mode-projector', pu._proj(b.mode), 'matrix'), ('concentration', np.asarray(b.concentration), 'scale')]
            la = a.log_pdf(watson_mod.normalize_observation(y))
            lb = b.log_pdf(watson_mod.normalize_observation(y2))
            lc = a.log_pdf(watson_mod.normalize_observation(y2))
        elif dist == 'bingham':
            tape = pu.BinghamSolverTape()
            with tape.record():
                a = ComplexBinghamTrainer().fit(y, saliency=saliency)
            with tape.replay(1):
                b = ComplexBinghamTrainer().fit(y2, saliency=saliency)
            pa_, pb_ = [('parameter-matrix', a.covariance, 'solver')], [('parameter-matrix', b.covariance, 'solver')]
            la = a.log_pdf(bingham_mod.normalize_observation(y))
            lb = b.log_pdf(bingham_mod.normalize_observation(y2))
            lc = a.log_pdf(bingham_mod.normalize_observation(y2))
        else:
            a = VonMisesFisherTrainer().fit(y, saliency=saliency)
            b = VonMisesFisherTrainer().fit(y2, saliency=saliency)
            pa_ = [('mean', a.mean, 'vector'), ('concentration', np.asarray(a.concentration), 'scale')]
            pb_ = [('mean', b.mean, 'vector'), ('concentration', np.asarray(b.concentration), 'scale')]
            la, lb, lc = a.log_pdf(y), b.log_pdf(y2), a.log_pdf(y2)
    except pu.TapeMismatch as e:
        return Fail('gain-changes-scatter-eigenvalues', f'bingham: {e}')
    except Exception as e:  # noqa
        return Skip(f'fit raises {type(e).__name__}')
    for (lab, u, kind), (_, v, _) in zip(pa_, pb_):
        if kind == 'solver' and max(np.max(np.abs(u)), np.max(np.abs(v))) > 1e4:
            continue
        ok, err = pu.rel_close(u, v, 1e-5 if dist == 'bingham' else 1e-6, atol=1e-12)
        if not ok:
            return Fail('gain-changes-fitted-distribution', f'{dist}: {lab} differs by {err:.3g} (relative) under a gain')
    if dist == 'bingham' and max(np.max(np.abs(la)), np.max(np.abs(lb))) > 1e4:
        return None
    for what, u, v in (('log_pdf of the refitted model on the scaled data', la, lb),
                       ('log_pdf of one model on y and on c*y', la, lc)):
        if np.isfinite(u).all() and np.isfinite(v).all():
            err = float(np.max(np.abs(u - v))) / (1 + float(np.max(np.abs(u))))
            if not err <= (1e-5 if dist == 'bingham' else 1e-7):
                return Fail('gain-changes-log-pdf', f'{dist}: {what} differ by {err:.3g}')


def _gain(rng, shape, lo=-100, hi=100):
    return 10.0 ** rng.uniform(lo, hi, size=shape) * np.exp(2j * np.pi * rng.random(shape))


def _case(rng, name, quick):
    K = int(rng.integers(2, 6))
    D = int(rng.integers(2, 7 if name == 'cbmm' else 9))
    E = int(rng.integers(2, 7))
    F = int(rng.choice([1, 2, 3, 5])) if name in pu.INTEGRATION or rng.random() < 0.7 else None
    lead = [] if F is None else [F]
    N = int(rng.integers(3 * D + 2 * K, 3 * D + 40))
    kind = str(rng.choice(['normal', 'clustered']))
    obs, emb = pu.gen_pair(rng, lead, N, D, E, kind, K)
    init = pu.gen_init(rng, lead, K, N, str(rng.choice(['soft', 'uniform', 'flag', 'hard'])))
    opts = pu.gen_options(rng, name, len(lead) + 2, F=F, K=K)
    if rng.random() < 0.3:
        opts['saliency'] = pu.gen_saliency(rng, tuple(lead) + (N,), 'random')
    span = [(-100, 100), (-100, 100), (-3, 3), (90, 100), (-100, -90)][int(rng.integers(5))]
    gain = _gain(rng, tuple(lead) + (N,), *span) if name != 'vmfmm' else None
    if gain is not None and rng.random() < 0.15:
        # unit-norm frames with every gain modulus within 1 +- delta (delta 1e-8..6e-6): a normalisation skipped for
        # "already normalised" input (np.allclose(norm, 1)) lets exactly these through
        obs = obs / np.linalg.norm(obs, axis=-1, keepdims=True)
        delta = 10.0 ** rng.uniform(-8, -5.2)
        gain = (1.0 + delta * rng.uniform(-1, 1, size=tuple(lead) + (N,))) * np.exp(2j * np.pi * rng.random(tuple(lead) + (N,)))
        span = ('near-one', 'near-one')
    emb_gain = None
    if name == 'vmfmm' or (name == 'vmfcacgmm' and rng.random() < 0.6):
        emb_gain = np.abs(_gain(rng, tuple(lead) + (N,), *(span if span[0] != 'near-one' else (-3, 3))))
        if rng.random() < 0.25:
            # nearly unit-norm embeddings with gains within 1 +- 1e-4: a normalisation skipped for "already normalised"
            # input (np.allclose(norm, 1)) lets exactly these through
            emb = emb / np.linalg.norm(emb, axis=-1, keepdims=True)
            emb_gain = 1.0 + rng.uniform(-9e-5, 9e-5, size=tuple(lead) + (N,))
            span = ('near-one', 'near-one')
        if name == 'vmfcacgmm' and rng.random() < 0.5:
            gain = None         # embedding stream alone
    it = int(rng.integers(1, 7 if quick else 21))
    return dict(model=name, obs=obs if name != 'vmfmm' else None, emb=emb if name in ('gcacgmm', 'vmfcacgmm', 'vmfmm') else None,
                init=init, iterations=it, opts=opts, gain=gain, emb_gain=emb_gain), dict(K=K, D=D, N=N, kind=kind, span=span)


def search(ctx):
    rng = ctx.rng
    quick = ctx.tier == 'quick'
    # single distributions
    for i in range(ctx.n(240, 3000)):
        dist = ['cacg', 'watson', 'bingham', 'vmf'][i % 4]
        D = int(rng.integers(2, 7 if dist == 'bingham' else 9))
        N = int(rng.integers(3 * D, 3 * D + 30))
        lead = [int(rng.integers(1, 3)) for _ in range(int(rng.integers(0, 2)))]
        if dist == 'bingham':
            lead = []
        y = pu.cnormal(rng, tuple(lead) + (N, D)) if dist != 'vmf' else rng.normal(size=tuple(lead) + (N, D))
        sal = None if (dist == 'cacg' or rng.random() < 0.5) else rng.random(tuple(lead) + (N,)) + 0.05
        g = _gain(rng, tuple(lead) + (N,))
        if dist == 'vmf':
            g = np.abs(g)
        if rng.random() < 0.2:
            # (nearly) unit-norm frames: every gain within 1 +- delta, delta 1e-8..6e-6 - a normalisation that is skipped
            # for "already normalised" input (np.allclose(norm, 1)) lets exactly these through
            y = y / np.linalg.norm(y, axis=-1, keepdims=True)
            delta = 10.0 ** rng.uniform(-8, -5.2)
            g = 1.0 + delta * rng.uniform(-1, 1, size=tuple(lead) + (N,))
            if dist != 'vmf':
                g = g * np.exp(2j * np.pi * rng.random(tuple(lead) + (N,)) * (rng.random() < 0.5))
            ctx.count('dist-gain-near-one')
        ctx.count('dist:' + dist)
        ctx.run(distribution_gain_invariance, dist=dist, y=y, saliency=sal, gain=g)
    search_history(ctx)
    sched = []
    for name in pu.DIRECTIONAL:
        sched += [name] * ctx.n(150, 800)
    for j in rng.permutation(len(sched)):
        if ctx.out_of_time(reserve=10):
            ctx.note('model stream cut short by the time budget')
            break
        name = sched[j]
        inp, meta = _case(rng, name, quick)
        ctx.count('model:' + name)
        ctx.count(f'wca:{inp["opts"]["weight_constant_axis"]}')
        ctx.count(f'gain-span:1e{meta["span"][0]}..1e{meta["span"][1]}' if meta['span'][0] != 'near-one' else 'gain-span:1+-1e-4')
        if 'inline_permutation_aligner' in inp['opts'] or inp['opts'].get('inline_permutation_alignment'):
            ctx.count('with-inline-aligner')
        if name != 'cbmm' and rng.random() < 0.25:
            inp['entry'] = 'fit_predict'
            ctx.count('entry:fit_predict')
        ok = ctx.run(mixture_gain_invariance, **inp)
        if len(ctx.samples) < 3:
            ctx.sample({'oracle': 'mixture_gain_invariance', 'model': name, **meta, 'iterations': inp['iterations'],
                        'opts': {k: (v if not isinstance(v, np.ndarray) else 'array') for k, v in inp['opts'].items()},
                        'held': ok})


def search_history(ctx):
    """construction / history variants (seeded/C04-m1, -m2): preset dimension, reused trainer, continued fit; gains incl.
    a quiet stream |c| <= 1e-5"""
    rng = ctx.rng
    quick = ctx.tier == 'quick'
    plan = [('cwmm', 'preset-dimension'), ('cwmm', 'reused-trainer'), ('cacgmm', 'continued'), ('cacgmm', 'reused-trainer'),
            ('vmfmm', 'reused-trainer'), ('gcacgmm', 'reused-trainer'), ('vmfcacgmm', 'reused-trainer'),
            ('cacgmm', 'continued'), ('cbmm', 'preset-dimension'), ('cacgmm', 'num-classes'), ('cwmm', 'num-classes'),
            ('gcacgmm', 'num-classes'), ('vmfmm', 'num-classes')]
    for i in range(ctx.n(78, 1300)):
        if ctx.out_of_time(reserve=5):
            ctx.note('history stream cut short by the time budget')
            break
        name, variant = plan[i % len(plan)]
        inp, meta = _case(rng, name, quick)
        if variant == 'continued' or rng.random() < 0.3:
            lead = inp['obs'].shape[:-1] if inp['obs'] is not None else None
            if lead is not None and inp['gain'] is not None:
                span = [(-100, -5), (-100, 100), (-12, -6)][int(rng.integers(3))]
                inp['gain'] = _gain(rng, lead, *span)
                meta['span'] = span
        inp.pop('model')
        ctx.count(f'history:{name}:{variant}')
        ctx.count(f'history-gain-span:1e{meta["span"][0]}..1e{meta["span"][1]}' if meta['span'][0] != 'near-one' else 'history-gain-span:1+-1e-4')
        ctx.run(history_gain_invariance, model=name, variant=variant, **inp)


def _close(a, b, rtol=1e-9, atol=1e-13):
    a, b = np.asarray(a), np.asarray(b)
    if a.shape != b.shape or not (np.isfinite(a).all() and np.isfinite(b).all()):
        return False
    return bool(np.all(np.abs(a - b) <= atol + rtol * np.maximum(np.abs(a), np.abs(b))))


def corr(ctx):
    """normalisation entry points of every directional model and the statistics they read, model driver vs real code;
    observed through public methods (log_pdf + log_norm) and by wrapping the externals of the M-steps"""
    from pb_bss.distribution import ComplexAngularCentralGaussian, ComplexWatson, VonMisesFisher
    from pb_bss.distribution.complex_bingham import ComplexBingham
    rng = ctx.rng
    lines, wants, ops = [], [], []
    tiny = pu.TINY
    for i in range(ctx.n(120, 2500)):
        D = int(rng.integers(2, 9))
        scale = 10.0 ** float(rng.choice([0, 0, rng.uniform(-100, 100)]))
        y = pu.cnormal(rng, (D,)) * scale
        # -- normalisation entry points
        lines.append(f'unitnorm where {D} {fbits([tiny])} {cbits(y)}')
        wants.append(cacg_mod.normalize_observation(y[None, :])[:, 0])
        ops.append('cacg.normalize_observation')
        lines.append(f'unitnorm max {D} {fbits([tiny])} {cbits(y)}')
        wants.append(watson_mod.normalize_observation(y))
        ops.append('watson.normalize_observation')
        lines.append(f'unitnorm max {D} {fbits([tiny])} {cbits(y)}')
        wants.append(bingham_mod.normalize_observation(y))
        ops.append('bingham.normalize_observation')
        z = watson_mod.normalize_observation(y)
        # -- cACG density statistic: quadratic form of _log_pdf
        A = pu.cnormal(rng, (D, D))
        cov = A @ A.conj().T + 0.1 * np.eye(D)
        cacg = ComplexAngularCentralGaussian.from_covariance(cov)
        q = cacg._log_pdf(z[:, None])[1][0]
        U, lam = cacg.covariance_eigenvectors, cacg.covariance_eigenvalues
        B = (U / lam) @ U.conj().T
        lines.append(f'quadform {D} {cbits(B)} {cbits(z)}')
        wants.append(np.array([q]))
        ops.append('cacg.quadratic_form')
        # -- Bingham density statistic: log_pdf + log_norm = Re(z^H B z)
        if D <= 6:
            bing = ComplexBingham(covariance_eigenvectors=U, covariance_eigenvalues=-np.sort(rng.random(D))[::-1] * 5)
            val = bing.log_pdf(z[None, :])[0] + bing.log_norm()
            lines.append(f'quadform {D} {cbits(bing.covariance)} {cbits(z)}')
            wants.append(np.array([val]))
            ops.append('bingham.log_pdf')
        # -- Watson density statistic: (log_pdf + log_norm) / kappa = |w^H z|^2
        mode = watson_mod.normalize_observation(pu.cnormal(rng, (D,)))
        kappa = float(rng.uniform(0.5, 20))
        wat = ComplexWatson(mode=mode, concentration=np.array(kappa))
        val = (wat.log_pdf(z[None, :])[0] + wat.log_norm()) / kappa
        lines.append(f'innerabssq {D} {cbits(mode)} {cbits(z)}')
        wants.append(np.array([val]))
        ops.append('watson.log_pdf')
        # -- vMF: (log_pdf + log_norm) / kappa = <normalize(e), mu>
        e = rng.normal(size=D) * scale
        mu = rng.normal(size=D)
        mu /= np.linalg.norm(mu)
        vmf = VonMisesFisher(mean=mu, concentration=np.array(kappa))
        val = (vmf.log_pdf(e[None, :])[0] + vmf.log_norm()) / kappa
        lines.append(f'normmaxr {D} {fbits([tiny])} {fbits(e)}')
        wants.append(('then-dot', mu, val))
        ops.append('vmf.log_pdf')
        ctx.count('corr-scale:' + ('1' if scale == 1.0 else 'random 1e-100..1e100'))
    out = run_driver(lines, exe=EXE)
    follow, fwants = [], []
    for o, w_, op, ln in zip(out, wants, ops, lines):
        if isinstance(w_, tuple):
            en = parse_floats(o)
            follow.append(f'dotr {len(en)} {fbits(en)} {fbits(w_[1])}')
            fwants.append(w_[2])
            continue
        if op in ('cacg.quadratic_form', 'bingham.log_pdf'):
            got = parse_complex(o)
            val = np.abs(got) if op == 'cacg.quadratic_form' else got.real
            ok = _close(val, w_, rtol=1e-9, atol=1e-9 * float(np.max(np.abs(w_))) + 1e-12)
            if op == 'cacg.quadratic_form':
                # conditioning: z^H B z is evaluated from entries of size max(1/lambda)
                ok = bool(np.all(np.abs(val - w_) <= 1e-9 * np.abs(w_) + 1e-6 * np.abs(w_)))
        elif op == 'watson.log_pdf':
            ok = _close(parse_floats(o), w_, rtol=1e-9, atol=1e-12)
        else:
            got = parse_complex(o)
            ok = _close(got.real, np.real(w_), atol=1e-300) and _close(got.imag, np.imag(w_), atol=1e-300)
        ctx.corr(op, ok, f'{ln[:50]}: code {np.asarray(w_).ravel()[:4]} model {o[:90]}')
    for o, w_ in zip(run_driver(follow, exe=EXE), fwants):
        ctx.corr('vmf.log_pdf', _close(parse_floats(o), [w_], rtol=1e-9, atol=1e-12), f'code {w_} model {parse_floats(o)}')
    # -- M-step statistics, externals wrapped: scatter matrices (cACG: from_covariance argument, Watson: get_pca argument,
    #    Bingham: eigh argument) and the vMF resultant (mean direction)
    lines, wants, ops = [], [], []
    for i in range(ctx.n(40, 800)):
        D = int(rng.integers(2, 6))
        N = int(rng.integers(D + 1, D + 10))
        scale = 10.0 ** rng.uniform(-100, 100, size=(N, 1)) if rng.random() < 0.5 else 1.0
        y = pu.cnormal(rng, (N, D)) * scale
        s = rng.random(N) + 0.05
        z = watson_mod.normalize_observation(y)
        seen = {}
        orig = watson_mod.get_pca

        def wrapped(cov, *a, **k):
            seen['cov'] = np.array(cov)
            return orig(cov, *a, **k)
        watson_mod.get_pca = wrapped
        try:
            ComplexWatsonTrainer(dimension=D).fit(y, saliency=s)
        finally:
            watson_mod.get_pca = orig
        lines.append(f'scatter {D} {N} {fbits(s)} {cbits(z)}')
        wants.append(seen['cov'] * s.sum())
        ops.append('watson.scatter')
        # cACG: covariance handed to from_covariance = D * sum_n (s_n / q_n) z_n z_n^H / sum_n s_n   (then hermitised)
        qf = rng.random(N) + 0.5
        orig_fc = cacg_mod.ComplexAngularCentralGaussian.from_covariance
        seen2 = {}

        def fc(covariance, **k):
            seen2['cov'] = np.array(covariance)
            return orig_fc(covariance, **k)
        cacg_mod.ComplexAngularCentralGaussian.from_covariance = staticmethod(fc)
        try:
            zc = cacg_mod.normalize_observation(y)          # (D, N)
            ComplexAngularCentralGaussianTrainer()._fit(y=zc[None], saliency=s[None], quadratic_form=qf[None], hermitize=False)
        finally:
            cacg_mod.ComplexAngularCentralGaussian.from_covariance = orig_fc
        lines.append(f'scatter {D} {N} {fbits(s / qf)} {cbits(zc.T)}')
        wants.append(seen2['cov'][0] * s.sum() / D)
        ops.append('cacg.scatter')
        # vMF resultant direction
        e = rng.normal(size=(N, D)) * (np.abs(scale) if not np.isscalar(scale) else 1.0)
        en = e / np.maximum(np.linalg.norm(e, axis=-1, keepdims=True), tiny)
        vm = VonMisesFisherTrainer().fit(e, saliency=s)
        lines.append(f'resultant {D} {N} {fbits(s)} {fbits(en)}')
        wants.append(vm.mean)
        ops.append('vmf.resultant')
    for o, w_, op, ln in zip(run_driver(lines, exe=EXE), wants, ops, lines):
        if op == 'vmf.resultant':
            r = parse_floats(o)
            got = r / max(np.linalg.norm(r), tiny)
            ok = _close(got, w_, rtol=1e-9, atol=1e-12)
        else:
            D = w_.shape[0]
            got = parse_complex(o).reshape(D, D)
            ok = bool(np.max(np.abs(got - w_)) <= 1e-9 * np.max(np.abs(w_)) + 1e-300)
        ctx.corr(op, ok, f'{ln[:40]}: max |code-model| = {np.max(np.abs(got - w_)):.3g}')
    ctx.sample({'op': 'scatter/quadform/innerabssq/unitnorm', 'note': 'see correspondence_ops'})

"""C17 - the documented pipeline separates a separable multi-channel scene.

search : the full chain of PUBLIC entry points (mixture model per frequency from a per-frequency permuted, blurred
         partition -> DHTV -> oracle global alignment -> mask-based PSDs -> get_bf_vector -> output_sxr) on synthetic
         scenes drawn inside the quantifier's domain.  The 99 % / 30 dB thresholds with ESTIMATED masks are
         empirical: this clause is search-only ("partial").
corr   : the ideal-mask scene model of lean/PbBss/Model/Pipeline.lean (noise PSD = sum_j sigma_j a_j a_j^H + eps 1,
         Souden vector for a rank-one target, SIR / leakage / zero-forcing bound as quadratic forms, and the
         (F,K,T) -> (K,F,T) -> mapping -> (F,K,T) -> PSD (F,K,D,D) -> bf (F,D) index plumbing) against the real
         get_power_spectral_density_matrix / get_mvdr_vector_souden / get_wmwf_vector / apply_mapping /
         apply_beamforming_vector / output_sxr.
"""
import numpy as np

from .. import pipeline_util as pu
from ..core import Fail, Skip, oracle
from ..lean import cbits, fbits, ints, parse_complex, parse_floats, run_driver

ID = 'C17'
DRIVERS = ('driver_pipeline',)
THEOREMS = [
    'PbBss.C17.axes_contract',
    'PbBss.C17.axes_contract_bf',
    'PbBss.C17.axes_alignment_bookkeeping',
    'PbBss.C17.ideal_mask_psd',
    'PbBss.C17.ideal_noise_psd_quadratic_form',
    'PbBss.C17.mvdr_leakage_bound',
    'PbBss.C17.sir_bound',
    'PbBss.C17.sir_bound_mul',
    'PbBss.C17.sir_30dB',
    'PbBss.C17.sir_30dB_logb',
    'PbBss.C17.sir_scale_invariant',
    'PbBss.C17.sir_weighted_bound',
    'PbBss.C17.sir_aggregate_over_bins',
    'PbBss.C17.gev_same_direction',
    'PbBss.C17.gev_principal_exists',
    'PbBss.C17.souden_same_direction',
    'PbBss.C17.wmwf_same_direction',
    'PbBss.C17.pca_same_direction',
    'PbBss.C17.rank_one_estimate_fixed',
    'PbBss.C17.ideal_pipeline_sir_partial',
    'PbBss.C17.two_level_mask_psd',
    'PbBss.C17.two_level_noise_psd',
    'PbBss.C17.mvdr_invariant_under_target_leak',
    'PbBss.C17.mvdr_leak_free_of_leaky',
    'PbBss.C17.leaky_mvdr_leakage_bound',
    'PbBss.C17.two_level_pipeline_sir_partial',
    'PbBss.C17.em_posterior_psd',
    'PbBss.C17.balanced_pipeline_chain',
    'PbBss.C17.watson_balanced_pipeline_chain',
]
ASSUMPTIONS = [
    'PARTIAL: the 99 % MAP-accuracy and 30 dB SIR thresholds with ESTIMATED masks (EM posteriors after DHTV + oracle '
    'alignment) are empirical - decided by the search on the real code only; no theorem covers EM convergence from the '
    'blurred start or DHTV convergence (C16 P2)',
    'beyond ideal masks: TWO-LEVEL masks (g on the true class of a frame, h elsewhere - exactly what the EM fixed-point theorems '
    'of C03 give in the balanced scene; em_posterior_psd states it for eStep(fit n) of the cACG mixture itself) give the '
    'mass-weighted combination of the ideal class PSDs, the noise PSD then contains the target direction, and the MVDR-type '
    'beamformer built from that leaky noise PSD with the TRUE steering vector is the leak-free one (MPDR = MVDR) and obeys the same '
    '30 dB bound (two_level_pipeline_sir_partial); not covered: steering-vector / rank-one estimates from the leaky target PSD',
    'theorems cover the ideal-mask model: noise PSD = sum_{j != k} sigma_j a_j a_j^H + eps 1 (sigma_j >= 0, eps > 0), '
    'rank-one target sigma_k a_k a_k^H, existence of a zero-forcing vector v (v^H a_k = 1, v^H a_j = 0), solver contract '
    'Phi_nn u = a_k (np.linalg.solve), generalised-eigenvector contract Phi_xx w = lambda Phi_nn w with lambda != 0 (eigh)',
    'numeric corollary: eps / sigma_k <= 1e-4 and ||v_ZF||^2 <= 10 give SIR >= 1000 (30 dB) per bin; aggregated over '
    'bins and weighted by activity fractions p_j <= 1 as output_sxr does (sir_weighted_bound, sir_aggregate_over_bins)',
    'search domain: K 2..3, D K+1..8, F in {33, 65, 257}, T 60..200, sources disjoint in time-frequency (one owner per '
    'frame), complex Gaussian steering vectors per bin CONDITIONED on separability (for unit-norm steering vectors a '
    'zero-forcing vector of squared norm <= 10 exists for every source, i.e. pairwise |cos|^2 <= 0.9 for K = 2 - the '
    'hypothesis of sir_30dB; about 1 % of the bins are redrawn at D = K+1 = 3; with |cos|^2 >= 0.99 in a bin the cWMM '
    '(concentration capped at max_concentration=500) merges the two sources of that bin and the scene is not separable), noise 40..60 dB below the weakest source, every source active in '
    '>= 15 % of the frames, permutation fields with a 70..100 % majority order in the first DHTV segment and arbitrary '
    'elsewhere, shipped 512 plan or custom plans with shift <= width/3 whose later segments overlap the aligned band by '
    '>= 2/3, blur 0.5..0.9, 10 EM iterations',
]

from pb_bss.extraction import (  # noqa: E402
    apply_beamforming_vector, get_mvdr_vector, get_mvdr_vector_souden, get_power_spectral_density_matrix,
    get_wmwf_vector)
from pb_bss.evaluation.sxr_module import output_sxr  # noqa: E402
from pb_bss import permutation_alignment as pa  # noqa: E402


# ============================================================================= correspondence
def _close(a, b, rtol=1e-9, atol=0.0, scale=None):
    a = np.asarray(a); b = np.asarray(b)
    if a.shape != b.shape:
        return False
    if not (np.all(np.isfinite(a)) and np.all(np.isfinite(b))):
        return False
    s = scale if scale is not None else max(float(np.max(np.abs(a), initial=0.0)), float(np.max(np.abs(b), initial=0.0)))
    return bool(np.max(np.abs(a - b), initial=0.0) <= atol + rtol * s)


def _ideal_frames(rng, K, D, a, nsig, amp_noise):
    """A bin whose ideal-mask PSDs are EXACTLY the model: class j owns nsig[j] frames `a_j s_t` and D frames
    `c_j e_d`; returns observation (D, T), owner (T,), images (K, D, T), noise part (D, T), sigma (K,), eps_j (K,)."""
    cols, own, img, noi = [], [], [], []
    sigma = np.zeros(K)
    epsj = np.zeros(K)
    for j in range(K):
        s = pu.cnormal(rng, nsig[j]) * rng.uniform(0.5, 1.5, size=nsig[j])
        n_j = nsig[j] + D
        sigma[j] = np.sum(np.abs(s) ** 2) / n_j
        epsj[j] = amp_noise[j] ** 2 / n_j
        for t in range(nsig[j]):
            cols.append(a[j] * s[t]); own.append(j); img.append((j, a[j] * s[t])); noi.append(np.zeros(D, complex))
        for d in range(D):
            e = np.zeros(D, complex); e[d] = amp_noise[j]
            cols.append(e); own.append(j); img.append((j, np.zeros(D, complex))); noi.append(e)
    T = len(cols)
    Y = np.stack(cols, axis=1)
    owner = np.array(own)
    images = np.zeros((K, D, T), complex)
    for t, (j, x) in enumerate(img):
        images[j, :, t] = x
    return Y, owner, images, np.stack(noi, axis=1), sigma, epsj


def _corr_ideal(ctx):
    """ops `scene`, `souden`, `wmwf`, `mvdr`, `sir`: ideal-mask model vs the real PSD / Souden / WMWF / MVDR /
    output_sxr code on bins whose ideal-mask PSDs are exactly `sigma_j a_j a_j^H + eps_j 1`"""
    rng = ctx.rng
    n = ctx.n(40, 600)
    for it in range(n):
        K = int(rng.integers(2, 4))
        D = int(rng.integers(K + 1, 9))
        F = int(rng.integers(2, 5))
        equal = bool(rng.random() < 0.5)
        nsig0 = int(rng.integers(3, 9))
        lines, meta = [], []
        Ys, owners, imgs, nois, sigs, epss, As = [], [], [], [], [], [], []
        nsig = [nsig0] * K if equal else [int(x) for x in rng.integers(3, 9, size=K)]
        amp = rng.uniform(0.005, 0.02, size=K)
        for f in range(F):
            a = pu.cnormal(rng, K, D)
            while pu.zf_gain(a) > 1e3:          # numerically collinear steering vectors only spoil the tolerances
                a = pu.cnormal(rng, K, D)
            Y, owner, images, noise, sigma, epsj = _ideal_frames(rng, K, D, a, nsig, amp)
            Ys.append(Y); owners.append(owner); imgs.append(images); nois.append(noise)
            sigs.append(sigma); epss.append(epsj); As.append(a)
        Y = np.stack(Ys)                                  # F, D, T
        owner = owners[0]
        T = Y.shape[-1]
        images = np.stack(imgs, axis=1)                   # K, F, D, T
        noise = np.stack(nois)                            # F, D, T
        ideal = (owner[None, :] == np.arange(K)[:, None]).astype(np.float64)          # K, T
        mask_fkt = np.broadcast_to(ideal[None], (F, K, T)).copy(order='K')
        psd = get_power_spectral_density_matrix(Y, mask_fkt)                           # F, K, D, D   (real code)
        p = np.array([np.sum(owner == j) for j in range(K)]) / T
        ctx.count(f'corr-ideal-K{K}-D{D}-F{F}-{"equal" if equal else "unequal"}-frames')
        W = np.zeros((K, F, D), complex)
        for k in range(K):
            others = [j for j in range(K) if j != k]
            target = psd[:, k]
            nn = psd[:, others].sum(axis=1)
            w_code, ref = get_mvdr_vector_souden(target, nn, return_ref_channel=True)   # (F, D)  (real code)
            ref = int(ref)
            W[k] = w_code
            mu = float(rng.uniform(0.0, 2.0))
            # plain MVDR with the true steering vectors, all bins stacked: (F, D) ATFs against (F, D, D) PSDs
            try:
                w_mvdr = get_mvdr_vector(np.stack([As[f][k] for f in range(F)]), nn)
                if w_mvdr.shape != (F, D):
                    raise ValueError(f'shape {w_mvdr.shape}')
            except Exception as e:  # noqa
                ctx.corr('mvdr-from-solve(get_mvdr_vector, stacked bins)', False,
                         f'get_mvdr_vector((F,D) ATFs, (F,D,D) PSDs) failed: {type(e).__name__}: {e}')
                w_mvdr = None
            for f in range(F):
                a, sigma = As[f], sigs[f]
                # (1) scene: model PSDs vs real PSDs
                lines.append(f'scene {K} {D} {k} {fbits(sigma)} {fbits(epss[f])} {cbits(a)}')
                meta.append(('scene', dict(nn=nn[f], xx=target[f], K=K, D=D)))
                # (2) Souden / WMWF for the rank-one target from the solver value u = solve(Phi_nn, a_k)
                u = np.linalg.solve(nn[f], a[k])
                res = float(np.linalg.norm(nn[f] @ u - a[k]) / np.linalg.norm(a[k]))
                tgt1 = sigma[k] * np.outer(a[k], a[k].conj())
                w1 = get_mvdr_vector_souden(tgt1[None], nn[f][None], ref_channel=ref)[0]
                w1m = get_wmwf_vector(tgt1[None], nn[f][None], reference_channel=ref, distortion_weight=mu)[0]
                lines.append(f'souden {D} {ref} {fbits([sigma[k]])} {cbits(a[k])} {cbits(u)}')
                meta.append(('souden', dict(w=w1, res=res)))
                lines.append(f'wmwf {D} {ref} {fbits([mu, sigma[k]])} {cbits(a[k])} {cbits(u)}')
                meta.append(('wmwf', dict(w=w1m, res=res)))
                # (3) SIR / leakage as quadratic forms for the REAL Souden vector of the pipeline (target PSD incl. eps_k 1)
                v = pu.zero_forcing(a, k)
                cands = [('pipeline', w_code[f]), ('rank-one', w1)]
                if w_mvdr is not None:
                    lines.append(f'mvdr {D} {cbits(a[k])} {cbits(u)}')
                    meta.append(('mvdr', dict(w=w_mvdr[f], res=res)))
                    cands.append(('mvdr', w_mvdr[f]))
                for tag, wq in cands:
                    lines.append(f'sir {K} {D} {k} {fbits(sigma)} {fbits(epss[f])} {fbits(p)} {cbits(a)} '
                                 f'{cbits(wq)} {cbits(v)}')
                    meta.append(('sir', dict(
                        tag=tag,
                        leak=float(np.real(wq.conj() @ nn[f] @ wq)),
                        sig=float(np.mean(np.abs(wq.conj() @ images[k, f]) ** 2)),
                        intf=float(sum(np.mean(np.abs(wq.conj() @ images[j, f]) ** 2) for j in others)),
                        k=k, f=f)))
        # output_sxr over all bins (real code) for the aggregated model SIR
        ic = np.stack([np.stack([apply_beamforming_vector(W[k], images[s]).reshape(-1) for k in range(K)])
                       for s in range(K)])
        nc = np.stack([apply_beamforming_vector(W[k], noise).reshape(-1) for k in range(K)])
        sir_db = np.asarray(output_sxr(ic, nc, average_sources=False).sir)
        out = run_driver(lines, exe='driver_pipeline')
        agg_sig = np.zeros(K); agg_int = np.zeros(K)
        for (op, m), o in zip(meta, out):
            if op == 'scene':
                z = parse_complex(o)
                D_ = m['D']
                nn_m = z[:D_ * D_].reshape(D_, D_); xx_m = z[D_ * D_:].reshape(D_, D_)
                ok = _close(nn_m, m['nn'], rtol=1e-9) and _close(xx_m, m['xx'], rtol=1e-9,
                                                                 scale=float(np.max(np.abs(m['nn'])) + np.max(np.abs(xx_m))))
                ctx.corr('ideal-psd(get_power_spectral_density_matrix)', ok,
                         f'model noise PSD / target PSD differ from the code: max|d|={np.max(np.abs(nn_m - m["nn"])):.3g}',
                         {'nn_code': m['nn'], 'nn_model': nn_m})
            elif op in ('souden', 'wmwf', 'mvdr'):
                w_m = parse_complex(o)
                # solver residual enters with the condition number: tolerance 1e-6 rel (task statement)
                ok = _close(w_m, m['w'], rtol=1e-6)
                fn = {'souden': 'rank-one(get_mvdr_vector_souden)', 'wmwf': 'rank-one(get_wmwf_vector)',
                      'mvdr': 'from-solve(get_mvdr_vector, stacked bins)'}[op]
                ctx.corr(f'{op}-{fn}', ok,
                         f'model {op} vector differs: max|d|={np.max(np.abs(w_m - m["w"])):.3g} solver residual {m["res"]:.2g}',
                         {'w_code': m['w'], 'w_model': w_m})
            else:
                # signal, interference, eps||w||^2, quadForm(noisePsd, w), eps||v||^2, sir, sirLower, p-signal,
                # p-interference, |w^H a_k|^2
                x = parse_floats(o)
                ok = (x.size == 10 and _close(x[3], m['leak'], rtol=1e-6) and _close(x[1] + x[2], x[3], rtol=1e-6) and
                      _close(x[7], m['sig'], rtol=1e-6) and _close(x[8], m['intf'], rtol=1e-6, atol=1e-300))
                ctx.corr('sir-quadratic-forms(get_mvdr_vector_souden,apply_beamforming_vector)', ok,
                         f'model {x.tolist()} code leak={m["leak"]} sig={m["sig"]} intf={m["intf"]}', {'model': x})
                if m['tag'] in ('rank-one', 'mvdr'):
                    # the proved inequalities must be visible on the real vector (up to rounding), after scaling it to
                    # w^H a_k = 1: leakage <= eps ||v||^2  and  SIR >= sigma_k / (eps ||v||^2)
                    which = 'real Souden vector, rank-one target' if m['tag'] == 'rank-one' else 'real get_mvdr_vector'
                    ctx.corr(f'leakage<=zero-forcing-bound({which})',
                             bool(x[3] / x[9] <= x[4] * (1 + 1e-6)), f'leakage {x[3] / x[9]} > bound {x[4]}')
                    ctx.corr(f'sir>=sigma_k/(eps||v||^2)({which})',
                             bool(x[5] >= x[6] * (1 - 1e-6)), f'SIR {x[5]} < lower bound {x[6]}')
                if m['tag'] == 'pipeline':
                    agg_sig[m['k']] += x[7]; agg_int[m['k']] += x[8]
        sir_model = agg_sig / agg_int
        ok = _close(10 * np.log10(sir_model), sir_db, rtol=1e-6, atol=1e-6)
        ctx.corr('sir-aggregate(output_sxr)', ok, f'model {10 * np.log10(sir_model)} dB, output_sxr {sir_db} dB',
                 {'model': sir_model, 'code_db': sir_db})
        if it == 0:
            ctx.sample({'op': 'ideal-scene', 'K': K, 'D': D, 'F': F, 'T': T, 'sir_db_code': sir_db.tolist(),
                        'sir_db_model': (10 * np.log10(sir_model)).tolist()})


def _corr_axes(ctx):
    """op `axes`: (F,K,T) posteriors -> (K,F,T) -> per-bin mapping -> global permutation -> (F,K,T) -> PSD (F,K,D,D)
    -> beamformed (K,F,T'), flat row-major arrays in, flat row-major arrays out; pairwise distinct sizes."""
    rng = ctx.rng
    n = ctx.n(40, 600)
    lines, meta = [], []
    for _ in range(n):
        sizes = rng.permutation(np.arange(2, 8))[:4]
        K, D, F, T = (int(x) for x in sizes)
        K = min(K, 4)
        F = F if F % 2 == 1 else F + 1
        post = rng.random((F, K, T)) + 1e-3
        post /= post.sum(1, keepdims=True)
        if rng.random() < 0.2:
            post[int(rng.integers(F)), int(rng.integers(K))] = 0.0           # empty class: the 1e-10 floor
        Y = pu.cnormal(rng, F, D, T)
        mapping = np.stack([rng.permutation(K) for _ in range(F)], axis=1)      # K, F
        g = rng.permutation(K)
        W = pu.cnormal(rng, K, F, D)
        masks = post.transpose(1, 0, 2)                                       # k f t
        aligned = pa.apply_mapping(masks, mapping)[g]                         # real code
        psd = get_power_spectral_density_matrix(Y, aligned.transpose(1, 0, 2))  # F K D D
        nn = np.stack([psd[:, [j for j in range(K) if j != k]].sum(axis=1) for k in range(K)], axis=1)   # F K D D
        bf = np.stack([apply_beamforming_vector(W[k], Y) for k in range(K)])    # K F T
        lines.append(f'axes {F} {K} {T} {D} {fbits(post)} {cbits(Y)} {ints(mapping)} {ints(g)} {cbits(W)}')
        meta.append((F, K, T, D, psd, nn, bf))
        ctx.count(f'corr-axes-K{K}')
    out = run_driver(lines, exe='driver_pipeline')
    for (F, K, T, D, psd, nn, bf), o in zip(meta, out):
        z = parse_complex(o)
        n1 = F * K * D * D
        ok = (z.size == 2 * n1 + K * F * T and _close(z[:n1].reshape(F, K, D, D), psd, rtol=1e-9) and
              _close(z[n1:2 * n1].reshape(F, K, D, D), nn, rtol=1e-9) and _close(z[2 * n1:].reshape(K, F, T), bf, rtol=1e-9))
        ctx.corr('axes(transpose,apply_mapping,get_power_spectral_density_matrix,apply_beamforming_vector)', ok,
                 f'shape F={F} K={K} T={T} D={D}: model PSD / noise PSD / beamformed output differ from the code')
    if meta:
        ctx.sample({'op': 'axes', 'F': meta[-1][0], 'K': meta[-1][1], 'T': meta[-1][2], 'D': meta[-1][3]})


def corr(ctx):
    _corr_ideal(ctx)
    _corr_axes(ctx)


# ============================================================================= search on the real code
_CACHE = {}
_STATS = {'acc': 1.0, 'sir': np.inf, 'sir_bf': ''}


def _chain(model, steering, owner, source, noise, perm, blur, dhtv, iterations, global_variant, entry='fit+predict'):
    """run the documented chain once per (scene, model); cached so the per-beamformer oracles share it"""
    key = (id(noise), id(steering), model, global_variant, float(blur), int(iterations), entry)
    hit = _CACHE.get('last')
    if hit is not None and hit[0] == key and hit[1] is noise:
        return hit[2]
    F, K, D = steering.shape
    T = owner.shape[0]
    images = pu.source_images(steering, owner, source)                       # K, F, D, T
    Y = images.sum(axis=0) + noise                                            # F, D, T
    truth = np.broadcast_to((owner[None, :] == np.arange(K)[:, None])[:, None, :], (K, F, T)).astype(np.float64)
    init = pu.start_masks(owner, perm, blur, K, F)
    post = pu.fit_predict(model, Y.transpose(0, 2, 1), init, iterations, entry)      # F, K, T
    aligned, mapping, gmap = pu.align(post, dhtv, truth, Y, images, global_variant)
    res = dict(images=images, Y=Y, truth=truth, post=post, aligned=aligned, mapping=mapping, gmap=gmap)
    _CACHE['last'] = (key, noise, res)
    return res


def _ref_plan(dhtv, F):
    from .. import pyref
    return pyref.ref_plan(F, dhtv['segment_start'], dhtv['segment_width'], dhtv['segment_shift'],
                          dhtv['main_iterations'], dhtv['sub_iterations'])


def _domain(steering, owner, source, noise, perm, dhtv):
    why = pu.scene_in_domain(steering, owner, source, noise)
    if why:
        return why
    F = steering.shape[0]
    # the premise is about the CONFIGURATION: judge it on the documented plan construction, not on whatever
    # the library's alignment_plan returns (a broken plan must not turn the scene into "outside the domain")
    plan = _ref_plan(dhtv, F)
    if 3 * dhtv['segment_shift'] > dhtv['segment_width'] and (dhtv['stft_size'], dhtv['segment_start'],
                                                                dhtv['segment_width'], dhtv['segment_shift']) not in (
            (512, 70, 100, 20), (1024, 100, 100, 20)):
        return 'custom DHTV plan with shift > width/3'
    if not pu.plan_in_domain(plan, F):
        return 'DHTV plan: a later segment overlaps the aligned band by < 2/3'
    if pu.majority_fraction(perm, plan) < 0.70 - 1e-12:
        return 'permutation field: < 70 % majority in the first DHTV segment'
    return None


@oracle
def map_accuracy(model, steering, owner, source, noise, perm, blur, dhtv, iterations, global_variant, entry='fit+predict'):
    """aligned posteriors: MAP class == true source in >= 99 % of the time-frequency points"""
    why = _domain(steering, owner, source, noise, perm, dhtv)
    if why:
        return Skip(why)
    r = _chain(model, steering, owner, source, noise, perm, blur, dhtv, iterations, global_variant, entry)
    al = r['aligned']
    K, F, T = r['truth'].shape
    if al.shape != (K, F, T):
        return Fail(f'aligned-shape:{model}', f'aligned masks have shape {al.shape}, expected {(K, F, T)}')
    if not np.all(np.isfinite(al)):
        return Fail(f'posterior-not-finite:{model}', 'aligned posteriors contain NaN/inf')
    acc = float(np.mean(al.argmax(axis=0) == r['truth'].argmax(axis=0)))
    _STATS['acc'] = min(_STATS['acc'], acc)
    if acc < 0.99:
        # diagnose which stage lost it (description only; the tag stays data-independent)
        comp = np.stack([perm[r['mapping'][:, f], f] for f in range(F)], axis=1)
        const = bool(np.all(comp == comp[:, :1]))
        return Fail(f'map-accuracy-below-99:{model}',
                    f'{model}: MAP class equals the true source in {100 * acc:.2f} % of the {F}x{T} points '
                    f'(K={K}, D={steering.shape[2]}); class order after DHTV constant over frequency: {const}',
                    accuracy=acc)


@oracle
def output_sir(beamformer, noise_variant, model, steering, owner, source, noise, perm, blur, dhtv, iterations,
               global_variant, entry='fit+predict', bf_options=None):
    """every source: output_sxr(...).sir >= 30 dB for the named beamformer designed from the aligned posteriors"""
    why = _domain(steering, owner, source, noise, perm, dhtv)
    if why:
        return Skip(why)
    r = _chain(model, steering, owner, source, noise, perm, blur, dhtv, iterations, global_variant, entry)
    try:
        W, _ = pu.design_beamformers(beamformer, r['Y'], r['aligned'], noise_variant, bf_options)
    except Exception as e:  # the property allows no exception on a separable scene
        return Fail(f'exception:{beamformer}:{type(e).__name__}',
                    f'mask-based PSDs (F,K,D,D) from the aligned posteriors + get_bf_vector({beamformer!r}) ({model}, noise PSD '
                    f'{noise_variant}) raised {type(e).__name__}: {str(e)[:200]}')
    F, K, D = steering.shape
    if W.shape != (K, F, D):
        return Fail(f'bf-shape:{beamformer}', f'beamforming vectors have shape {W.shape[1:]}, expected {(F, D)}')
    sir = pu.sir_per_source(W, r['images'], noise)
    if np.all(np.isfinite(sir)) and float(np.min(sir)) < _STATS['sir']:
        _STATS.update(sir=float(np.min(sir)), sir_bf=beamformer)
    if not np.all(sir >= 30.0):      # NaN fails too
        return Fail(f'sir-below-30dB:{beamformer}',
                    f'{beamformer} ({model}, noise PSD {noise_variant}): output SIR per source {np.round(sir, 2).tolist()} dB '
                    f'(K={K}, D={D}, F={F}, T={owner.shape[0]})', sir=sir)


def _draw_case(rng, Fs):
    K = int(rng.integers(2, 4))
    D = int(rng.integers(K + 1, 9))
    F = int(rng.choice(Fs))
    T = int(rng.integers(60, 201))
    noise_db = -float(rng.choice([40, 40, 40, 45, 50, 60]))
    steering, owner, source, noise, akind = pu.make_scene(rng, K, D, F, T, noise_db)
    # absolute level of the recording (the property does not restrict it): sources and sensor noise scaled together
    level = 1.0 if rng.random() < 0.4 else float(10 ** rng.uniform(-6, 3))
    source, noise = source * level, noise * level
    dhtv, pkind = pu.dhtv_cfg(rng, F)
    plan = _ref_plan(dhtv, F)
    perm = pu.perm_field(rng, K, F, plan, majority=0.70 if rng.random() < 0.4 else None)
    blur = float(rng.uniform(0.5, 0.9))
    return dict(steering=steering, owner=owner, source=source, noise=noise, perm=perm, blur=blur, dhtv=dhtv,
                iterations=10), dict(K=K, D=D, F=F, T=T, noise_db=noise_db, activity=akind, plan=pkind,
                                 level='1' if level == 1.0 else '1e%d' % int(np.floor(np.log10(level))))


def search(ctx):
    rng = ctx.rng
    n = ctx.n(16, 150)
    _STATS.update(acc=1.0, sir=np.inf, sir_bf='')
    for i in range(n):
        if ctx.out_of_time(reserve=15.0):
            ctx.note(f'search stopped after {i} scenes (time budget)')
            break
        if ctx.tier == 'quick':
            Fs = (257,) if i == 0 else (33, 33, 65)
        else:
            Fs = (33, 65, 65, 257)
        case, info = _draw_case(rng, Fs)
        ctx.count('scene-K%d' % info['K']); ctx.count('scene-D%d' % info['D']); ctx.count('scene-F%d' % info['F'])
        ctx.count('scene-noise%ddB' % info['noise_db']); ctx.count('scene-activity-' + info['activity'])
        ctx.count('scene-plan-' + info['plan'])
        for model in pu.MODELS:
            gv = str(rng.choice(['masks-cos', 'masks-euclidean', 'notebook']))
            nv = str(rng.choice(['sum-of-others', 'sum-of-others', 'complement-mask', 'map-bool-mask']))
            entry = str(rng.choice(['fit+predict', 'fit_predict']))
            ctx.count('global-alignment-' + gv); ctx.count('noise-psd-' + nv); ctx.count('entry-' + entry)
            ctx.count('scene-level-' + info['level'])
            size = info['F'] * info['T'] * info['D']
            ok = ctx.run(map_accuracy, _size=size, model=model, global_variant=gv, entry=entry, **case)
            oks = {}
            for bf in pu.BEAMFORMERS:
                opt = 'use_eig' if (pu.bf_kwargs(bf, 'use_eig') and rng.random() < 0.35) else None
                if opt:
                    ctx.count('bf-option-use_eig')
                oks[bf] = ctx.run(output_sir, _size=size, beamformer=bf, noise_variant=nv, model=model,
                                  global_variant=gv, entry=entry, bf_options=opt, **case)
            if i < 3 and _CACHE.get('last') is not None:
                r = _CACHE['last'][2]
                ctx.sample({'oracle': 'map_accuracy+output_sir', **info, 'model': model, 'global_alignment': gv,
                            'noise_psd': nv, 'blur': round(case['blur'], 3), 'dhtv': case['dhtv'],
                            'accuracy': float(np.mean(r['aligned'].argmax(0) == r['truth'].argmax(0))),
                            'held': bool(ok and all(oks.values()))})
    _CACHE.clear()
    ctx.note(f'observed margins over this run: min MAP accuracy {100 * _STATS["acc"]:.3f} % (threshold 99 %), '
             f'min output SIR {_STATS["sir"]:.1f} dB at {_STATS["sir_bf"]} (threshold 30 dB)')

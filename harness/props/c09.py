"""C09 - fitted parameters stay inside their documented domain (also for degenerate data)."""
import numpy as np

from .. import trainers_util as tu
from ..core import Fail, Skip, oracle
from ..lean import cbits, fbits, parse_floats, run_driver

ID = 'C09'
DRIVERS = ('driver_trainers',)
THEOREMS = [
    'PbBss.C09.cacg_eigs_range',
    'PbBss.C09.cacg_eigs_range_fromCovariance',
    'PbBss.C09.cacg_trace_norm',
    'PbBss.C09.cacg_trace_is_eigsum',
    'PbBss.C09.cacg_cov_posdef',
    'PbBss.C09.cacg_fromCovariance_posdef',
    'PbBss.C09.weight_simplex',
    'PbBss.C09.weight_simplex_renormalised',
    'PbBss.C09.weight_simplex_uniform',
    'PbBss.C09.vmf_mean_unit',
    'PbBss.C09.watson_mode_unit',
    'PbBss.C09.concentration_bounds',
    'PbBss.C09.gaussian_cov_psd',
    'PbBss.C09.gaussian_var_nonneg',
    'PbBss.C09.bingham_eigs',
]
ASSUMPTIONS = [
    'eigh contract (U unitary, A = U diag(lambda) U^H, lambda real ascending) assumed by cacg_eigs_range / '
    'cacg_trace_norm / cacg_cov_posdef / watson_mode_unit; bounds contract of the Bingham least-squares solver '
    '(differences in [-max_concentration, -1e-8]) assumed by bingham_eigs; both re-checked numerically per run',
    'cacg_eigs_range needs tiny <= lambda_max: a class whose weighted scatter is exactly zero is outside the theorem '
    '(the search reports what the code does there)',
    'NaN/Inf freedom on extreme magnitudes (1e+-150) is searched, not proved (Float vs R gap)',
    'an explicit exception (ValueError / AssertionError / LinAlgError / RuntimeError) is an allowed answer of a trainer; '
    'TypeError / IndexError / AttributeError etc. are not',
    'quantifier: every class starts with positive (saliency-weighted) mass and the saliency sums to a positive value over '
    'the tied axes of every weight entry; cases outside are counted as skipped',
    'Gaussian covariances that the code\'s own Cholesky accepted but that are numerically singular (lambda_min >= -1e-10 '
    'lambda_max) are judged "up to rounding" like the symmetry (collinear data with a one-ulp pivot)',
    'a failure of a cACG-based mixture at iteration n whose earlier iterate already contains a zero-scatter class is '
    'filed under that root cause (known finding cacg-zero-scatter), every other degeneracy keeps its own tag',
]

from pb_bss import distribution as dist  # noqa: E402
from pb_bss.distribution import mixture_model_utils as mmu  # noqa: E402
from pb_bss.distribution.complex_bingham import ComplexBinghamTrainer  # noqa: E402


def _first(*checks):
    for c in checks:
        if c is not None:
            return Fail(c[0], c[1])
    return None


def _unit_or_zero(v, what):
    """every vector along the last axis has norm 1 (or is exactly zero: class without scatter / resultant)"""
    n = np.sqrt(np.sum(np.abs(v) ** 2, axis=-1))
    bad = (np.abs(n - 1) > 1e-9) & (n != 0)
    if np.any(bad):
        return what + '-not-unit', f'{what} has norm {n[bad].ravel()[0]}'
    return None


def _zero_only_if(v, nonzero, what):
    n = np.sqrt(np.sum(np.abs(v) ** 2, axis=-1))
    bad = (n == 0) & nonzero
    if np.any(bad):
        return what + '-zero', f'{what} is the zero vector although the class has a non-zero scatter / resultant'
    return None


# ----------------------------------------------------------------------------- single trainers
@oracle
def single_trainer_domain(trainer, y, saliency, opt):
    sal = None if saliency is None else saliency.copy(order='K')
    try:
        if trainer == 'gaussian':
            m = dist.GaussianTrainer().fit(y.copy(order='K'), saliency=sal, covariance_type=opt['covariance_type'])
            if not tu.finite(m.mean):
                return Fail('gauss-not-finite', 'Gaussian mean contains NaN/Inf')
            return _first(tu.check_gauss_cov(m.covariance, opt['covariance_type']))
        if trainer == 'cgauss':
            m = dist.ComplexCircularSymmetricGaussianTrainer().fit(y.copy(order='K'), saliency=sal)
            if not tu.finite(m.covariance):
                return Fail('cgauss-not-finite', 'complex Gaussian covariance contains NaN/Inf')
            if tu.err(m.covariance, tu.herm(m.covariance)) > 1e-9:
                return Fail('cgauss-not-hermitian', 'complex Gaussian covariance is not Hermitian')
            return None
        if trainer == 'watson':
            m = dist.ComplexWatsonTrainer(max_concentration=opt['max_concentration']).fit(y.copy(order='K'), saliency=sal)
            if not tu.finite(m.mode, m.concentration):
                return Fail('watson-not-finite', 'Watson parameters contain NaN/Inf')
            c = np.asarray(m.concentration)
            if np.any(c < 0) or np.any(c > opt['max_concentration']):
                return Fail('watson-concentration-range', f'concentration {c.ravel()[:4]} outside [0, {opt["max_concentration"]}]')
            z = tu.unit_rows(y)
            w = np.ones(y.shape[:-1]) if sal is None else np.broadcast_to(sal, y.shape[:-1])
            nz = np.sum(w * np.sum(np.abs(z) ** 2, -1), axis=-1) > 0
            return _first(_unit_or_zero(m.mode, 'watson-mode'), _zero_only_if(m.mode, nz, 'watson-mode'))
        if trainer == 'vmf':
            m = dist.VonMisesFisherTrainer().fit(y.copy(order='K'), saliency=sal, min_concentration=opt['min_concentration'],
                                                 max_concentration=opt['max_concentration'])
            if not tu.finite(m.mean, m.concentration):
                return Fail('vmf-not-finite', 'vMF parameters contain NaN/Inf')
            c = np.asarray(m.concentration)
            if np.any(c < opt['min_concentration']) or np.any(c > opt['max_concentration']):
                return Fail('vmf-concentration-range', f'concentration {c.ravel()[:4]} outside [{opt["min_concentration"]}, {opt["max_concentration"]}]')
            z = tu.unit_rows(y)
            w = np.ones(y.shape[:-1]) if sal is None else np.broadcast_to(sal, y.shape[:-1])
            R = np.sum(w[..., None] * z, axis=-2)
            nz = np.sqrt(np.sum(R * R, -1)) > 0
            return _first(_unit_or_zero(m.mean, 'vmf-mean'), _zero_only_if(m.mean, nz, 'vmf-mean'))
        if trainer == 'cacg':
            m = dist.ComplexAngularCentralGaussianTrainer().fit(
                y.copy(order='K'), hermitize=opt['hermitize'], covariance_norm=opt['covariance_norm'],
                eigenvalue_floor=opt['eigenvalue_floor'], iterations=opt['iterations'])
            return _first(tu.check_cacg(m.covariance_eigenvalues, m.covariance_eigenvectors, opt['covariance_norm'],
                                        opt['eigenvalue_floor']))
        if trainer == 'bingham':
            m = ComplexBinghamTrainer(max_concentration=opt['max_concentration']).fit(y.copy(order='K'), saliency=sal)
            return _first(tu.check_bingham(m.covariance_eigenvalues, m.covariance_eigenvectors, opt['max_concentration']))
    except tu.ALLOWED_EXC as e:
        return Skip(f'explicit rejection: {type(e).__name__}')
    raise ValueError(trainer)


@oracle
def mixture_weight_domain(affiliation, saliency, weight_constant_axis, eps):
    wca = tu.wca_arg(weight_constant_axis)
    w = mmu.estimate_mixture_weight(affiliation.copy(order='K'), None if saliency is None else saliency.copy(order='K'), wca)
    # the weight of an index is defined when the saliency sums to a positive value over the tied axes
    if not tu.tied_saliency_positive(affiliation.shape, saliency, wca):
        return Skip('saliency sums to zero over the tied axes for some index')
    return _first(tu.check_weight(w, affiliation.shape, wca, affiliation.shape[-2], eps))


# ----------------------------------------------------------------------------- mixture trainers
@oracle
def mixture_domain(model, y, emb, init, saliency, iterations, opt):
    lead = y.ndim == 3
    sal = None if saliency is None else saliency.copy(order='K')
    try:
        m = tu.call_mixture(model, y.copy(order='K'), init.copy(order='K'), sal, iterations, opt, emb)
    except tu.ALLOWED_EXC as e:
        return Skip(f'explicit rejection: {type(e).__name__}')
    K = init.shape[-2]
    eps = opt.get('affiliation_eps', 0.0)
    integ = model in ('gcacgmm', 'vmfcacgmm')
    if not tu.class_mass_positive(model, init, saliency):
        return Skip('a class starts without mass')
    if not tu.tied_saliency_positive(init.shape, saliency, opt['weight_constant_axis']):
        return Skip('saliency sums to zero over the tied axes for some index')
    def earlier_zero_scatter(bad):
        # root cause: did an earlier iterate contain a class with all-zero weighted scatter?  (its reciprocal
        # eigenvalues / log-determinant push the next quadratic forms and log-pdfs to 1/floor resp. +-overflow; the
        # next scatter underflows, posterior columns can underflow to zero)
        for i in range(1, iterations):
            try:
                mi = tu.call_mixture(model, y.copy(order='K'), init.copy(order='K'), sal, i, opt, emb)
            except tu.ALLOWED_EXC:
                break
            b2 = tu.check_cacg(mi.cacg.covariance_eigenvalues, mi.cacg.covariance_eigenvectors,
                               opt['covariance_norm'], opt['eigenvalue_floor'])
            if b2 is not None and b2[0] == 'cacg-zero-scatter':
                return ('cacg-zero-scatter', f'(iteration {i}) {b2[1]}; at iteration {iterations}: {bad[1]}')
        return bad

    bad = tu.check_weight(m.weight, init.shape, tu.wca_arg(opt['weight_constant_axis']), K, eps, squeezed=integ)
    if bad:
        if model in ('cacgmm', 'gcacgmm', 'vmfcacgmm'):
            bad = earlier_zero_scatter(bad)
        return Fail(bad[0], f'{model}: {bad[1]}')
    checks = []
    if model in ('gmm', 'gcacgmm'):
        if not tu.finite(m.gaussian.mean):
            return Fail('gauss-not-finite', f'{model}: Gaussian mean contains NaN/Inf')
        checks.append(tu.check_gauss_cov(m.gaussian.covariance, opt['covariance_type']))
    if model in ('vmfmm', 'vmfcacgmm'):
        if not tu.finite(m.vmf.mean, m.vmf.concentration):
            return Fail('vmf-not-finite', f'{model}: vMF parameters contain NaN/Inf')
        c = np.asarray(m.vmf.concentration)
        if np.any(c < opt['min_concentration']) or np.any(c > opt['max_concentration']):
            return Fail('vmf-concentration-range', f'{model}: concentration {c.ravel()[:4]} outside the configured range')
        checks.append(_unit_or_zero(m.vmf.mean, 'vmf-mean'))
    if model == 'cwmm':
        if not tu.finite(m.complex_watson.mode, m.complex_watson.concentration):
            return Fail('watson-not-finite', 'cwmm: Watson parameters contain NaN/Inf')
        c = np.asarray(m.complex_watson.concentration)
        if np.any(c < 0) or np.any(c > opt['max_concentration']):
            return Fail('watson-concentration-range', f'cwmm: concentration {c.ravel()[:4]} outside [0, max]')
        checks.append(_unit_or_zero(m.complex_watson.mode, 'watson-mode'))
    if model in ('cacgmm', 'gcacgmm', 'vmfcacgmm'):
        bad = tu.check_cacg(m.cacg.covariance_eigenvalues, m.cacg.covariance_eigenvectors,
                            opt['covariance_norm'], opt['eigenvalue_floor'])
        if bad is not None and bad[0] != 'cacg-zero-scatter':
            bad = earlier_zero_scatter(bad)
        checks.append(bad)
    if model == 'cbmm':
        checks.append(tu.check_bingham(m.complex_bingham.covariance_eigenvalues, m.complex_bingham.covariance_eigenvectors,
                                       opt['max_concentration']))
    r = _first(*checks)
    if r is not None:
        r.desc = f'{model}: {r.desc}'
    return r


# ----------------------------------------------------------------------------- generators
def gen_degenerate_mixture(rng, model, tier):
    from .c08 import gen_opt
    K = int(rng.integers(2, 4))
    kind = str(rng.choice(tu.DEGENERATE))
    hard = bool(rng.random() < 0.5)
    if model in ('gcacgmm', 'vmfcacgmm'):
        F, T = int(rng.integers(1, 4)), int(rng.integers(1, 9))
        D, E = int(rng.integers(2, 4)), int(rng.integers(2, 4))
        y = np.stack([tu.degenerate_data(rng, kind, T, D, True) for _ in range(F)])
        ekind = str(rng.choice(tu.DEGENERATE))
        emb = np.stack([tu.degenerate_data(rng, ekind, T, E, False) for _ in range(F)])
        init = tu.gen_affiliation(rng, F, K, T, hard=hard)
        opt = gen_opt(rng, model, True)
        sal, skind = tu.gen_saliency(rng, (F, T), str(rng.choice(['none', 'none', 'uniform', 'sparse', 'integer'])))
        return dict(model=model, y=y, emb=emb, init=init, saliency=sal, iterations=int(rng.integers(1, 7)), opt=opt), f'{kind}/{ekind}', hard
    lead = rng.random() < 0.5
    F = int(rng.integers(1, 4)) if lead else 1
    D = int(rng.integers(2, 5)) if model != 'cbmm' else int(rng.integers(2, 4))
    N = int(rng.integers(1, 2 * D + 4))          # includes too few frames (N <= D)
    cplx = model in tu.COMPLEX_MODELS
    y = np.stack([tu.degenerate_data(rng, kind, N, D, cplx) for _ in range(F)])
    init = tu.gen_affiliation(rng, F, K, N, hard=hard)
    opt = gen_opt(rng, model, lead)
    if model in ('gmm', 'vmfmm', 'cwmm', 'cbmm') and rng.random() < 0.15:
        opt['weight_constant_axis'] = [-2]      # the default of GMMTrainer.fit_predict
    if model in ('cwmm', 'cacgmm', 'cbmm') and lead and rng.random() < 0.3:
        from .c08 import gen_aligner
        opt['weight_constant_axis'] = [[-3], [-3, -1], -3][int(rng.integers(3))]
        opt['aligner'] = gen_aligner(rng, F)
        if opt['aligner']['kind'] == 'dhtv' and F % 2 == 0:
            opt['aligner'] = {'kind': 'greedy', 'metric': opt['aligner']['metric']}
    sal, skind = tu.gen_saliency(rng, (F, N), str(rng.choice(['none', 'none', 'uniform', 'sparse', 'integer'])))
    if not lead:
        y, init = y[0], init[0]
        sal = None if sal is None else sal[0]
    return dict(model=model, y=y, emb=None, init=init, saliency=sal, iterations=int(rng.integers(1, 7)), opt=opt), kind, hard


def search(ctx):
    rng = ctx.rng
    # (1) single trainers on the degenerate stream
    for i in range(ctx.n(960, 10000)):
        if ctx.out_of_time():
            break
        trainer = ['gaussian', 'cgauss', 'watson', 'vmf', 'cacg', 'bingham'][i % 6]
        kind = tu.DEGENERATE[(i // 6) % len(tu.DEGENERATE)]
        lead = [(), (), (2,)][int(rng.integers(3))]
        D = int(rng.integers(2, 5))
        N = int(rng.integers(1, 2 * D + 4))
        cplx = trainer in ('cgauss', 'watson', 'cacg', 'bingham')
        y = np.stack([tu.degenerate_data(rng, kind, N, D, cplx) for _ in range(int(np.prod(lead)) or 1)]).reshape(lead + (N, D))
        sal, skind = (None, 'none') if trainer == 'cacg' else tu.gen_saliency(rng, lead + (N,), str(rng.choice(['none', 'uniform', 'sparse', 'integer'])))
        opt = {}
        if trainer == 'gaussian':
            opt['covariance_type'] = str(rng.choice(['full', 'diagonal', 'spherical']))
        if trainer == 'watson':
            opt['max_concentration'] = float(rng.choice([500, 100, 20]))
        if trainer == 'vmf':
            opt['min_concentration'], opt['max_concentration'] = [(1e-10, 500.0), (1e-3, 50.0), (0.5, 5.0)][int(rng.integers(3))]
        if trainer == 'cacg':
            opt.update(hermitize=bool(rng.random() < 0.7), covariance_norm=['eigenvalue', 'trace', False][int(rng.integers(3))],
                       eigenvalue_floor=float(rng.choice([1e-10, 1e-6, 1e-2])), iterations=int(rng.integers(1, 8)))
        if trainer == 'bingham':
            opt['max_concentration'] = float(rng.choice([np.inf, np.inf, 200.0, 20.0]))
        ctx.count(f'single-{trainer}-{kind}')
        ok = ctx.run(single_trainer_domain, trainer=trainer, y=y, saliency=sal, opt=opt)
        if i < 2:
            ctx.sample({'oracle': 'single_trainer_domain', 'trainer': trainer, 'data': kind, 'shape': list(y.shape), 'saliency': skind,
                        'opt': {k: str(v) for k, v in opt.items()}, 'held': ok})
    # (2) mixture weights: all tying options, hard / clipped affiliations
    for i in range(ctx.n(800, 8000)):
        if ctx.out_of_time():
            break
        F, K, N = int(rng.integers(1, 4)), int(rng.integers(1, 5)), int(rng.integers(1, 7))
        aff = tu.gen_affiliation(rng, F, K, N, hard=rng.random() < 0.4)
        eps = float(rng.choice([0.0, 1e-10, 1e-3]))
        if eps:
            aff = np.clip(aff, eps, 1 - eps)
        sal, skind = tu.gen_saliency(rng, (F, N))
        if rng.random() < 0.7:
            wca = [-1, (-1,), -3, (-3,), (-3, -1), -2, 1, 2, 0, (0, 2), (-2,), (-3, -2, -1), (1,), (1, 2), (0, 1, 2), (0, 1), (-3, 1)][int(rng.integers(17))]
        else:
            aff = aff[0]
            sal = None if sal is None else sal[0]
            wca = [-1, (-1,), -2, 0, 1, (-2,), (0,), (0, 1), (1,)][int(rng.integers(9))]
        ctx.count(f'weight-wca:{wca}-sal:{skind}')
        ctx.run(mixture_weight_domain, affiliation=aff, saliency=sal,
                weight_constant_axis=list(wca) if isinstance(wca, tuple) else wca, eps=eps)
    # (3) all seven mixture trainers: degenerate data, hard one-hot starts, all options
    for i in range(ctx.n(1400, 14000)):
        if ctx.out_of_time():
            break
        model = tu.MODELS[i % 7]
        case, kind, hard = gen_degenerate_mixture(rng, model, ctx.tier)
        ctx.count(f'mixture-{model}-{kind}-{"hard" if hard else "soft"}')
        ok = ctx.run(mixture_domain, **case)
        if i < 2:
            ctx.sample({'oracle': 'mixture_domain', 'model': model, 'data': kind, 'hard_start': hard, 'y_shape': list(case['y'].shape),
                        'iterations': case['iterations'], 'opt': {k: str(v) for k, v in case['opt'].items()}, 'held': ok})


def corr(ctx):
    tu.corr_trainers(ctx, degenerate=True)

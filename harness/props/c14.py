"""C14 - permutation alignment only reorders classes."""
import itertools

import numpy as np

from .. import gen, pyref
from ..core import Fail, Skip, oracle
from ..lean import fbits, parse_ints, parse_floats, run_driver

ID = 'C14'
DRIVERS = ('driver',)
THEOREMS = [
    'PbBss.C14.greedy_assignment_bijective',
    'PbBss.C14.optimal_assignment_bijective',
    'PbBss.C14.assign_bijective',
    'PbBss.C14.applyMapping_spec',
    'PbBss.C14.applyMapping_class_sum',
    'PbBss.C14.applyMapping_rows_perm',
    'PbBss.C14.greedyAligner_bijective',
    'PbBss.C14.oracleAligner_bijective',
    'PbBss.C14.dhtv_bijective',
    'PbBss.C14.dhtv_features_eq_applyMapping',
    'PbBss.C14.inline_same_mapping',
    'PbBss.C14.inlinePa_not_worse',
    'PbBss.C14.inlinePa_is_permutation',
]
ASSUMPTIONS = [
    'score entries are finite floats (the code rejects non-finite matrices); integer matrices containing iinfo.min and '
    'float matrices whose permutation sums overflow are outside the theorems (DESIGN.md section 5, finding 11)',
    'DHTV/greedy/oracle correspondence on real masks is exact except for arg-max ties within 1e-9 relative margin '
    '(counted as ties-within-rounding)',
]

from pb_bss import permutation_alignment as pa  # noqa: E402
from pb_bss.distribution import mixture_model_utils as mmu  # noqa: E402

METRICS = ['cos', 'multiply', 'euclidean']
ALGOS = ['greedy', 'optimal']


# ----------------------------------------------------------------------------- correspondence
def _assign_lines(mats, algo):
    return [f'assign {algo} {m.shape[0]} {fbits(m)}' for m in mats]


def corr(ctx):
    rng = ctx.rng
    # (1) exhaustive: all score matrices over {0,1,2}, K <= 3, both algorithms  -- exact comparison
    mats = []
    for K in (1, 2, 3):
        for vals in itertools.product((0.0, 1.0, 2.0), repeat=K * K):
            mats.append(np.array(vals).reshape(K, K))
    # (2) random doubles, ties, batches
    n = ctx.n(500, 20000)
    for i in range(n):
        K = int(rng.integers(1, 7))
        kind = rng.choice(['normal', 'small-int', 'dup-rows', 'huge'])
        if kind == 'normal':
            m = rng.normal(size=(K, K))
        elif kind == 'small-int':
            m = rng.integers(-2, 3, size=(K, K)).astype(float)
        elif kind == 'dup-rows':
            m = rng.normal(size=(K, K))
            m[-1] = m[0]
        else:
            m = rng.normal(size=(K, K)) * 1e300
        mats.append(m)
        ctx.count('corr-assign-K%d' % K)
    for algo in ALGOS:
        sel = mats if algo == 'greedy' else [m for m in mats if m.shape[0] <= 5 and np.all(np.abs(m) < 1e200)]
        out = run_driver(_assign_lines(sel, algo))
        for m, o in zip(sel, out):
            try:
                want = pa._mapping_from_score_matrix(m, algo)
            except Exception as e:  # noqa
                want = None
            got = parse_ints(o)
            ok = want is not None and np.array_equal(got, want)
            ctx.corr(f'_mapping_from_score_matrix[{algo}]', ok, f'score={m.tolist()} code={want} model={got.tolist()}',
                     {'score': m, 'algorithm': algo})
    ctx.sample({'op': 'assign', 'score': mats[-1].tolist()})
    # (3) aligners: integer / dyadic masks exactly, real masks with the tie-margin rule
    lines, metas = [], []
    n = ctx.n(100, 2000)
    for i in range(n):
        K = int(rng.integers(1, 6))
        F = gen.odd(rng, 1, 21 if ctx.tier == 'quick' else 61)
        T = int(rng.integers(1, 9))
        mask, kind = gen.real_mask(rng, K, F, T)
        metric = str(rng.choice(METRICS))
        algo = str(rng.choice(ALGOS)) if K <= 4 else 'greedy'
        which = rng.choice(['galign', 'oracle', 'dhtv'])
        if which == 'galign':
            lines.append(f'galign {metric} {K} {F} {T} {fbits(mask)}')
            metas.append(('galign', mask, metric, algo, None))
        elif which == 'oracle':
            ref, _ = gen.real_mask(rng, K, F, T)
            lines.append(f'oracle {metric} {algo} {K} {F} {T} {fbits(mask)} {fbits(ref)}')
            metas.append(('oracle', mask, metric, algo, ref))
        else:
            cfg = gen.dhtv_cfg(rng, F)
            obj = pa.DHTVPermutationAlignment(**cfg, similarity_metric=metric, algorithm=algo)
            plan = obj.alignment_plan
            flat = ' '.join(f'{a} {b} {c}' for a, b, c in plan)
            lines.append(f'dhtv {metric} {algo} {K} {F} {T} {len(plan)} {flat} {fbits(mask)}')
            metas.append(('dhtv', mask, metric, algo, (cfg, plan)))
        ctx.count(f'corr-{which}-{kind}')
    out = run_driver(lines)
    for (which, mask, metric, algo, aux), o in zip(metas, out):
        K, F, T = mask.shape
        if which == 'galign':
            want = pa.GreedyPermutationAlignment(metric, algo).calculate_mapping(mask)
            _, margin = pyref.ref_greedy_aligner(mask, metric)
            got = parse_ints(o).reshape(K, F)
        elif which == 'oracle':
            want = pa.OraclePermutationAlignment(metric, algo).calculate_mapping(mask, aux)
            _, margin = pyref.ref_oracle_aligner(mask, aux, metric, algo)
            got = parse_ints(o).reshape(K, F)
        else:
            cfg, plan = aux
            want = pa.DHTVPermutationAlignment(**cfg, similarity_metric=metric, algorithm=algo).calculate_mapping(mask)
            _, _, margin = pyref.ref_dhtv(mask, plan, metric, algo)
            got = parse_ints(o.split('|')[0]).reshape(K, F)
        if np.array_equal(got, want):
            ctx.corr(which, True)
        elif margin < 1e-9:
            ctx.count(f'tie-within-rounding:{which}')
        else:
            ctx.corr(which, False, f'{which} metric={metric} algo={algo} shape={mask.shape} margin={margin:.3g} '
                     f'code={want.tolist()} model={got.tolist()}', {'mask': mask, 'metric': metric, 'algo': algo})
    # (4) built-in spatial/spectral alignment of the integration models, per bin, floats to 1e-9
    lines, wants = [], []
    for _ in range(ctx.n(60, 1000)):
        K = int(rng.integers(1, 5))
        T = int(rng.integers(1, 7))
        F = int(rng.integers(1, 4))
        scale = float(rng.choice([0.5, 3.0, 30.0]))
        sp, sc = rng.normal(size=(F, K, T)) * scale, rng.normal(size=(F, K, T)) * scale
        w = rng.random((F, K, T)) + 0.05
        w /= w.sum(1, keepdims=True)
        want = mmu.log_pdf_to_affiliation_for_integration_models_with_inline_pa(w, sp.copy(order='K'), sc.copy(order='K'))
        for f in range(F):
            lines.append(f'inlinepa {K} {T} {fbits(w[f])} {fbits(sp[f])} {fbits(sc[f])}')
            wants.append((want[f], sp[f], sc[f]))
    for (want, sp, sc), o in zip(wants, run_driver(lines)):
        got = parse_floats(o).reshape(want.shape)
        if np.allclose(got, want, rtol=1e-9, atol=1e-300):
            ctx.corr('inline_pa', True)
        else:
            # a different permutation is chosen only if two criterion values tie within rounding
            vals = sorted(_aux(sp[list(p)] + sc)[0] for p in itertools.permutations(range(len(sp))))
            if len(vals) > 1 and abs(vals[-1] - vals[-2]) < 1e-9 * (1 + abs(vals[-1])):
                ctx.count('tie-within-rounding:inline_pa')
            else:
                ctx.corr('inline_pa', False, f'code={want.tolist()} model={got.tolist()}', {'spatial': sp, 'spectral': sc})
    if metas:
        ctx.sample({'op': metas[-1][0], 'metric': metas[-1][2], 'algo': metas[-1][3], 'mask_shape': list(metas[-1][1].shape)})


# ----------------------------------------------------------------------------- oracles on the real code
@oracle
def assignment_is_permutation(score, algorithm):
    m = pa._mapping_from_score_matrix(score, algorithm)
    K = np.asarray(score).shape[-1]
    if not pyref.is_perm_columns(m, K):
        return Fail('not-a-permutation', f'_mapping_from_score_matrix({algorithm}) returned {np.asarray(m).tolist()}')


@oracle
def int_matrix_containing_sentinel(score, algorithm):
    """integer score matrices whose entries may equal iinfo.min, the value the code itself writes as -inf"""
    m = pa._mapping_from_score_matrix(score, algorithm)
    if not pyref.is_perm_columns(m, np.asarray(score).shape[-1]):
        return Fail('int-min-sentinel', f'int matrix with iinfo.min entries -> {np.asarray(m).tolist()}')


def _aligner(kind, metric, algorithm, cfg):
    if kind == 'greedy':
        return pa.GreedyPermutationAlignment(metric, algorithm)
    if kind == 'oracle':
        return pa.OraclePermutationAlignment(metric, algorithm)
    return pa.DHTVPermutationAlignment(**cfg, similarity_metric=metric, algorithm=algorithm)


@oracle
def aligner_only_reorders(kind, metric, algorithm, cfg, mask, ref):
    al = _aligner(kind, metric, algorithm, cfg)
    mask0 = mask.copy(order='K')
    args = (mask,) if kind != 'oracle' else (mask, ref)
    mapping = al.calculate_mapping(*args)
    K, F, T = mask.shape
    if np.asarray(mapping).shape != (K, F):
        return Fail('mapping-shape', f'mapping shape {np.asarray(mapping).shape} != {(K, F)}')
    if not pyref.is_perm_columns(mapping, K):
        bad = [f for f in range(F) if sorted(mapping[:, f]) != list(range(K))]
        return Fail('mapping-not-permutation', f'{kind}/{metric}/{algorithm}: bins {bad[:5]} are not permutations: '
                    f'{mapping[:, bad[0]].tolist()}')
    aligned = al.apply_mapping(mask0, mapping)
    called = al(mask0.copy(order='K'), *args[1:])
    for f in range(F):
        for k in range(K):
            if not np.array_equal(aligned[k, f], mask0[mapping[k, f], f]):
                return Fail('apply-mapping-wrong-row', f'aligned[{k},{f}] != mask[mapping[{k},{f}]={mapping[k, f]},{f}]')
    if not np.array_equal(called, aligned):
        return Fail('call-differs', '__call__(mask) != apply_mapping(mask, calculate_mapping(mask))')
    if not np.array_equal(np.sort(aligned, axis=0), np.sort(mask0, axis=0)):
        return Fail('multiset-changed', 'per-bin multiset of rows changed')
    if not np.allclose(aligned.sum(0), mask0.sum(0), rtol=1e-12, atol=1e-300):
        return Fail('class-sum-changed', 'sum over the class axis changed')


@oracle
def inline_alignment_permutes_both(affiliation, quadratic_form, kind, metric, cfg):
    al = _aligner(kind, metric, 'greedy', cfg)
    a2, q2 = mmu.apply_inline_permutation_alignment(
        affiliation.copy(order='K'), quadratic_form=quadratic_form.copy(order='K'), weight_constant_axis=(-3,), aligner=al)
    F, K, T = affiliation.shape
    for f in range(F):
        found = None
        for p in itertools.permutations(range(K)):
            if np.array_equal(a2[f], affiliation[f, list(p)]):
                found = p
                if np.array_equal(q2[f], quadratic_form[f, list(p)]):
                    break
                found = 'aff-only'
        if found is None:
            return Fail('affiliation-not-permuted', f'bin {f}: aligned affiliation is not a row permutation of the input')
        if found == 'aff-only':
            return Fail('quadratic-form-other-mapping', f'bin {f}: quadratic form not permuted by the affiliation mapping')
    a3 = mmu.apply_inline_permutation_alignment(
        affiliation.copy(order='K'), quadratic_form=None, weight_constant_axis=(-3,), aligner=al)
    if not np.array_equal(a3, a2):
        return Fail('with-without-quadratic-form', 'alignment result depends on whether a quadratic form is passed')


def _aux(lp):
    a = lp - lp.max(axis=-2, keepdims=True)
    a = np.exp(a)
    a = a / np.maximum(a.sum(-2, keepdims=True), np.finfo(float).tiny)
    return float(np.sum(a * lp)), a


@oracle
def integration_inline_pa_not_worse(weight, spatial, spectral):
    got = mmu.log_pdf_to_affiliation_for_integration_models_with_inline_pa(weight, spatial.copy(order='K'), spectral.copy(order='K'))
    F, K, T = spatial.shape
    for f in range(F):
        aux_id, _ = _aux(spatial[f] + spectral[f])
        cands = []
        for p in itertools.permutations(range(K)):
            lp = spatial[f, list(p)] + spectral[f]
            want = mmu.log_pdf_to_affiliation(np.broadcast_to(weight, spatial.shape)[f], lp)
            if np.allclose(got[f], want, rtol=1e-10, atol=1e-300):
                cands.append((p, _aux(lp)[0]))
        if not cands:
            return Fail('no-permutation-explains', f'bin {f}: result is not the posterior of any class permutation of the spatial stream')
        best = max(c[1] for c in cands)
        if best < aux_id - 1e-9 * (1 + abs(aux_id)):
            return Fail('worse-than-identity', f'bin {f}: chosen permutation has criterion {best} < identity {aux_id}')
    s = got.sum(1)
    if not np.allclose(s, 1, atol=1e-10):
        return Fail('not-normalised', 'posterior of the integration alignment does not sum to one')


def search(ctx):
    rng = ctx.rng
    # exhaustive over {0,1,2}, K <= 3
    for K in (1, 2, 3):
        for vals in itertools.product((0, 1, 2), repeat=K * K):
            s = np.array(vals, dtype=np.float64).reshape(K, K)
            for algo in ALGOS:
                ctx.run(assignment_is_permutation, score=s, algorithm=algo)
    ctx.count('exhaustive-{0,1,2}-K<=3', 19683 + 81 + 3)
    n = ctx.n(200, 4000)
    for i in range(n):
        if ctx.out_of_time():
            break
        K = int(rng.integers(1, 7))
        F = gen.odd(rng, 1, 15 if ctx.tier == 'quick' else 41)
        T = int(rng.integers(1, 10))
        mask, mkind = gen.real_mask(rng, K, F, T)
        kind = str(rng.choice(['greedy', 'oracle', 'dhtv']))
        metric = str(rng.choice(METRICS))
        algo = str(rng.choice(ALGOS)) if K <= 5 else 'greedy'
        cfg = gen.dhtv_cfg(rng, F) if kind == 'dhtv' else None
        ref = gen.real_mask(rng, K, F, T)[0] if kind == 'oracle' else None
        ctx.count(f'search-{kind}-{mkind}')
        ok = ctx.run(aligner_only_reorders, kind=kind, metric=metric, algorithm=algo, cfg=cfg, mask=mask, ref=ref)
        if i == 0:
            ctx.sample({'oracle': 'aligner_only_reorders', 'kind': kind, 'metric': metric, 'algorithm': algo,
                        'cfg': cfg, 'mask_shape': [K, F, T], 'mask_kind': mkind, 'held': ok})
        # batched score matrices (integer dtype path excluded: DESIGN 5c)
        s = rng.normal(size=(int(rng.integers(1, 4)), K, K))
        if rng.random() < 0.3:
            s = np.round(s)
        ctx.run(assignment_is_permutation, score=s, algorithm=algo if K <= 5 else 'greedy')
        # finite matrices of large magnitude / other float widths ("every finite score matrix"): scores of un-normalised
        # masks (multiply metric) reach 1e8 and more; a stand-in for -inf derived from the data (min - 1) collides there
        scale = float(rng.choice([2.0 ** 60, 1e16, 1e300, 1e-300, 3e4]))
        dt = np.float32 if (rng.random() < 0.3 and 1e-30 < scale < 1e30) else np.float64
        big = (np.round(rng.normal(size=(K, K)) * 4) * scale).astype(dt)
        ctx.count(f'search-score-magnitude:{scale:.0e}:{np.dtype(dt).name}')
        ctx.run(assignment_is_permutation, score=big, algorithm='greedy')
        if K <= 5 and scale < 1e299:        # 'optimal' sums K entries: keep the totals finite
            ctx.run(assignment_is_permutation, score=big, algorithm='optimal')
    # integer dtype path: ordinary integer matrices must behave like floats; entries equal to iinfo.min collide with
    # the code's own "-inf" stand-in (DESIGN.md section 5, candidate 11)
    for _ in range(ctx.n(60, 600)):
        K = int(rng.integers(1, 5))
        si = rng.integers(-5, 6, size=(K, K)).astype(np.int64)
        ctx.run(assignment_is_permutation, score=si, algorithm='greedy')
    lo = np.iinfo(np.int64).min
    for K in (2, 3):
        ctx.run(int_matrix_containing_sentinel, score=np.full((K, K), lo, dtype=np.int64), algorithm='greedy')
    for i in range(ctx.n(40, 600)):
        if ctx.out_of_time():
            break
        K = int(rng.integers(1, 5))
        F = gen.odd(rng, 1, 11)
        T = int(rng.integers(1, 8))
        aff = rng.random((F, K, T)) + 1e-3
        aff /= aff.sum(1, keepdims=True)
        q = rng.random((F, K, T)) + 0.1
        kind = str(rng.choice(['greedy', 'dhtv']))
        cfg = gen.dhtv_cfg(rng, F) if kind == 'dhtv' else None
        ctx.run(inline_alignment_permutes_both, affiliation=aff, quadratic_form=q, kind=kind,
                metric=str(rng.choice(METRICS)), cfg=cfg)
        w = rng.random((K, 1)) + 0.1
        w /= w.sum()
        spatial, spectral = rng.normal(size=(F, K, T)) * 3, rng.normal(size=(F, K, T)) * 3
        if T >= 2 and rng.random() < 0.35:
            # a wide dynamic range between the frames of a bin: some frames lie thousands of nats below the others (an
            # outlier frame, a pause) and have their own opinion on the class order
            for f in range(F):
                t = rng.choice(T, int(rng.integers(1, max(2, T // 2 + 1))), replace=False)
                level = -10.0 ** rng.uniform(2.9, 4)
                spatial[f][:, t] = level + rng.normal(size=(K, len(t))) * 30
            ctx.count('integration-pa-outlier-frames')
        ctx.run(integration_inline_pa_not_worse, weight=w, spatial=spatial, spectral=spectral)

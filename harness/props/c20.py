"""C20 - calls are pure, reproducible and history-free."""
import os
import time

import numpy as np

from .. import purity_util as P
from ..core import Fail, Skip, oracle, VERIF, REPO
from ..lean import run_driver

ID = 'C20'
DRIVERS = ('driver_effects',)
THEOREMS = [
    'Eff.checkCert_sound',
    'Eff.may_sound',
    'Eff.writes_sound',
    'PbBss.C20.checkCert_sound',
    'PbBss.C20.summary_sound',
    'PbBss.C20.allEntryPointsPure',
    'PbBss.C20.pure_of_cert',
    'PbBss.C20.summaries_consistent',
    'PbBss.C20.exceptions_listed',
    'PbBss.C20.entryPoints_cover',
    'PbBss.C20.reachable_cache_inv',
    'PbBss.C20.reuse_eq_fresh',
    'PbBss.C20.rejects_other_dimension',
    'PbBss.C20.table_used_is_for_dimension',
    'PbBss.C20.dimension_bound_after_accept',
    'PbBss.C20.fit_split',
    'PbBss.C20.fit_split_loop',
    'PbBss.C20.fit_composition',
    'PbBss.C20.fit_composition_from_model',
    'PbBss.C20.fit_deterministic',
]
ASSUMPTIONS = [
    'the AST -> effect-IR translator (harness/translate/effects.py) over-approximates the writes and aliases of the Python '
    'source; its table of NumPy/SciPy/sklearn primitives (fresh / view / in-place) is trusted and probed per run with '
    'np.shares_memory; every entry point is additionally called with read-only arguments and byte-compared',
    'bit-wise comparisons run single-threaded (OMP/OPENBLAS/MKL_NUM_THREADS=1); thread-level BLAS non-determinism is '
    'outside the model',
    'reproducibility is relative to the legacy global NumPy RNG (np.random.seed), the only randomness source of the code',
]


def pre_build(ctx):
    """regenerate lean/PbBss/Generated/Effects.lean from the CURRENT working tree of the repo (before the audit)"""
    from ..translate import effects
    info = effects.generate(REPO, os.path.join(VERIF, 'lean', 'PbBss', 'Generated', 'Effects.lean'))
    ctx.note(f'translator: {info["functions"]} functions, {info["statements"]} IR statements, '
             f'flagged {info["flagged"]}')
    return ('PbBss.Generated.Effects',)


# ----------------------------------------------------------------------------- (a) inputs untouched, read-only accepted
def _top(path):
    return path.split('.')[0].split('[')[0]


def _readonly_args(name, args):
    e = P.REG[name]
    exempt = e.exempt(args) if e.exempt else set()
    a = P.clone(args, readonly=True)
    for k in exempt:
        a[k] = P.clone(args[k], readonly=False)
    return a, exempt


@oracle
def inputs_untouched(entry, args):
    e = P.REG[entry]
    snap = P.snapshot(args)
    exempt = e.exempt(args) if e.exempt else set()
    # 1. writable buffers: which bytes change?
    res, ex, a1 = P.invoke(entry, args)
    ch = [p for p in P.changed(snap, a1) if _top(p) not in exempt and not p.startswith('_')]
    if ch:
        return Fail(f'{entry}:modifies-argument', f'{entry}[{args.get("_variant")}] changed the bytes of argument(s) {ch}')
    # 2. read-only buffers: accepted, identical afterwards
    a2, _ = _readonly_args(entry, args)
    np.random.seed(int(args.get('_seed', 0)) % (2 ** 32))
    try:
        e.call(a2)
        ex2 = None
    except Exception as x:  # noqa
        ex2 = x
    if ex is not None:
        if ex2 is not None and type(ex2) is type(ex):
            return Skip(f'call raises {type(ex).__name__} independently of read-only-ness: {entry}')
        return Fail(f'{entry}:raises-differently', f'writable: {ex!r}; read-only: {ex2!r}')
    if ex2 is not None:
        return Fail(f'{entry}:rejects-read-only', f'{entry}[{args.get("_variant")}] raised {type(ex2).__name__}: {ex2} '
                    f'for read-only arguments but not for writable ones')
    ch = [p for p in P.changed(snap, a2) if _top(p) not in exempt and not p.startswith('_')]
    if ch:
        return Fail(f'{entry}:modifies-read-only-argument', f'{entry} changed read-only argument(s) {ch}')


# ----------------------------------------------------------------------------- (b) repeated call bit-identical
@oracle
def call_reproducible(entry, args, other):
    r1, ex1, _ = P.invoke(entry, args)
    if ex1 is not None:
        return Skip(f'call raises {type(ex1).__name__}: {entry}')
    if other is not None:
        P.invoke(entry, other)          # an unrelated call in between (history)
    r2, ex2, _ = P.invoke(entry, args)
    if ex2 is not None:
        return Fail(f'{entry}:second-call-raises', f'{entry}: second identical call raised {ex2!r}')
    d = P.first_difference(r1, r2)
    if d:
        return Fail(f'{entry}:not-reproducible', f'{entry}[{args.get("_variant")}]: repeated call (same arguments, '
                    f're-seeded) differs {d}')


# ----------------------------------------------------------------------------- (c) reused trainer == fresh trainer
def _table(kind, inner):
    if inner is None:
        return None
    if kind in ('CWMMTrainer', 'ComplexWatsonTrainer'):
        s = vars(inner).get('spline')
        return None if s is None else (np.asarray(s.x).tobytes(), np.asarray(s.y).tobytes())
    return None


def run_history(kind, ctor, specs):
    """-> list of per-step dicts: status, expected, diff-vs-fresh, dimension, cachedFor, table_ok"""
    cls = P.TRAINERS[kind]
    trainer = cls(**ctor)
    dim = ctor.get('dimension')
    out = []
    for spec in specs:
        if spec.get('interloper_ctor') is not None:
            # a fit by ANOTHER trainer object of the same class (other constructor options) in the same process: whatever it
            # leaves behind at module or class level must not reach the trainers under test
            P.trainer_fit(cls(**spec['interloper_ctor']), kind, spec)
            continue
        d = int(spec['y'].shape[-1])
        expected = 'reject' if (dim is not None and d != dim) else 'ok'
        status, res = P.trainer_fit(trainer, kind, spec)
        fresh = cls(**ctor)
        fstatus, fres = P.trainer_fit(fresh, kind, spec)
        step = {'d': d, 'status': status, 'expected': expected, 'fresh_status': fstatus, 'diff': None}
        if status == 'ok' and fstatus == 'ok':
            step['diff'] = P.first_difference(res, fres)
        if status == 'error':
            step['error'] = repr(res)
        if dim is None and status != 'reject' and trainer.dimension is not None:
            dim = trainer.dimension
        step['dimension'], step['cached_for'], inner = P.trainer_state(trainer, kind)
        t, ft = _table(kind, inner), None
        if t is not None:
            ref = cls(**dict(ctor, dimension=step['dimension']))     # table a fresh trainer of that dimension builds
            if kind == 'ComplexWatsonTrainer':
                _ = ref.spline
                ft = _table(kind, ref)
            else:
                _ = ref.complex_watson_trainer.spline
                ft = _table(kind, ref.complex_watson_trainer)
        step['table_ok'] = (t == ft) if t is not None else True
        out.append(step)
    return out


@oracle
def reused_trainer_equals_fresh(kind, ctor, history, final):
    steps = run_history(kind, ctor, list(history) + [final])
    for i, s in enumerate(steps):
        where = 'final fit' if i == len(steps) - 1 else f'history fit {i}'
        if s['status'] == 'error':
            if s['fresh_status'] == 'error':
                return Skip(f'fit raises also on a fresh trainer ({kind})')
            return Fail(f'{kind}:reused-raises', f'{where} raised {s["error"]} on the reused trainer only')
        if s['expected'] == 'reject' and s['status'] != 'reject':
            return Fail(f'{kind}:accepts-other-dimension', f'{where}: feature dimension {s["d"]} accepted by a trainer '
                        f'bound to dimension {s["dimension"]} (cached table for {s["cached_for"]})')
        if s['expected'] == 'ok' and s['status'] == 'reject':
            return Fail(f'{kind}:rejects-own-dimension', f'{where}: dimension {s["d"]} rejected although the trainer is '
                        f'bound to it / unbound')
        if s['status'] == 'ok' and s['fresh_status'] != 'ok':
            return Fail(f'{kind}:fresh-differs', f'{where}: fresh trainer {s["fresh_status"]}, reused ok')
        if s['diff']:
            return Fail(f'{kind}:reused-differs-from-fresh', f'{where} (after {i} earlier fits): {s["diff"]}')
        if s['cached_for'] is not None and s['cached_for'] != s['dimension']:
            return Fail(f'{kind}:cached-table-for-other-dimension', f'{where}: cached table built for '
                        f'{s["cached_for"]}, trainer dimension {s["dimension"]}')
        if not s['table_ok']:
            return Fail(f'{kind}:cached-table-differs', f'{where}: cached spline table differs from a fresh one')


# ----------------------------------------------------------------------------- (d) split fits
def _init_of(args):
    if 'model' in args:
        return P.cacgmm_from_args(P.clone(args['model']))
    if 'initialization' in args:
        return args['initialization']
    return {'num_classes': args['num_classes']}


@oracle
def split_fits_equal_uninterrupted(args, n):
    """every composition n1+...+nj of every m <= n (shared-prefix enumeration: each node of the composition tree is one
    real `fit(initialization=previous model, iterations=n_j)` call, compared bit-wise with the uninterrupted fit)"""
    init = _init_of(args)
    full = [None] + [P.flatten(P.cacgmm_fit_from(args, init, m)) for m in range(1, n + 1)]
    stack = [(init, 0, ())]
    while stack:
        model, total, comp = stack.pop()
        for k in range(1, n - total + 1):
            m2 = P.cacgmm_fit_from(args, model, k)
            if P.flatten(m2) != full[total + k]:
                return Fail('split-differs', f'CACGMMTrainer.fit[{args.get("_variant")}]: consecutive fits {comp + (k,)} '
                            f'differ from one fit of {total + k} iterations: '
                            f'{P.first_difference(m2, P.cacgmm_fit_from(args, init, total + k))}', composition=list(comp + (k,)))
            if total + k < n:
                stack.append((m2, total + k, comp + (k,)))


@oracle
def split_composition(args, composition):
    init = _init_of(args)
    n = int(sum(composition))
    full = P.cacgmm_fit_from(args, init, n)
    model = init
    for k in composition:
        model = P.cacgmm_fit_from(args, model, int(k))
    d = P.first_difference(model, full)
    if d:
        return Fail('split-differs', f'CACGMMTrainer.fit[{args.get("_variant")}]: consecutive fits {list(composition)} '
                    f'differ from one fit of {n} iterations: {d}')


# ----------------------------------------------------------------------------- correspondence
_ANALYSIS = {}


def _analysis():
    if 'res' not in _ANALYSIS:
        from ..translate import effects
        _ANALYSIS['res'] = effects.analyse_repo(REPO)
    return _ANALYSIS['res']


def _cert_line(ir, stmts=None):
    stmts = ir['stmts'] if stmts is None else stmts
    toks = ['cert', len(ir['params'])] + list(ir['params']) + [len(stmts)]
    for st in stmts:
        if st[0] == 'alloc':
            toks += [0, st[1]]
        elif st[0] == 'alias':
            toks += [1, st[1], len(st[2])] + list(st[2])
        else:
            toks += [2, st[1]]
    toks.append(len(ir['may']))
    for v, ps in ir['may']:
        toks += [v, len(ps)] + list(ps)
    return ' '.join(str(t) for t in toks)


def _corr_certificates(ctx):
    """(1) verdict of the python-side analysis == verdict of the Lean checker (compiled `Eff.checkCert`) per function;
    injected writes on parameter-aliased variables must be rejected by the Lean checker"""
    from ..translate import effects
    res = _analysis()
    rng = ctx.rng
    lines, metas = [], []
    for q, rec in sorted(res['functions'].items()):
        ir = effects.to_ir(rec)
        lines.append(_cert_line(ir))
        metas.append((q, 'as-generated', not rec['mutates'], sorted(ir['mutates'])))
        aliased = [v for v, ps in ir['may'] if ps]
        if aliased:
            v = aliased[int(rng.integers(len(aliased)))]
            lines.append(_cert_line(ir, ir['stmts'] + [('write', v)]))
            want = sorted(set(ir['mutates']) | set(dict(ir['may'])[v]))
            metas.append((q, 'injected-write', False, want))
    out = run_driver(lines, exe='driver_effects')
    for (q, kind, pure, muts), o in zip(metas, out):
        t = [int(x) for x in o.split()]
        ok = (t[0] == int(pure)) and t[1] == 1 and sorted(t[3:]) == muts
        ctx.corr(f'checkCert[{kind}]', ok, f'{q}: python verdict pure={pure} mutates={muts}; lean checkCert={t[0]} '
                 f'checkAlias={t[1]} writesTo={t[3:]}', {'function': q})
    ctx.count('translator-functions', len(res['functions']))
    notes = sorted({n for r in res['functions'].values() for n in r['notes']})
    if notes:
        ctx.note('translator assumptions used: ' + '; '.join(notes))
    ctx.sample({'op': 'checkCert', 'function': metas[0][0], 'line': lines[0][:120]})


def _corr_static_vs_dynamic(ctx):
    """(1b) the translator's verdict against an actual call: bytes changed => the static analysis must have said so"""
    res = _analysis()
    rng = ctx.rng
    for name in sorted(P.REG):
        e = P.REG[name]
        q = name.split('[')[0]
        rec = res['functions'].get(q)
        if rec is None:
            ctx.count('static-vs-dynamic:no-static-counterpart')
            continue
        for v in e.variants[:3]:
            args = P.make_args(name, rng, v)
            snap = P.snapshot(args)
            _, ex, a1 = P.invoke(name, args)
            dyn = sorted({_top(p) for p in P.changed(snap, a1) if not p.startswith('_')})
            static_mut = set(rec['mutates'])
            if dyn and not static_mut:
                ctx.corr('static-vs-dynamic', False, f'{name}[{v}]: call changed argument(s) {dyn} but the translator '
                         f'reports no write reaching a parameter', {'entry': name, 'args': args})
            else:
                ctx.corr('static-vs-dynamic', True)
                if static_mut and not dyn:
                    ctx.count('static-overapproximation:' + q)


def _probe_calls(fn, a, b):
    for args in ((a,), (a, b), (a, -1), (a, 0), ((a, b),), (a, 1, -1), (a, 0, 1), (a.shape,), (3,), (a, a.shape), (a, 2),
                 (a, [0], -1), (a, np.argsort(a, -1), -1), (0., 1., 5), (a, 50.), (5, a.shape), (a, 0., 1.), (a > 0, a, b)):
        try:
            return args, fn(*args)
        except Exception:  # noqa
            continue
    return None, None


def _corr_primitive_table(ctx):
    """(1c) the translator's NumPy table: functions classified FRESH must not return memory shared with an argument and
    must not modify it; the einsum view rule; in-place primitives do modify (sanity)"""
    from ..translate import effects
    res = _analysis()
    w = res['world']
    rng = ctx.rng
    base = rng.normal(size=(3, 3)) + 3 * np.eye(3)
    for name in sorted(w.np_used):
        if name not in effects.NP_FRESH or name in ('errstate', 'linalg.LinAlgError', 'finfo', 'iinfo'):
            continue
        fn = np
        try:
            for part in name.split('.'):
                fn = getattr(fn, part)
        except AttributeError:
            ctx.count('primitive-missing-in-this-numpy:' + name)
            continue
        done = False
        for a in (base.copy(order='K'), (base + 1j * base.T).copy(order='K')):
            b = a.T.copy(order='K')
            a0, b0 = a.copy(order='K'), b.copy(order='K')
            args, r = _probe_calls(fn, a, b)
            if args is None:
                continue
            done = True
            leaves = [x for _, x in P.arrays({'r': list(r) if isinstance(r, tuple) else r})]
            shares = any(np.shares_memory(x, y) for x in leaves for y in (a, b))
            unchanged = np.array_equal(a, a0) and np.array_equal(b, b0)
            ctx.corr('primitive-table[fresh]', (not shares) and unchanged,
                     f'np.{name}: shares memory with an argument={shares}, arguments unchanged={unchanged}')
        if not done:
            ctx.count('primitive-not-probed:' + name)
    a = base.copy(order='K')
    for m in sorted(w.nd_used):
        if not hasattr(a, m):
            continue
        try:
            r = getattr(a, m)() if m != 'astype' else a.astype(np.complex128)
        except Exception:  # noqa
            continue
        shares = isinstance(r, np.ndarray) and np.shares_memory(r, a)
        ctx.corr('primitive-table[fresh-method]', not shares and np.array_equal(a, base), f'ndarray.{m}: shares={shares}')
    # einsum: single operand, no summed letter -> may be a view; summed letter or several operands -> fresh
    for spec, view in (('...nd->...dn', True), ('...dd', False), ('...nd->...d', False), ('ij', True), ('ii', False)):
        r = np.einsum(spec, a)
        shares = isinstance(r, np.ndarray) and np.shares_memory(r, a)
        ctx.corr('primitive-table[einsum]', (not shares) or view, f'einsum({spec!r}) shares={shares}, table says view={view}')
    r = np.einsum('ij,jk->ik', a, a)
    ctx.corr('primitive-table[einsum]', not np.shares_memory(r, a), 'einsum with two operands must be fresh')
    ctx.corr('primitive-table[array]', not np.shares_memory(np.array(a), a) and not np.shares_memory(np.array(a, copy=True), a),
             'np.array(x) copies')
    for name in ('fill_diagonal',):
        x = a.copy(order='K')
        np.fill_diagonal(x, 7.)
        ctx.corr('primitive-table[inplace]', not np.array_equal(x, a), 'np.fill_diagonal modifies its first argument')


def _corr_trainer_sm(ctx):
    """(2) op sequences on the real trainers vs the Lean state machine: accept / reject, table used, final state"""
    rng = ctx.rng
    lines, metas = [], []
    for i in range(ctx.n(150, 1500)):
        kind = P.pick(rng, ['CWMMTrainer', 'CBMMTrainer', 'ComplexWatsonTrainer', 'ComplexBinghamTrainer'])
        dmax = 3 if kind in ('CBMMTrainer', 'ComplexBinghamTrainer') else 4
        c = int(rng.integers(2, dmax + 1)) if rng.random() < 0.3 else None
        n = int(rng.integers(0, 7))
        main = int(rng.integers(2, dmax + 1))
        ops = []
        for j in range(n):
            d = main if rng.random() < 0.7 else int(rng.integers(2, dmax + 2))
            u = 1
            if kind in ('CWMMTrainer', 'CBMMTrainer') and rng.random() < 0.2:
                u = 0
            ops.append((d, u))
        cls = P.TRAINERS[kind]
        tr = cls(**({'dimension': c} if c is not None else {}))
        real = []
        for d, u in ops:
            spec = P.g_trainer_fit(rng, kind, d)
            if 'iterations' in spec:
                spec['iterations'] = int(rng.integers(1, 3)) if u else 0
            status, r = P.trainer_fit(tr, kind, spec)
            dim, cached, _ = P.trainer_state(tr, kind)
            real.append((status, cached if u else None))
        dim, cached, _ = P.trainer_state(tr, kind)
        lines.append(' '.join(map(str, ['sm', 0 if c is None else c + 1, n] + [x for o in ops for x in o])))
        metas.append((kind, c, ops, real, dim, cached))
        ctx.count(f'corr-sm:{kind}:len{n}')
    out = run_driver(lines, exe='driver_effects')
    for (kind, c, ops, real, dim, cached), o in zip(metas, out):
        t = [int(x) for x in o.split()]
        ok, why = True, ''
        has_table = kind != 'ComplexBinghamTrainer'
        for j, ((status, table), (d, u)) in enumerate(zip(real, ops)):
            acc, tab = t[2 * j], t[2 * j + 1]
            if status == 'error' or (acc == 1) != (status == 'ok'):
                ok, why = False, f'op {j} (d={d}): code {status}, model accepted={acc}'
                break
            if acc and u and has_table and (tab - 1 if tab else None) != table:
                ok, why = False, f'op {j} (d={d}): code used table for {table}, model {tab - 1 if tab else None}'
                break
        enc = lambda x: 0 if x is None else x + 1  # noqa
        if ok and (t[-2] != enc(dim) or (has_table and t[-1] != enc(cached))):
            ok, why = False, f'final state: code (dimension={dim}, cachedFor={cached}), model {t[-2:]} (0=None, else d+1)'
        ctx.corr(f'trainer-sm[{kind}]', ok, f'ctor={c} ops={ops}: {why}', {'kind': kind, 'ctor': c, 'ops': ops})
    if metas:
        ctx.sample({'op': 'trainer-sm', 'kind': metas[0][0], 'ctor': metas[0][1], 'ops(d,uses_table)': metas[0][2],
                    'driver_line': lines[0], 'driver_out': out[0]})


def _traced_fits(args, parts):
    """consecutive CACGMMTrainer fits with the E-/M-step calls recorded (methods wrapped in-process, restored after)"""
    import pb_bss.distribution.cacgmm as m
    trace = []
    orig_m, orig_e = m.CACGMMTrainer._m_step, m.CACGMM._predict

    def m_step(self, *a, **k):
        trace.append(1)
        return orig_m(self, *a, **k)

    def predict(self, *a, **k):
        trace.append(0)
        return orig_e(self, *a, **k)
    m.CACGMMTrainer._m_step, m.CACGMM._predict = m_step, predict
    try:
        model = _init_of(args)
        for k in parts:
            model = P.cacgmm_fit_from(args, model, int(k))
    finally:
        m.CACGMMTrainer._m_step, m.CACGMM._predict = orig_m, orig_e
    return trace


def _corr_split_trace(ctx):
    """(3) the loop of CACGMMTrainer.fit: sequence of E- and M-step calls of the code == the transcribed loop"""
    rng = ctx.rng
    lines, metas = [], []
    for i in range(ctx.n(40, 400)):
        v = P.pick(rng, ['affiliation', 'num_classes', 'saliency', 'wca-3', 'aligner', 'model'])
        args = P.g_cacgmm_fit(rng, v, iterations=1)
        args['_variant'] = v
        nmax = 8 if ctx.tier == 'quick' else 20
        parts = [int(rng.integers(1, 5)) for _ in range(int(rng.integers(1, 5)))]
        while sum(parts) > nmax:
            parts.pop()
        parts = parts or [1]
        trace = _traced_fits(args, parts)
        if v == 'model':
            lines.append(f'trace 1 {sum(parts)}')
        else:
            lines.append(' '.join(map(str, ['split', parts[0], len(parts) - 1] + parts[1:])))
        metas.append((v, parts, trace))
        ctx.count(f'corr-split-trace:{v}')
    out = run_driver(lines, exe='driver_effects')
    for (v, parts, trace), o in zip(metas, out):
        got = [int(x) for x in o.split()]
        ctx.corr('fit-loop-trace', got == trace, f'start={v} consecutive fits {parts}: code E/M trace {trace}, model {got}',
                 {'variant': v, 'parts': parts})
    if metas:
        ctx.sample({'op': 'fit-loop-trace', 'start': metas[0][0], 'parts': metas[0][1], 'trace(0=E,1=M)': metas[0][2]})


def _corr_translator_corpus(ctx):
    """(1d) soundness corpus of the translator: synthetic functions that modify their arguments through loops, joins,
    containers, closures, callee summaries, properties, in-place primitives ... are executed on real arrays; every
    argument whose bytes change must be reported by the translator (the converse is allowed: over-approximation)"""
    from ..translate import effects
    res = effects.analyse_repo(REPO, files=[], sources={'pb_bss/synth.py': P.SYNTH_SRC})
    ns = {}
    exec(compile(P.SYNTH_SRC, 'c20-synthetic-corpus', 'exec'), ns)
    rng = ctx.rng
    for q, rec in sorted(res['functions'].items()):
        name = q.split('.', 1)[1]
        if not name.startswith(('m_', 'p_')):
            continue
        a, b = rng.normal(size=(4, 3)), rng.normal(size=(4, 3))
        a0, b0 = a.copy(order='K'), b.copy(order='K')
        ns[name](a, b)
        dyn = {n for n, x, x0 in (('a', a, a0), ('b', b, b0)) if x.shape != x0.shape or not np.array_equal(x, x0)}
        static = set(rec['mutates'])
        ok = dyn <= static and (bool(dyn) == name.startswith('m_')) and (name.startswith('m_') or not static)
        ctx.corr('translator-corpus', ok, f'{name}: arguments changed by the call {sorted(dyn)}, reported by the '
                 f'translator {sorted(static)}', {'function': name})
        if static - dyn:
            ctx.count('translator-corpus:over-approximation')


def corr(ctx):
    _corr_certificates(ctx)
    _corr_translator_corpus(ctx)
    _corr_static_vs_dynamic(ctx)
    _corr_primitive_table(ctx)
    _corr_trainer_sm(ctx)
    _corr_split_trace(ctx)


def _search_entries(ctx, reps):
    rng = ctx.rng
    names = sorted(P.REG, key=lambda k: (not P.REG[k].anchored, k))
    for rep in range(reps):
        for name in names:
            e = P.REG[name]
            if ctx.out_of_time(reserve=60):
                ctx.note(f'entry-point sweep stopped early in repetition {rep}')
                return
            if rep > 0 and not e.anchored and ctx.tier == 'quick':
                continue
            for v in e.variants:
                args = P.make_args(name, rng, v)
                ok = ctx.run(inputs_untouched, entry=name, args=args)
                other = P.make_args(name, rng, v) if rng.random() < 0.5 else None
                ctx.run(call_reproducible, entry=name, args=args, other=other)
                ctx.count('entry:' + ('anchored' if e.anchored else 'other'))
                if rep == 0 and name.endswith('from_covariance') and v == 'trace':
                    ctx.sample({'oracle': 'inputs_untouched', 'entry': name, 'variant': v,
                                'covariance_shape': list(args['covariance'].shape), 'held': ok})


def _search_trainers(ctx, n):
    rng = ctx.rng
    for i in range(n):
        if ctx.out_of_time(reserve=40):
            break
        kind = P.pick(rng, ['CWMMTrainer', 'CBMMTrainer', 'ComplexWatsonTrainer', 'ComplexBinghamTrainer'])
        dmax = 3 if 'B' in kind.replace('Complex', '')[:2] else 4
        D = int(rng.integers(2, dmax + 1))
        ctor = {}
        r = rng.random()
        if r < 0.25:
            ctor['dimension'] = D
        if kind in ('CWMMTrainer', 'ComplexWatsonTrainer') and rng.random() < 0.3:
            ctor['max_concentration'] = 100
            ctor['spline_markers'] = 200
        L = int(rng.integers(0, 6))
        history, base = [], None
        for j in range(L):
            other_dim = rng.random() < 0.25
            d = D if not other_dim else P.pick(rng, [x for x in range(2, dmax + 2) if x != D])
            spec = P.g_trainer_fit(rng, kind, d, base=base)
            if kind in ('CWMMTrainer', 'ComplexWatsonTrainer') and rng.random() < 0.35:
                # same spline_markers, another max_concentration (larger or smaller than the trainer under test)
                mc = ctor.get('max_concentration', 500)
                spec = dict(spec, interloper_ctor={'max_concentration': P.pick(rng, [v for v in (20, 100, 500, 2000) if v != mc]),
                                                   'spline_markers': ctor.get('spline_markers', 1000)})
                ctx.count('trainer-history:interloper-with-other-max_concentration')
                history.append(spec)
                continue
            base = base or (spec if d == D else None)
            history.append(spec)
        final_other = rng.random() < 0.2
        dF = D if not final_other else P.pick(rng, [x for x in range(2, dmax + 2) if x != D])
        final = P.g_trainer_fit(rng, kind, dF, base=base)
        ok = ctx.run(reused_trainer_equals_fresh, kind=kind, ctor=ctor, history=history, final=final)
        ctx.count(f'trainer-history:{kind}:len{L}')
        if i == 0:
            ctx.sample({'oracle': 'reused_trainer_equals_fresh', 'kind': kind, 'ctor': ctor,
                        'history_dims': [int(h['y'].shape[-1]) for h in history if 'interloper_ctor' not in h],
                        'final_dim': dF, 'held': ok})


def _search_splits(ctx):
    rng = ctx.rng
    quick = ctx.tier == 'quick'
    variants = ['affiliation', 'num_classes', 'saliency', 'source-activity', 'wca-3', 'aligner', 'trace', 'model',
                'no-norm', 'wca-list', 'wca-3-1', 'no-hermitize', 'wca-2']
    n_ex = 8 if quick else 12
    for i, v in enumerate(variants if not quick else variants[:6]):
        if ctx.out_of_time(reserve=20):
            break
        args = P.g_cacgmm_fit(rng, v, iterations=1)
        args['_seed'] = int(rng.integers(0, 2 ** 31 - 1))
        args['_variant'] = v
        n = n_ex if (i < 3 or not quick) else 6
        ok = ctx.run(split_fits_equal_uninterrupted, args=args, n=n)
        ctx.count(f'split-exhaustive:n<={n}', 2 ** n - 1)
        if i == 0:
            ctx.sample({'oracle': 'split_fits_equal_uninterrupted', 'variant': v, 'y_shape': list(args['y'].shape),
                        'n': n, 'compositions': 2 ** n - 1, 'held': ok})
    if not quick:
        # one deep exhaustive tree, then n <= 20: all compositions with <= 3 parts, and random ones
        args = P.g_cacgmm_fit(rng, 'affiliation', iterations=1)
        args['_variant'] = 'affiliation'
        t = time.time()
        deep_n = 16 if ctx.time_left() > 900 else 14
        ctx.run(split_fits_equal_uninterrupted, args=args, n=deep_n)
        ctx.count(f'split-exhaustive:n<={deep_n}', 2 ** deep_n - 1)
        ctx.note(f'exhaustive composition tree n<={deep_n}: {time.time() - t:.0f} s')
    nmax = 8 if quick else 20
    args = P.g_cacgmm_fit(rng, 'affiliation', iterations=1)
    args['_variant'] = 'affiliation'
    if not quick:
        for n in range(13, 21):
            for a in range(1, n):
                ctx.run(split_composition, args=args, composition=[a, n - a])
                for b in range(1, n - a):
                    if ctx.out_of_time(reserve=20):
                        break
                    ctx.run(split_composition, args=args, composition=[a, b, n - a - b])
            ctx.count(f'split-le3parts:n={n}', (n - 1) + (n - 1) * (n - 2) // 2)
    for i in range(ctx.n(60, 1500)):
        if ctx.out_of_time(reserve=10):
            break
        v = P.pick(rng, variants)
        args = P.g_cacgmm_fit(rng, v, iterations=1)
        args['_variant'] = v
        args['_seed'] = int(rng.integers(0, 2 ** 31 - 1))
        n = int(rng.integers(2, nmax + 1))
        cuts = sorted(set(rng.integers(1, n, size=int(rng.integers(1, n))).tolist()))
        comp = [b - a for a, b in zip([0] + cuts, cuts + [n])]
        ctx.run(split_composition, args=args, composition=comp)
        ctx.count('split-random')


def search(ctx):
    missing = P.uncovered()
    if missing:
        ctx.note(f'public entry points of the anchored modules without a generator (not exercised): {missing}')
        ctx.count('uncovered-entry-points', len(missing))
    ctx.count('public-surface', len(P.public_surface()))
    _search_splits(ctx)
    _search_trainers(ctx, ctx.n(200, 2500))
    _search_entries(ctx, ctx.n(4, 40))

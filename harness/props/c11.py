"""C11 - MVDR, LCMV and Wiener beamformers satisfy their constraints and optimality."""
import inspect

import numpy as np

from .. import bf_util as U
from ..core import Fail, Skip, oracle
from ..lean import cbits, fbits, parse_complex, parse_floats, run_driver

ID = 'C11'
DRIVERS = ('driver_bf',)
THEOREMS = [
    'PbBss.C11.mvdr_distortionless',
    'PbBss.C11.mvdr_optimal',
    'PbBss.C11.getMvdrVector_spec',
    'PbBss.C11.mvdrStack_spec',
    'PbBss.C11.lcmv_constraints',
    'PbBss.C11.lcmv_gram_posDef',
    'PbBss.C11.getLcmvVector_spec',
    'PbBss.C11.souden_rank_one',
    'PbBss.C11.souden_reproduces_reference',
    'PbBss.C11.wmwf_exact',
    'PbBss.C11.wmwf_zero_eq_souden',
    'PbBss.C11.souden_scale',
    'PbBss.C11.wmwf_joint_scale',
    'PbBss.C11.ref_channel_argmax',
    'PbBss.C11.soudenAuto_spec',
    'PbBss.C11.wmwfAuto_spec',
]
ASSUMPTIONS = [
    'np.linalg.solve / stable_solve contract: the returned x satisfies A x = b for invertible A (re-checked numerically by '
    'the correspondence run: the driver solves with its own Gaussian elimination and must reproduce the code)',
    'get_lcmv_vector casts the response vector to complex64: the constraints w^H a_k = r_k are checked at 1e-6 relative '
    '(single precision of the cast), the model transcribes the cast as the identity (DESIGN.md section 4, C11 gap)',
    'float comparisons use rtol 1e-9 scaled by (1 + 1e-5 * condition number) where a linear solve is involved',
    'response vectors are real (documented use); for a complex response the code meets w^H a_k = conj(r_k) '
    '(theorem lcmv_constraints states the conjugate)',
    'reference-channel decisions whose SNR margin is below 1e-9 relative are counted as ties-within-rounding',
]

from pb_bss.extraction import beamformer as bf  # noqa: E402

TINY = float(np.finfo(np.float64).tiny)


def tol(cond):
    """relative tolerance for quantities that went through a linear solve with the given condition number"""
    return 1e-10 + 100 * U.EPS * cond


def rt(cond, k=1e-5):
    return 1e-9 * (1 + k * cond)


def _close(got, want, rel, scale=None):
    got, want = np.asarray(got), np.asarray(want)
    if got.shape != want.shape or not np.all(np.isfinite(got)):
        return False, np.inf
    s = float(np.max(np.abs(want))) if scale is None else scale
    err = float(np.max(np.abs(got - want))) if got.size else 0.0
    return err <= rel * s + 1e-300, err / max(s, 1e-300)


# ----------------------------------------------------------------------------- generators
def _dims(rng, quick=True):
    D = int(rng.integers(2, 9))
    r = rng.random()
    F = 1 if r < 0.15 else (int(rng.integers(2, 9)) if r < 0.85 else int(rng.integers(9, 33)))
    K = int(rng.integers(1, 4))
    return D, F, K


def _nonherm(rng, m, p=0.25):
    """with probability p make the stack slightly non-Hermitian (the code symmetrises, so must the model)"""
    if rng.random() < p:
        return m + 1e-3 * np.abs(m).max() * U.cnormal(rng, m.shape), True
    return m, False


# ----------------------------------------------------------------------------- correspondence
def _snr_margin(snr):
    s = np.sort(np.asarray(snr))[::-1]
    return np.inf if len(s) < 2 else float((s[0] - s[1]) / max(abs(s[0]), 1e-300))


def corr(ctx):
    rng = ctx.rng
    lines, metas = [], []

    def add(line, meta):
        lines.append(line)
        metas.append(meta)

    # ---- get_mvdr_vector: stacks of bins / sources; per-bin comparison with the model (own solver + real solver's u)
    spy = {}
    orig_solve = bf.solve

    def spy_solve(A, B):
        out = orig_solve(A, B)
        spy['A'], spy['B'], spy['X'] = np.array(A), np.array(B), np.array(out)
        return out

    for i in range(ctx.n(120, 1200)):
        D, F, K = _dims(rng)
        layout = str(rng.choice(['D', 'FD', 'KFD', 'KFD-KFDD', 'LKFD']))
        lead_n = {'D': (), 'FD': (F,), 'KFD': (F,), 'KFD-KFDD': (K, F), 'LKFD': (F,)}[layout]
        lead_a = {'D': (), 'FD': (F,), 'KFD': (K, F), 'KFD-KFDD': (K, F), 'LKFD': (2, K, F)}[layout]
        noise, cmax = U.hpd_stack(rng, lead_n, D)
        noise, nh = _nonherm(rng, noise)
        atf, akind = U.steering(rng, lead_a + (D,))
        ctx.count(f'corr-mvdr-layout-{layout}')
        ctx.count(f'corr-mvdr-D{D}')
        bf.solve = spy_solve
        try:
            w = bf.get_mvdr_vector(atf.copy(order='K'), noise.copy(order='K'))
        except Exception as e:  # noqa
            ctx.corr('get_mvdr_vector', False, f'raised {type(e).__name__}: {e} layout={layout} shapes={atf.shape},{noise.shape}',
                     {'atf': atf, 'noise': noise})
            continue
        finally:
            bf.solve = orig_solve
        if np.shape(w) != atf.shape or np.shape(spy.get('X', ()))[:-1] != np.broadcast_shapes(atf.shape, noise.shape[:-1]):
            ctx.corr('get_mvdr_vector', False, f'result shape {np.shape(w)} for steering vectors {atf.shape} (layout {layout})',
                     {'atf': atf, 'noise': noise})
            continue
        # contract of the external solver, re-checked on what the real call received and returned: A x = b
        res = np.max(np.abs(spy['A'] @ spy['X'] - spy['B']), axis=(-1, -2))
        bound = 1e-12 * (np.linalg.norm(spy['A'], axis=(-1, -2)) * np.linalg.norm(spy['X'], axis=(-1, -2)) + 1e-300)
        ctx.corr('contract:np.linalg.solve', bool(np.all(res <= bound)), f'residual {float(np.max(res / bound)):.3g} x bound',
                 {'A': spy['A'], 'B': spy['B']})
        nz = np.broadcast_to(noise, lead_a + (D, D))
        sa = np.broadcast_to(spy['A'], lead_a + (D, D))
        sx = np.broadcast_to(spy['X'][..., 0], lead_a + (D,))
        if layout in ('FD', 'KFD') and atf.size <= 400:
            # the whole stack in one model call: source/bin indexing and the broadcast of the noise PSD are the model's
            a3 = atf.reshape((-1, F, D))
            add(f'mvdrstack {a3.shape[0]} {F} {D} {cbits(a3)} {cbits(noise)}',
                ('get_mvdr_vector[stack]', w, rt(cmax), {'atf': atf, 'noise': noise}))
        idxs = U.slices(lead_a)
        if len(idxs) > 6:
            idxs = [idxs[j] for j in rng.choice(len(idxs), 6, replace=False)]
        for idx in idxs:
            c = U.cond_of(U.herm(nz[idx]))
            add(f'mvdr {D} {cbits(atf[idx])} {cbits(nz[idx])}', ('get_mvdr_vector', w[idx], rt(c), {'atf': atf[idx], 'noise': nz[idx]}))
            add(f'mvdru {D} {cbits(atf[idx])} {cbits(sx[idx])}',
                ('get_mvdr_vector[post-solve]', w[idx], rt(c, 1e-6), {'atf': atf[idx], 'u': sx[idx]}))
            add(f'hermsym {D} {cbits(nz[idx])}', ('get_mvdr_vector[symmetrise]', sa[idx].ravel(), 1e-12, {'noise': nz[idx]}))
    ctx.sample({'op': 'mvdr', 'atf_shape': list(atf.shape), 'noise_shape': list(noise.shape), 'layout': layout,
                'steering_kind': akind, 'cond_max': cmax, 'non_hermitian_input': nh})

    # ---- get_lcmv_vector
    for i in range(ctx.n(100, 800)):
        D, F, K = _dims(rng)
        K = min(K, D)
        F = min(F, 6)
        noise, cmax = U.hpd_stack(rng, (F,), D)
        atf, _ = U.steering(rng, (K, F, D), kind=str(rng.choice(['normal', 'phase'])))
        exact = rng.random() < 0.6
        if exact:
            r = rng.integers(-2, 3, size=K).astype(np.float64) / 2.0
            if K and not np.any(r):
                r[0] = 1.0
        else:
            r = rng.normal(size=K)
        ctx.count(f'corr-lcmv-K{K}')
        ctx.count('corr-lcmv-response-' + ('float32-exact' if exact else 'generic'))
        try:
            w = bf.get_lcmv_vector(atf.copy(order='K'), r.copy(order='K'), noise.copy(order='K'))
        except Exception as e:  # noqa
            ctx.corr('get_lcmv_vector', False, f'raised {type(e).__name__}: {e}', {'atf': atf, 'r': r, 'noise': noise})
            continue
        for f in range(F):
            A = atf[:, f, :]
            ca = U.cond_of(A) if K > 1 else 1.0
            c = U.cond_of(noise[f]) * ca ** 2
            rel = rt(c) if exact else 1e-6 * (1 + 1e-5 * c) * 10
            add(f'lcmv {K} {D} {cbits(A)} {cbits(r)} {cbits(noise[f])}',
                ('get_lcmv_vector' + ('' if exact else '[complex64 response, 1e-6]'), w[f], rel,
                 {'atf': A, 'r': r, 'noise': noise[f]}))

    # ---- Souden / WMWF with an explicit reference channel, leading axes
    for i in range(ctx.n(120, 1200)):
        D, F, K = _dims(rng)
        F = min(F, 6)
        lead = U.lead_shape(rng) + (F,)
        noise, cmax = U.hpd_stack(rng, lead, D)
        target, tkind = U.psd_target(rng, lead, D)
        ref = int(rng.integers(D))
        mu = float(rng.choice([0.0, 1.0, 100.0, rng.uniform(0, 100), 10 ** rng.uniform(-3, 2)]))
        use_default_mu = i % 7 == 3
        if use_default_mu:      # tuning default read by introspection and handed to the model explicitly
            mu = float(inspect.signature(bf.get_wmwf_vector).parameters['distortion_weight'].default)
            ctx.count('corr-wmwf-default-distortion-weight')
        ctx.count(f'corr-souden-wmwf-target-{tkind}')
        ctx.count(f'corr-souden-wmwf-leading-axes-{len(lead) - 1}')
        try:
            ws = bf.get_mvdr_vector_souden(target.copy(order='K'), noise.copy(order='K'), ref_channel=ref)
            if use_default_mu:
                ww = bf.get_wmwf_vector(target.copy(order='K'), noise.copy(order='K'), reference_channel=ref)
            else:
                ww = bf.get_wmwf_vector(target.copy(order='K'), noise.copy(order='K'), reference_channel=ref, distortion_weight=mu)
        except Exception as e:  # noqa
            ctx.corr('get_mvdr_vector_souden/get_wmwf_vector', False, f'raised {type(e).__name__}: {e}',
                     {'target': target, 'noise': noise})
            continue
        idxs = U.slices(lead)
        if len(idxs) > 4:
            idxs = [idxs[j] for j in rng.choice(len(idxs), 4, replace=False)]
        for idx in idxs:
            c = U.cond_of(noise[idx])
            d = {'target': target[idx], 'noise': noise[idx], 'ref': ref, 'mu': mu}
            add(f'souden {D} {ref} {fbits([TINY])} {cbits(target[idx])} {cbits(noise[idx])}',
                ('get_mvdr_vector_souden', ws[idx], rt(c), d))
            add(f'wmwf {D} {ref} {fbits([mu])} {cbits(target[idx])} {cbits(noise[idx])}',
                ('get_wmwf_vector', ww[idx], rt(c), d))
    ctx.sample({'op': 'souden/wmwf', 'shape': list(target.shape), 'target_kind': tkind, 'ref': ref, 'mu': mu})

    out = run_driver(lines, exe='driver_bf')
    for (op, want, rel, data), o in zip(metas, out):
        got = parse_complex(o) if o != 'bad-op' else np.zeros(0)
        ok, err = _close(got, np.asarray(want).ravel(), rel)
        ctx.corr(op, ok, f'{op}: max rel. difference {err:.3g} > {rel:.3g}', data)

    # ---- reference channel selection (discrete: exact, ties within rounding counted)
    lines, metas = [], []
    for i in range(ctx.n(160, 1600)):
        D, F, K = _dims(rng)
        noise, cmax = U.hpd_stack(rng, (F,), D)
        target, tkind = U.psd_target(rng, (F,), D)
        which = str(rng.choice(['refch-random', 'refch-tied', 'soudenauto', 'wmwfauto']))
        ctx.count('corr-' + which)
        try:
            if which.startswith('refch'):
                wmat = U.cnormal(rng, (F, D, D))
                if which == 'refch-tied' and D > 1:
                    wmat[..., D - 1] = wmat[..., 0]       # two identical columns: exact tie -> first index
                eps = float(rng.choice([TINY, 1e-3, 1e3]))
                want = int(bf.get_optimal_reference_channel(wmat, target, noise, eps=eps))
                add(f'refch {F} {D} {fbits([eps])} {cbits(wmat)} {cbits(target)} {cbits(noise)}',
                    (which, want, None, {'w_mat': wmat, 'target': target, 'noise': noise, 'eps': eps}))
            elif which == 'soudenauto':
                w, want = bf.get_mvdr_vector_souden(target.copy(order='K'), noise.copy(order='K'), return_ref_channel=True)
                add(f'soudenauto {F} {D} {fbits([TINY])} {cbits(target)} {cbits(noise)}',
                    (which, int(want), w, {'target': target, 'noise': noise, 'cond': U.cond_max(noise)}))
            else:
                mu = float(rng.choice([0.0, 1.0, rng.uniform(0, 100)]))
                w = bf.get_wmwf_vector(target.copy(order='K'), noise.copy(order='K'), distortion_weight=mu)
                add(f'wmwfauto {F} {D} {fbits([mu])} {fbits([TINY])} {cbits(target)} {cbits(noise)}',
                    (which, None, w, {'target': target, 'noise': noise, 'mu': mu, 'cond': U.cond_max(noise)}))
        except Exception as e:  # noqa
            ctx.corr(which, False, f'raised {type(e).__name__}: {e}', {'target': target, 'noise': noise})
    out = run_driver(lines, exe='driver_bf')
    for (which, want, w, data), o in zip(metas, out):
        toks = o.split()
        got_ref = int(toks[0])
        rest = parse_floats(' '.join(toks[1:]))
        if which.startswith('refch'):
            if got_ref == want:
                ctx.corr('get_optimal_reference_channel', True)
            elif _snr_margin(rest) < 1e-9 and which != 'refch-tied':
                ctx.count('tie-within-rounding:get_optimal_reference_channel')
            else:
                ctx.corr('get_optimal_reference_channel', False, f'code chose {want}, model {got_ref}, model SNR {rest.tolist()}', data)
            continue
        gotw = rest.view(np.complex128)
        op = 'get_mvdr_vector_souden[ref=None]' if which == 'soudenauto' else 'get_wmwf_vector[ref=None]'
        ok, err = _close(gotw, np.asarray(w).ravel(), rt(data['cond']))
        if ok and (want is None or want == got_ref):
            ctx.corr(op, True)
            continue
        # a different channel: judge by the decision margin of the criterion, recomputed from the real per-channel filters
        F, D = data['target'].shape[:2]
        if which == 'soudenauto':
            per = [bf.get_mvdr_vector_souden(data['target'], data['noise'], ref_channel=R) for R in range(D)]
        else:
            per = [bf.get_wmwf_vector(data['target'], data['noise'], reference_channel=R, distortion_weight=data['mu'])
                   for R in range(D)]
        snr = _criterion(per, data['target'], data['noise'])
        if _snr_margin(snr) < 1e-9:
            ctx.count('tie-within-rounding:' + op)
        else:
            ctx.corr(op, False, f'{op}: model ref {got_ref}, code ref {want}, max rel. difference {err:.3g}', data)


def _criterion(per_ref, target, noise):
    """the library's output-SNR criterion for each candidate reference channel, from the per-channel filters:
    ratio of the summed (over bins) target and noise output powers"""
    F = target.shape[0]
    out = []
    for w in per_ref:
        num = sum(np.real(U.quad(w[f], target[f])) for f in range(F))
        den = sum(np.real(U.quad(w[f], noise[f])) for f in range(F))
        out.append(num / max(den, TINY))
    return np.array(out)


# ----------------------------------------------------------------------------- oracles on the real code
@oracle
def mvdr_distortionless_optimal(atf, noise, seed):
    """w^H a = 1 and w^H Phi w <= v^H Phi v for distortionless competitors v, for every bin / source of the stack"""
    w = bf.get_mvdr_vector(atf.copy(order='K'), noise.copy(order='K'))
    if w.shape != atf.shape:
        return Fail('shape', f'result shape {w.shape} != steering shape {atf.shape}')
    if not np.all(np.isfinite(w)):
        return Fail('non-finite', 'beamforming vector contains inf/nan for a positive definite PSD')
    rng = np.random.default_rng(seed)
    D = atf.shape[-1]
    lead = atf.shape[:-1]
    nz = np.broadcast_to(noise, lead + (D, D))
    for idx in U.slices(lead):
        a, phi, wv = atf[idx], U.herm(nz[idx]), w[idx]
        t = tol(U.cond_of(phi))
        g = np.vdot(wv, a)
        if abs(g - 1) > t:
            return Fail('not-distortionless', f'index {idx}: w^H a = {g} (|.-1| = {abs(g - 1):.3g} > {t:.3g})')
        pw = float(np.real(U.quad(wv, phi)))
        for kind, v in U.min_power_competitors(rng, a, phi):
            v = v / np.conj(np.vdot(v, a))        # exactly distortionless competitor
            pv = float(np.real(U.quad(v, phi)))
            if pw > pv * (1 + t):
                return Fail('not-minimum-power', f'index {idx}: noise power {pw} > {pv} of a {kind} distortionless competitor')


@oracle
def lcmv_meets_constraints(atf, response, noise):
    """w_f^H a_{k,f} = r_k for all k, f (to the single precision of the code's complex64 response cast)"""
    w = bf.get_lcmv_vector(atf.copy(order='K'), response.copy(order='K'), noise.copy(order='K'))
    K, F, D = atf.shape
    if w.shape != (F, D):
        return Fail('shape', f'result shape {w.shape} != {(F, D)}')
    rmax = max(1.0, float(np.max(np.abs(response))))
    for f in range(F):
        A = atf[:, f, :]
        c = U.cond_of(noise[f]) * (U.cond_of(A) if K > 1 else 1.0) ** 2
        t = (1e-6 + 100 * U.EPS * c) * rmax
        for k in range(K):
            g = np.vdot(w[f], A[k])
            if not abs(g - response[k]) <= t:
                return Fail('constraint-violated', f'bin {f}, source {k}: w^H a = {g}, r = {response[k]} (tolerance {t:.3g}, '
                                                   f'complex64 cast of the response)')


@oracle
def souden_rank_one_is_scaled_mvdr(a, sigma, noise, ref):
    """rank-one target sigma a a^H: Souden MVDR = conj(a_ref) * MVDR(a, noise), hence w^H a = a_ref"""
    target = U.rank_one(a, sigma)
    w = bf.get_mvdr_vector_souden(target.copy(order='K'), noise.copy(order='K'), ref_channel=ref)
    wm = bf.get_mvdr_vector(a.copy(order='K'), noise.copy(order='K'))
    if w.shape != a.shape:
        return Fail('shape', f'result shape {w.shape} != {a.shape}')
    want = np.conj(a[..., ref])[..., None] * wm
    for idx in U.slices(a.shape[:-1]):
        t = tol(U.cond_of(noise[idx]))
        amax = float(np.max(np.abs(a[idx])))
        sc = float(np.max(np.abs(wm[idx]))) * amax
        if not np.max(np.abs(w[idx] - want[idx])) <= t * sc:
            return Fail('not-scaled-mvdr', f'index {idx}: |souden - conj(a_ref) mvdr| = {np.max(np.abs(w[idx] - want[idx])):.3g} '
                                           f'> {t * sc:.3g}')
        g = np.vdot(w[idx], a[idx])
        if not abs(g - a[idx][ref]) <= t * amax:
            return Fail('target-not-reproduced', f'index {idx}: w^H a = {g} != a_ref = {a[idx][ref]}')


@oracle
def wmwf_rank_one_is_exact_minimiser(a, sigma, noise, ref, mu):
    """rank-one target, mu > 0: (Phi_xx + mu Phi_nn) w = Phi_xx e_ref"""
    if not mu > 0:
        return Skip('mu = 0: covered by wmwf_mu0_equals_souden (Phi_xx alone is singular)')
    target = U.rank_one(a, sigma)
    w = bf.get_wmwf_vector(target.copy(order='K'), noise.copy(order='K'), reference_channel=ref, distortion_weight=mu)
    if w.shape != a.shape:
        return Fail('shape', f'result shape {w.shape} != {a.shape}')
    for idx in U.slices(a.shape[:-1]):
        M = target[idx] + mu * noise[idx]
        rhs = target[idx][:, ref]
        t = tol(U.cond_of(noise[idx]))
        res = np.linalg.norm(M @ w[idx] - rhs)
        sc = np.linalg.norm(M, 2) * np.linalg.norm(w[idx]) + np.linalg.norm(rhs)
        if not res <= t * sc:
            return Fail('normal-equations-violated', f'index {idx}: |(Phi_xx + mu Phi_nn) w - Phi_xx e_ref| = {res:.3g} > {t * sc:.3g}')
        cm = U.cond_of(M)
        if cm <= 1e9:
            want = np.linalg.solve(M, rhs)
            tt = (tol(cm) + t) * max(np.linalg.norm(want), 1e-300)
            if not np.linalg.norm(w[idx] - want) <= tt:
                return Fail('not-the-minimiser', f'index {idx}: |w - (Phi_xx + mu Phi_nn)^-1 Phi_xx e_ref| = '
                                                 f'{np.linalg.norm(w[idx] - want):.3g} > {tt:.3g}')


@oracle
def wmwf_mu0_equals_souden(target, noise, ref):
    ws = bf.get_mvdr_vector_souden(target.copy(order='K'), noise.copy(order='K'), ref_channel=ref)
    ww = bf.get_wmwf_vector(target.copy(order='K'), noise.copy(order='K'), reference_channel=ref, distortion_weight=0.0)
    for idx in U.slices(target.shape[:-2]):
        t = tol(U.cond_of(noise[idx]))
        if not np.max(np.abs(ws[idx] - ww[idx])) <= t * np.max(np.abs(ws[idx])):
            return Fail('mu0-differs-from-souden', f'index {idx}: max difference {np.max(np.abs(ws[idx] - ww[idx])):.3g}')


@oracle
def scaling_invariance(target, noise, ref, mu, c):
    """Souden: invariant to c*target and to c*noise; WMWF: invariant to scaling both by c   (c > 0)"""
    s0 = bf.get_mvdr_vector_souden(target.copy(order='K'), noise.copy(order='K'), ref_channel=ref)
    s1 = bf.get_mvdr_vector_souden(c * target, noise.copy(order='K'), ref_channel=ref)
    s2 = bf.get_mvdr_vector_souden(target.copy(order='K'), c * noise, ref_channel=ref)
    w0 = bf.get_wmwf_vector(target.copy(order='K'), noise.copy(order='K'), reference_channel=ref, distortion_weight=mu)
    w1 = bf.get_wmwf_vector(c * target, c * noise, reference_channel=ref, distortion_weight=mu)
    for idx in U.slices(target.shape[:-2]):
        t = tol(U.cond_of(noise[idx]))
        for name, x, y in (('souden-target-scale', s0, s1), ('souden-noise-scale', s0, s2), ('wmwf-joint-scale', w0, w1)):
            if not np.max(np.abs(x[idx] - y[idx])) <= t * np.max(np.abs(x[idx])):
                return Fail(name, f'index {idx}, c = {c}: max difference {np.max(np.abs(x[idx] - y[idx])):.3g} '
                                  f'(scale {np.max(np.abs(x[idx])):.3g})')


@oracle
def reference_channel_maximises_snr(target, noise, mu):
    """ref_channel=None: the result is the filter of one reference channel, and that channel maximises the
    library's criterion  sum_f w^H Phi_xx w / sum_f w^H Phi_nn w  over all channels (mu None: Souden, else WMWF)"""
    F, D, _ = target.shape
    if mu is None:
        w, ref = bf.get_mvdr_vector_souden(target.copy(order='K'), noise.copy(order='K'), return_ref_channel=True)
        per = [bf.get_mvdr_vector_souden(target.copy(order='K'), noise.copy(order='K'), ref_channel=R) for R in range(D)]
        if not (np.isscalar(ref) and 0 <= int(ref) < D):
            return Fail('bad-reference-index', f'returned reference channel {ref!r}')
        cands = [int(ref)]
    else:
        w = bf.get_wmwf_vector(target.copy(order='K'), noise.copy(order='K'), distortion_weight=mu)
        per = [bf.get_wmwf_vector(target.copy(order='K'), noise.copy(order='K'), reference_channel=R, distortion_weight=mu) for R in range(D)]
        cands = None
    t = tol(U.cond_max(noise))
    match = [R for R in range(D) if np.max(np.abs(per[R] - w)) <= t * max(np.max(np.abs(per[R])), 1e-300)]
    if cands is not None:
        if cands[0] not in match:
            return Fail('result-is-not-the-returned-channel', f'beamformer != mat[..., {cands[0]}]')
    else:
        cands = match
        if not cands:
            return Fail('result-is-no-reference-channel', 'result equals the filter of no reference channel')
    snr = _criterion(per, target, noise)
    best = float(np.max(snr))
    if not max(snr[R] for R in cands) >= best - (1e-9 + t) * abs(best):
        return Fail('reference-not-argmax', f'chosen channel(s) {cands} have criterion {[float(snr[R]) for R in cands]}, '
                                            f'maximum is {best} at {int(np.argmax(snr))}')


# ----------------------------------------------------------------------------- search
def search(ctx):
    rng = ctx.rng
    n = ctx.n(400, 4000)
    for i in range(n):
        if ctx.out_of_time():
            break
        D, F, K = _dims(rng)
        # --- MVDR: single bins and stacks of bins / sources (the stacked layouts exposed fix 63825a3)
        layout = ['D', 'FD', 'KFD', 'KFD-KFDD', 'LKFD'][i % 5]
        lead_n = {'D': (), 'FD': (F,), 'KFD': (F,), 'KFD-KFDD': (K, F), 'LKFD': (F,)}[layout]
        lead_a = {'D': (), 'FD': (F,), 'KFD': (K, F), 'KFD-KFDD': (K, F), 'LKFD': (2, K, F)}[layout]
        noise, cmax = U.hpd_stack(rng, lead_n, D)
        atf, akind = U.steering(rng, lead_a + (D,))
        # dtype mix: a steering vector / PSD handed over with a REAL dtype (all-ones look direction, real-valued noise
        # model) must behave like its complex copy
        dmix = str(rng.choice(['complex', 'complex', 'complex', 'real-steering', 'real-noise', 'real-both']))
        if dmix in ('real-steering', 'real-both'):
            ar = np.ascontiguousarray(atf.real)
            if np.all(np.linalg.norm(ar, axis=-1) > 1e-3):
                atf = ar
        if dmix in ('real-noise', 'real-both'):
            noise = np.ascontiguousarray(noise.real)
        ctx.count(f'search-mvdr-dtypes:{dmix}')
        ctx.count(f'search-mvdr-{layout}')
        ctx.count(f'search-D{D}')
        ctx.count('search-cond-1e%d' % int(np.floor(np.log10(cmax) + 1e-9)))
        ok = ctx.run(mvdr_distortionless_optimal, atf=atf, noise=noise, seed=int(rng.integers(2 ** 31)))
        if i < 2:
            ctx.sample({'oracle': 'mvdr_distortionless_optimal', 'layout': layout, 'atf_shape': list(atf.shape),
                        'noise_shape': list(noise.shape), 'steering': akind, 'cond_max': cmax, 'held': ok})
        # --- LCMV
        Kc = min(K, D)
        Fl = min(F, 8)
        noise_f, _ = U.hpd_stack(rng, (Fl,), D)
        atfs, _ = U.steering(rng, (Kc, Fl, D), kind=str(rng.choice(['normal', 'phase', 'dominant'])))
        resp = [np.eye(Kc)[int(rng.integers(Kc))], rng.normal(size=Kc), np.ones(Kc)][i % 3].astype(np.float64)
        ctx.count(f'search-lcmv-K{Kc}')
        ctx.run(lcmv_meets_constraints, atf=atfs, response=resp, noise=noise_f)
        # --- rank-one target: Souden, WMWF
        lead = (U.lead_shape(rng) if i % 2 else ()) + (Fl,)
        a, _ = U.steering(rng, lead + (D,))
        sigma = 10 ** rng.uniform(-3, 3, size=lead)
        nz, _ = U.hpd_stack(rng, lead, D)
        ref = int(rng.integers(D))
        mu = float([0.0, 1.0, 100.0, rng.uniform(0, 100), 10 ** rng.uniform(-3, 2)][i % 5])
        ctx.count(f'search-rank-one-leading-axes-{len(lead) - 1}')
        ctx.run(souden_rank_one_is_scaled_mvdr, a=a, sigma=sigma, noise=nz, ref=ref)
        ctx.run(wmwf_rank_one_is_exact_minimiser, a=a, sigma=sigma, noise=nz, ref=ref, mu=mu)
        # --- general PSD targets: mu = 0, scaling, reference channel
        target, tkind = U.psd_target(rng, lead, D)
        ctx.count(f'search-target-{tkind}')
        ctx.run(wmwf_mu0_equals_souden, target=target, noise=nz, ref=ref)
        c = float(2.0 ** int(rng.integers(-20, 21))) if i % 2 else float(10 ** rng.uniform(-8, 8))
        ctx.run(scaling_invariance, target=target, noise=nz, ref=ref, mu=mu, c=c)
        t3, tk3 = U.psd_target(rng, (F,), D)
        n3, _ = U.hpd_stack(rng, (F,), D)
        # absolute level of the recording: both PSDs scaled together (the criterion is a ratio; a floor on its denominator
        # that is not relative shows for quiet recordings only)
        lvl = 1.0 if rng.random() < 0.5 else float(10.0 ** rng.uniform(-24, 12))
        ctx.count('search-reference-level:' + ('1' if lvl == 1.0 else '1e%d' % int(np.floor(np.log10(lvl)))))
        ctx.run(reference_channel_maximises_snr, target=t3 * lvl, noise=n3 * lvl, mu=None if i % 2 else mu)

"""C05 - mixture training is equivariant under relabelling of the classes."""
import numpy as np

from .. import posterior_util as pu
from ..core import Fail, Skip, oracle
from ..lean import fbits, ints, parse_floats, run_driver

ID = 'C05'
DRIVERS = ('driver_posterior',)
EXE = 'driver_posterior'
THEOREMS = [
    'PbBss.C05.affiliation_perm',
    'PbBss.C05.sumTied_perm',
    'PbBss.C05.estimateWeight_perm',
    'PbBss.C05.estimateWeightSal_perm',
    'PbBss.C05.integrationWeight_perm',
    'PbBss.C05.mixWeight_perm',
    'PbBss.C05.fit_equivariant',
    'PbBss.C05.fitPredict_equivariant',
    'PbBss.C05.eStep_perm',
    'PbBss.C05.mStep_perm',
    'PbBss.C05.mixture_fit_perm',
    'PbBss.C05.mixture_fitPredict_perm',
    'PbBss.C05.em_eStep_perm',
    'PbBss.C05.em_mStep_perm',
    'PbBss.C05.em_fit_perm',
    'PbBss.C05.em_fit_predict_perm',
    'PbBss.C05.em_fit_logLik_perm',
]
ASSUMPTIONS = [
    'theorems over the reals: the relabelled run equals the relabelled result exactly; in floating point the sums over the '
    'class axis are reordered, so the search compares to rounding (posteriors 1e-8 + 1e-14*cond, parameters 1e-6 + 1e-13*cond relative, cond = eigenvalue '
    'spread of the fitted cACG covariances (EM on a class collapsed to the eigenvalue floor amplifies rounding); cBMM 1e-3 '
    'because scipy least_squares sits inside its M-step)',
    'mixture_fit_perm is proved for the generic mixture trainer Mix.eStep / Mix.mStep with arbitrary per-class component '
    'routines (logPdf, auxStat, fitComp are parameters: "per-class externals are functions, hence commute"); that each of '
    'the seven trainers is an instance is tied by the E-step / weight-update correspondences here and by C08',
    'inline permutation aligners and the built-in alignment of the integration models break ties by class order; they are '
    'exercised by the search (ties have probability zero on continuous data) but are not part of the theorem',
]



@oracle
def relabel_equivariance(model, obs, emb, init, mask, iterations, opts, perms):
    """fit(init[..., perm, :], mask[..., perm, :]) == fit(init, mask) with the class axis permuted by perm"""
    r = _relabel_equivariance(model, obs, emb, init, mask, iterations, opts, perms)
    if isinstance(r, Fail) and (opts or {}).get('inline_permutation_aligner') is not None:
        ties = pu.inline_aligner_ties(model, obs, init, iterations, opts, mask)
        if ties == 'exact':
            return Fail('inline-aligner-score-tie-broken-by-class-order',
                        f'{model} with inline_permutation_aligner={opts["inline_permutation_aligner"]}: a score matrix of the '
                        f'aligner contains exactly equal entries (posteriors clipped by affiliation_eps are bit-identical); '
                        f'the greedy flat arg-max takes the first, i.e. breaks the tie by class index, and the relabelled '
                        f'run follows another alignment: {r.desc}')
        if ties == 'rounding':
            return Skip('tie-within-rounding: inline aligner score tie')
    if isinstance(r, Fail) and r.tag in ('posterior-not-equivariant', 'fitted-model-not-equivariant') \
            and r.extra.get('err', 1.0) <= 1e-4:
        o = dict(opts or {})
        if mask is not None:
            o['source_activity_mask'] = mask
        d = pu.rounding_sensitivity(model, obs, emb, init, iterations, o, mask=mask)
        if d is not None and r.extra['err'] <= 1000 * d:
            return Skip('tie-within-rounding: the deviation is within the sensitivity of this EM trajectory to a 1e-15 '
                        'relative perturbation of the data (transient amplification of rounding differences)')
    if isinstance(r, Fail) and model in pu.INTEGRATION and (opts or {}).get('inline_permutation_alignment'):
        gap = pu.integration_search_gap(model, obs, emb, init, iterations, opts)
        if gap is not None and gap <= 1e-10:
            return Skip('tie-within-rounding: two candidate permutations of the built-in alignment score the same '
                        '(classes that the data does not tell apart)')
    return r


def _relabel_equivariance(model, obs, emb, init, mask, iterations, opts, perms):
    name = model
    y = obs if name in pu.COMPLEX_OBS else emb
    K = init.shape[-2]
    shape = (obs.shape[0], K, obs.shape[1]) if name in pu.INTEGRATION else tuple(y.shape[:-2]) + (K, y.shape[-2])
    o = dict(opts or {})
    if mask is not None:
        o['source_activity_mask'] = mask
    tape = pu.BinghamSolverTape() if name == 'cbmm' else None
    try:
        if tape is None:
            m1 = pu.fit(name, obs, emb, init, iterations, o)
        else:
            with tape.record():
                m1 = pu.fit(name, obs, emb, init, iterations, o)
        g1 = pu.predict(name, m1, obs, emb, mask=mask)
        p1 = pu.fitted_params(name, m1, shape)
    except Exception as e:  # noqa
        base_exc = e
        m1 = None
    for perm in perms:
        perm = [int(p) for p in perm]
        o2 = dict(opts or {})
        mask2 = None
        if mask is not None:
            mask2 = np.ascontiguousarray(np.take(mask, perm, axis=-2))
            o2['source_activity_mask'] = mask2
        try:
            init2 = np.ascontiguousarray(np.take(init, perm, axis=-2))
            if tape is None or m1 is None:
                m2 = pu.fit(name, obs, emb, init2, iterations, o2)
            else:
                with tape.replay(iterations):
                    m2 = pu.fit(name, obs, emb, init2, iterations, o2)
            g2 = pu.predict(name, m2, obs, emb, mask=mask2)
        except pu.TapeMismatch as e:
            return Fail('relabelling-changes-scatter-eigenvalues', f'cbmm perm={perm}: {e}')
        except Exception as e:  # noqa
            if m1 is None:
                continue
            if pu.numerical_rejection(e):
                return Skip('tie-within-rounding: rejection of a numerically singular class decided by rounding')
            return Fail('relabelling-changes-whether-fit-raises', f'{name}: permutation {perm} raises {type(e).__name__}: '
                        f'{str(e)[:120]} but the original labelling does not')
        if m1 is None:
            if pu.numerical_rejection(base_exc):
                return Skip('tie-within-rounding: rejection of a numerically singular class decided by rounding')
            return Fail('relabelling-changes-whether-fit-raises', f'{name}: the original labelling raises '
                        f'{type(base_exc).__name__}: {str(base_exc)[:120]} but permutation {perm} does not')
        tol = pu.tolerances(name, m1, m2)
        err = float(np.max(np.abs(np.take(g1, perm, axis=-2) - g2)))
        if not err <= tol['post']:
            return Fail('posterior-not-equivariant', f'{name} wca={o.get("weight_constant_axis")} perm={perm}: posteriors of '
                        f'the relabelled run differ from the relabelled posteriors by {err:.3g}', err=err)
        for (lab, a, ax, kind), (_, b, _, _) in zip(p1, pu.fitted_params(name, m2, shape)):
            if kind == 'solver' and max(np.max(np.abs(a)), np.max(np.abs(b))) > 1e4:
                continue
            ok, e_ = pu.rel_close(np.take(a, perm, axis=ax), b, tol['post'] if kind == 'prob' else tol['param'], atol=1e-12)
            if not ok:
                return Fail('fitted-model-not-equivariant', f'{name} wca={o.get("weight_constant_axis")} perm={perm}: {lab} of '
                            f'the relabelled run differs from the relabelled parameter by {e_:.3g} (relative)', err=e_)
    if m1 is None:
        return Skip(f'every labelling raises {type(base_exc).__name__}')


def _case(rng, name, K, quick, wca=None):
    D = int(rng.integers(2, 7 if name == 'cbmm' else 9))
    E = int(rng.integers(2, 7))
    F = int(rng.choice([1, 2, 3, 5])) if name in pu.INTEGRATION or rng.random() < 0.75 else None
    lead = [] if F is None else [F]
    N = int(rng.integers(3 * D + 2 * K, 3 * D + 30))
    kind = str(rng.choice(['normal', 'clustered']))
    obs, emb = pu.gen_pair(rng, lead, N, D, E, kind, K)
    init = pu.gen_init(rng, lead, K, N, str(rng.choice(['soft', 'uniform', 'flag', 'hard'])))
    opts = pu.gen_options(rng, name, len(lead) + 2, F=F, K=K)
    if wca is not None and wca in pu.wca_options(name, len(lead) + 2):
        opts['weight_constant_axis'] = wca
        if 'inline_permutation_aligner' in opts and pu.as_wca(wca) not in ((-3,), (-3, -1)):
            opts.pop('inline_permutation_aligner')
    if rng.random() < 0.3:
        opts['saliency'] = pu.gen_saliency(rng, tuple(lead) + (N,), 'random')
    mask = None
    if name == 'cacgmm' and rng.random() < 0.4:
        mask = pu.gen_mask(rng, tuple(lead) + (K, N), str(rng.choice(['random', 'all', 'some-columns-off'])))
    it = int(rng.integers(1, 21))
    if K <= 4:
        perms = pu.all_perms(K)[1:]
        if quick and K == 4:
            perms = [perms[i] for i in rng.permutation(len(perms))[:8]] if rng.random() < 0.7 else perms
    else:
        perms = [rng.permutation(K).tolist() for _ in range(3)]
    return dict(model=name, obs=obs if name in pu.COMPLEX_OBS else None,
                emb=emb if name in ('gmm', 'vmfmm', 'gcacgmm', 'vmfcacgmm') else None, init=init, mask=mask,
                iterations=it, opts=opts, perms=perms), dict(K=K, D=D, N=N, kind=kind, nperm=len(perms))


def aligner_tie_case():
    """fixed configuration in which the inline greedy aligner (euclidean metric) meets exactly tied scores: one-hot start,
    posteriors clipped by affiliation_eps (known finding `inline-aligner-score-tie-broken-by-class-order`)"""
    rng = np.random.default_rng(7)
    F, T, D, K = 5, 12, 3, 3
    y = rng.normal(size=(F, T, D)) + 1j * rng.normal(size=(F, T, D))
    init = np.eye(K)[rng.integers(0, K, size=(F, T))].transpose(0, 2, 1)
    return dict(model='cacgmm', obs=y, emb=None, init=np.ascontiguousarray(init), mask=None, iterations=6,
                opts={'weight_constant_axis': (-3,), 'affiliation_eps': 1e-3,
                      'inline_permutation_aligner': {'kind': 'greedy', 'metric': 'euclidean'}},
                perms=[[1, 2, 0]])


def permuted_start_case(rng, name):
    """integration model with its built-in alignment on the problem it is made for: the start has the class order exchanged
    in some frequency bins, and the embeddings (almost) do not tell two of the sources apart, so that several candidate
    permutations of a bin score nearly (but, by a small asymmetry, resolvably) the same"""
    K = int(rng.choice([3, 3, 4]))
    n, D, E = int(rng.integers(8, 16)), int(rng.integers(2, 5)), int(rng.integers(2, 4))
    F, T = int(rng.choice([3, 5])), K * n
    src = np.repeat(np.arange(K), n)
    steer = rng.normal(size=(F, K, D)) + 1j * rng.normal(size=(F, K, D))
    sig = rng.normal(size=(F, T, 1)) + 1j * rng.normal(size=(F, T, 1))
    obs = sig * steer[:, src, :] + 0.2 * (rng.normal(size=(F, T, D)) + 1j * rng.normal(size=(F, T, D)))
    centre = 3.0 * rng.normal(size=(K, E))
    spread = 0.3 * rng.normal(size=(K, n, E))
    a, b = rng.choice(K, 2, replace=False)
    centre[b], spread[b] = centre[a], spread[a]        # sources a and b carry the same embedding vectors
    emb = np.broadcast_to((centre[:, None, :] + spread).reshape(T, E), (F, T, E)).copy()
    if name == 'vmfcacgmm':
        emb /= np.linalg.norm(emb, axis=-1, keepdims=True)
    pattern = np.full((K, T), 0.2 / (K - 1))
    pattern[src, np.arange(T)] = 0.8
    init = np.stack([pattern[rng.permutation(K) if f >= F // 2 else np.arange(K)] for f in range(F)])
    # a small (resolvable) asymmetry: mass moved between class b and a third class on the frames of source b in one bin
    # (moving it between a and b would rescale the weights of a's embedding vectors uniformly and leave an exact tie)
    delta = 10.0 ** rng.uniform(-6, -4)
    f0 = int(rng.integers(F))
    c = int(rng.choice([k for k in range(K) if k not in (a, b)]))
    init[f0, c, src == b] += delta
    init[f0, b, src == b] -= delta
    opts = {'weight_constant_axis': (-3,), 'inline_permutation_alignment': True}
    if name == 'gcacgmm':
        opts['covariance_type'] = str(rng.choice(['full', 'diagonal', 'spherical']))
    perms = pu.all_perms(K)[1:]
    if K == 4:
        perms = [perms[i] for i in rng.permutation(len(perms))[:8]]
    return dict(model=name, obs=obs, emb=emb, init=init, mask=None, iterations=int(rng.choice([2, 3, 6, 10])),
                opts=opts, perms=perms)


def search(ctx):
    rng = ctx.rng
    quick = ctx.tier == 'quick'
    ctx.count('targeted:inline-aligner-exact-tie')
    ctx.run(relabel_equivariance, **aligner_tie_case())
    for i in range(ctx.n(16, 120)):
        name = ('gcacgmm', 'vmfcacgmm')[i % 2]
        ctx.count('targeted:permuted-start-embeddings-confuse-two-classes:' + name)
        ctx.run(relabel_equivariance, **permuted_start_case(rng, name))
    sched = []
    for name in pu.MODELS:
        # every tying option of every trainer at least once, K = 2..4 exhaustively, then K = 5, 6 sampled
        opts_w = pu.wca_options(name, 3)
        for r in range(ctx.n(5, 40)):
            for w in opts_w:
                sched.append((name, int(rng.choice([2, 3, 3, 4, 4, 5, 6])), w))
    for j in rng.permutation(len(sched)):
        if ctx.out_of_time(reserve=10):
            ctx.note('model stream cut short by the time budget')
            break
        name, K, w = sched[j]
        inp, meta = _case(rng, name, K, quick, wca=w)
        ctx.count('model:' + name)
        ctx.count(f'K={K}')
        ctx.count(f'wca:{name}:{inp["opts"]["weight_constant_axis"]}')
        ctx.count('permutations', meta['nperm'])
        ctx.count(f'iterations:{"1-5" if inp["iterations"] <= 5 else "6-20"}')
        if inp['mask'] is not None:
            ctx.count('with-source-activity-mask')
        if 'inline_permutation_aligner' in inp['opts'] or inp['opts'].get('inline_permutation_alignment'):
            ctx.count('with-inline-aligner')
        ok = ctx.run(relabel_equivariance, **inp)
        if len(ctx.samples) < 3:
            ctx.sample({'oracle': 'relabel_equivariance', 'model': name, **meta, 'iterations': inp['iterations'],
                        'opts': {k: (v if not isinstance(v, np.ndarray) else 'array') for k, v in inp['opts'].items()},
                        'perms': inp['perms'][:3], 'held': ok})


def _tie(w, ndim=3):
    axes = (w,) if isinstance(w, int) else tuple(w)
    axes = [a % ndim - ndim for a in axes]
    return [int(-3 in axes), int(-2 in axes), int(-1 in axes)]


def _close(a, b, rtol=1e-9, atol=1e-13):
    a, b = np.asarray(a, dtype=np.float64), np.asarray(b, dtype=np.float64)
    if a.shape != b.shape:
        return False
    na, nb = np.isnan(a), np.isnan(b)
    if not np.array_equal(na, nb):
        return False
    return bool(np.all(np.abs(a[~na] - b[~na]) <= atol + rtol * np.maximum(np.abs(a[~na]), np.abs(b[~na]))))


def corr(ctx):
    """the class-axis bookkeeping the theorems are about, model driver vs real code:
    (a) estimate_mixture_weight for every tying option (tuple / int / list forms, with and without saliency),
    (b) the weights stored by one M-step of each of the seven trainers = the model's weight rule of that trainer
        (mean / saliency / in-line integration formula), broadcast to (F, K, T),
    (c) the E-step kernel on relabelled inputs (the driver's posterior of permuted inputs is compared with the real
        routine on the permuted inputs AND with the permuted real result)."""
    from pb_bss.distribution import mixture_model_utils as mmu
    rng = ctx.rng
    tiny = pu.TINY
    lines, wants, ops = [], [], []
    WCAS = [(-1,), (-3,), (-3, -1), -2, (-2,), (-3, -2, -1), (-2, -1), -1, -3, [-1], [-3, -1], 1, 2, 0]
    for i in range(ctx.n(150, 3000)):
        F, K, T = int(rng.integers(1, 4)), int(rng.integers(1, 6)), int(rng.integers(1, 7))
        g = rng.random((F, K, T)) + 1e-3
        g /= g.sum(1, keepdims=True)
        if rng.random() < 0.2:
            g = np.eye(K)[rng.integers(0, K, size=(F, T))].transpose(0, 2, 1)
        w = WCAS[int(rng.integers(len(WCAS)))]
        use_sal = rng.random() < 0.5
        sal = rng.random((F, T)) + 0.05
        if use_sal and rng.random() < 0.3:
            sal[:, int(rng.integers(T))] = 0.0         # a frame without saliency: the 'where' guard
        i2 = int(isinstance(w, int) and w % 3 - 3 == -2)
        want = mmu.estimate_mixture_weight(g, saliency=sal if use_sal else None, weight_constant_axis=w)
        lines.append(f'estw {"sal" if use_sal else "mean"} {F} {K} {T} {ints(_tie(w))} {i2} {fbits([1e-10])} {fbits(g)} '
                     f'{fbits(sal)}')
        wants.append(np.broadcast_to(want, (F, K, T)))
        ops.append('estimate_mixture_weight' + ('[saliency]' if use_sal else ''))
        ctx.count(f'corr-estw:{w}')
    # (b) one M-step of every trainer
    per = ctx.n(8, 150)
    for name in pu.MODELS:
        done = tries = 0
        while done < per and tries < 4 * per:
            tries += 1
            K = int(rng.integers(2, 5))
            D, E, F = int(rng.integers(2, 5)), int(rng.integers(2, 4)), int(rng.integers(1, 4))
            N = int(rng.integers(2 * D + K, 2 * D + K + 8))
            obs, emb = pu.gen_pair(rng, [F], N, D, E, 'normal', K)
            init = pu.gen_init(rng, [F], K, N, str(rng.choice(['soft', 'uniform', 'flag'])))
            wopts = pu.wca_options(name, 3)
            w = wopts[int(rng.integers(len(wopts)))]
            opts = {'weight_constant_axis': w}
            sal = None
            if rng.random() < 0.5:
                sal = rng.random((F, N)) + 0.05
                opts['saliency'] = sal
            try:
                m = pu.fit(name, obs, emb, init, 1, opts)
            except Exception:  # noqa
                continue
            want = np.broadcast_to(pu.own_weight(name, m), (F, K, N))
            if name in pu.INTEGRATION:
                rule, eps = 'integ', tiny
            elif name == 'cacgmm' and sal is None:
                rule, eps = 'mean', 0.0
            else:
                rule, eps = 'sal', 1e-10
            s_ = np.ones((F, N)) if sal is None else sal
            i2 = int(isinstance(w, int) and w % 3 - 3 == -2)
            lines.append(f'estw {rule} {F} {K} {N} {ints(_tie(w))} {i2} {fbits([eps])} {fbits(init)} {fbits(s_)}')
            wants.append(want)
            ops.append(f'm_step.weight[{name}]')
            ctx.count(f'corr-mstep:{name}:{w}')
            done += 1
    for o, w_, op, ln in zip(run_driver(lines, exe=EXE), wants, ops, lines):
        got = parse_floats(o).reshape(w_.shape)
        ctx.corr(op, _close(got, w_), f'{ln[:60]}: code {np.asarray(w_).ravel()[:5]} model {got.ravel()[:5]}',
                 {'want': np.array(w_), 'got': got})
    # (c) relabelled E-step kernel
    lines, wants, ops = [], [], []
    for i in range(ctx.n(150, 3000)):
        K = int(rng.integers(2, 7))
        lp = rng.normal(size=K) * float(rng.choice([3, 100]))
        wgt = rng.dirichlet(np.ones(K))
        mask = None if rng.random() < 0.5 else rng.random(K) < 0.7
        eps = float(rng.choice([0.0, 1e-10, 1e-3]))
        perm = rng.permutation(K)
        base = mmu.log_pdf_to_affiliation(wgt[:, None], lp[:, None].copy(order='K'),
                                          source_activity_mask=None if mask is None else mask[:, None],
                                          affiliation_eps=eps)[:, 0]
        permd = mmu.log_pdf_to_affiliation(wgt[perm][:, None], lp[perm][:, None].copy(order='K'),
                                           source_activity_mask=None if mask is None else mask[perm][:, None],
                                           affiliation_eps=eps)[:, 0]
        lines.append(f'aff {K} {0 if mask is None else 1} {fbits([tiny])} {fbits([eps])} {fbits(wgt[perm])} {fbits(lp[perm])}'
                     + ('' if mask is None else ' ' + ' '.join(str(int(b)) for b in mask[perm])))
        wants.append((permd, base[perm]))
        ops.append('log_pdf_to_affiliation[relabelled]')
    for o, (w1, w2), op in zip(run_driver(lines, exe=EXE), wants, ops):
        got = parse_floats(o)
        ctx.corr(op, _close(got, w1, atol=1e-300) and _close(got, w2, rtol=1e-9, atol=1e-15),
                 f'code(permuted input) {w1} permuted code {w2} model {got}')
    ctx.sample({'op': 'estw', 'line': lines[0][:80] if lines else ''})
